#!/usr/bin/env python3
"""Pin the statement text of every theorem of the property modules (lean/ImathVerif/Props/*.lean) as sha256 of the
normalised text, into tools/pins/statements_<Module>.json; lib.Check.check_theorems compares on every run.
Run by hand after REVIEWING a changed statement (never by a check):  python3 tools/pin_statements.py [Module ...]"""
import glob, hashlib, json, os, sys
sys.path.insert(0, os.path.dirname(os.path.abspath(__file__)))
import lib
mods = sys.argv[1:]
for f in sorted(glob.glob(os.path.join(lib.LEAN, "ImathVerif", "Props", "*.lean"))):
    m = os.path.basename(f)[:-5]
    if mods and m not in mods:
        continue
    st = lib.theorem_statements(f)
    if not st:
        continue
    pins = {n: hashlib.sha256(t.encode()).hexdigest() for n, t in st.items()}
    json.dump(pins, open(lib.statement_pins_path("ImathVerif.Props." + m), "w"), indent=0, sort_keys=True)
    print(m, len(pins))
