#!/usr/bin/env python3
"""Confirm a seeded change and run our check against it, in isolation.

  seed_confirm.py <Cxx> <seed_dir> <worktree> [--check-only]

1. worktree := current /repo HEAD (detached), clean; apply patch.diff; build; ctest (all must pass);
   build+run the demo (must FAIL); revert; build+run the demo (must PASS).
2. run `tools/check.py Cxx` from an rsync'ed COPY of /verif with VERIF_REPO=<worktree with the patch applied>
   (so neither /repo nor /verif/lean/ImathVerif/Gen is disturbed for concurrently running work);
   report whether a VIOLATION was printed.
Prints a JSON summary."""
import os, sys, subprocess, json, glob, shutil, time

prop, sdir, wt = sys.argv[1], sys.argv[2], sys.argv[3]
check_only = "--check-only" in sys.argv
V = os.path.dirname(os.path.dirname(os.path.abspath(__file__)))
res = {"property": prop, "seed_dir": sdir}

def sh(cmd, cwd=None, timeout=3600, env=None):
    e = dict(os.environ); e.update(env or {})
    p = subprocess.run(cmd, shell=True, cwd=cwd, stdout=subprocess.PIPE, stderr=subprocess.STDOUT, text=True, timeout=timeout, env=e)
    return p.returncode, p.stdout

head = sh("git -C /repo rev-parse HEAD")[1].strip()
if os.environ.get("VERIF_SNAPSHOT") and os.path.exists(os.path.join(os.environ["VERIF_SNAPSHOT"], "REPO_BASE")):
    # a frozen /verif snapshot goes with the /repo commit it was taken at
    head = open(os.path.join(os.environ["VERIF_SNAPSHOT"], "REPO_BASE")).read().strip()
sh("git checkout -q -- . && git clean -fdq -e _build && git checkout -q --detach %s" % head, cwd=wt)
patch = os.path.join(sdir, "patch.diff")

def build_and_test():
    rc, out = sh("cmake -G Ninja -B _build -DBUILD_TESTING=ON > /dev/null && cmake --build _build -j8 2>&1 | tail -3 && ctest --test-dir _build -j8 --timeout 900 2>&1 | tail -4", cwd=wt)
    ok = "100% tests passed" in out
    return ok, out[-600:]

def demo():
    d = sdir
    if os.path.exists(os.path.join(d, "demo.sh")):
        return sh("bash demo.sh %s" % wt, cwd=d)
    if os.path.exists(os.path.join(d, "demo.py")):
        return sh("python3 demo.py %s" % wt, cwd=d)
    src = "demo.cpp" if os.path.exists(os.path.join(d, "demo.cpp")) else "demo.c"
    libs = " ".join(f for f in glob.glob(wt + "/src/Imath/*.cpp") if not f.endswith("toFloat.cpp"))
    comp = "g++ -std=c++17" if src.endswith(".cpp") else "gcc -std=c11"
    rc, out = sh("%s -O1 -I %s/src/Imath -I %s/_build/config %s %s -o /tmp/seed_demo_%d -lm" % (comp, wt, wt, src, libs if src.endswith(".cpp") else "", os.getpid()), cwd=d)
    if rc != 0:
        return 99, "demo does not compile: " + out[-800:]
    return sh("/tmp/seed_demo_%d" % os.getpid(), cwd=d, timeout=600)

if not check_only:
    rc, out = sh("git apply --check %s && git apply %s" % (patch, patch), cwd=wt)
    res["patch_applies"] = rc == 0
    if rc != 0:
        res["error"] = out[-500:]; print(json.dumps(res, indent=1)); sys.exit(1)
    ok, out = build_and_test(); res["tests_pass_with_patch"] = ok; res["tests_tail"] = out[-300:]
    rc, out = demo(); res["demo_fails_with_patch"] = rc != 0; res["demo_with_patch_tail"] = out[-300:]
    sh("git checkout -q -- .", cwd=wt)
    if os.path.exists(os.path.join(wt, "_build", "python3_11")) or os.path.exists(os.path.join(sdir, "demo.py")):
        # compiled Python module: the demo runs against the built tree, so rebuild the clean tree first
        sh("cmake --build _build -j8 2>&1 | tail -2", cwd=wt)
    rc, out = demo(); res["demo_passes_on_clean"] = rc == 0; res["demo_clean_tail"] = out[-200:]
# run our check in isolation
copy = "/tmp/vseed_%s" % prop.lower()
src = os.environ.get("VERIF_SNAPSHOT", "/verif").rstrip("/")     # a frozen copy of /verif while other work edits the live tree
sh("mkdir -p %s && rsync -a --delete --exclude .git --exclude replays --exclude 'evidence' %s/ %s/" % (copy, src, copy))
os.makedirs(copy + "/replays", exist_ok=True); os.makedirs(copy + "/evidence", exist_ok=True)
sh("git checkout -q -- . && git apply %s" % patch, cwd=wt)
t = time.time()
rc, out = sh("python3 tools/check.py %s --tier quick" % prop, cwd=copy, env={"VERIF_REPO": wt, "VERIF_BUILD_TAG": "seed_" + prop.lower()}, timeout=10800)
res["check_exit"] = rc
res["check_wall_s"] = round(time.time() - t)
_vl = [l for l in out.split("\n") if l.startswith("VIOLATION") or l.startswith("KNOWN-FINDING")]
res["n_violation_lines"] = sum(l.startswith("VIOLATION") for l in _vl)
res["n_violation_lines_with_failing_input"] = sum(l.startswith("VIOLATION") and "no-failing-input-found" not in l for l in _vl)
# lines that come with a failing input first (the record keeps 12)
res["violation_lines"] = sorted(_vl, key=lambda l: (not l.startswith("VIOLATION"), "no-failing-input-found" in l))[:12]
res["check_tail"] = out.strip().split("\n")[-1]
reps = {}
for l in res["violation_lines"][:4]:
    if "replay=" in l:
        rp = l.split("replay=")[1].split()[0]
        try:
            d = json.load(open(os.path.join(copy, rp)))
            reps[rp] = {"what": d["what"], "found_failing_input": d["found_failing_input"], "replay_head": json.dumps(d["replay"])[:400]}
        except Exception as e:
            reps[rp] = str(e)
res["replays"] = reps
sh("git checkout -q -- .", cwd=wt)
res["detected"] = rc == 1 and any(l.startswith("VIOLATION") for l in res["violation_lines"])
print(json.dumps(res, indent=1))
