"""Translator for the half limits (T-route for data):
/repo/src/Imath/half.h  ->  lean/ImathVerif/Gen/HalfLimits.lean

Primary route: harness/corr/half_limits_dump.cpp is compiled against the
CURRENT half.h and run; it prints the bit patterns returned by
std::numeric_limits<half>::min/max/..., the integer constants, the special
value factories and the binary32 patterns of the HALF_* macros.
Validation route: the same constants are parsed from the header text by regex
(`FromBits, 0x....` inside each numeric_limits member, `#define HALF_*` in the
non-MSVC branch); `regenerate()` returns both so that the check can record
their agreement as a translator-validation obligation."""
import os, re, struct, sys
sys.path.insert(0, os.path.dirname(os.path.abspath(__file__)))
import lib

OUT = os.path.join(lib.LEAN, "ImathVerif", "Gen", "HalfLimits.lean")
EXPECTED = ["limits_min", "limits_max", "limits_lowest", "limits_epsilon", "limits_round_error", "limits_infinity",
            "limits_quiet_NaN", "limits_signaling_NaN", "limits_denorm_min", "half_posInf", "half_negInf", "half_qNan",
            "half_sNan", "limits_digits", "limits_digits10", "limits_max_digits10", "limits_radix", "limits_min_exponent",
            "limits_max_exponent", "limits_min_exponent10", "limits_max_exponent10", "limits_is_signed", "limits_has_infinity",
            "limits_has_quiet_NaN", "limits_has_signaling_NaN", "limits_has_denorm", "limits_round_to_nearest",
            "macro_HALF_DENORM_MIN", "macro_HALF_NRM_MIN", "macro_HALF_MIN", "macro_HALF_MAX", "macro_HALF_EPSILON",
            "macro_HALF_MANT_DIG", "macro_HALF_DIG", "macro_HALF_DECIMAL_DIG", "macro_HALF_RADIX", "macro_HALF_DENORM_MIN_EXP",
            "macro_HALF_MAX_EXP", "macro_HALF_DENORM_MIN_10_EXP", "macro_HALF_MAX_10_EXP",
            "limits_is_specialized", "limits_is_integer", "limits_is_exact", "limits_is_modulo", "limits_is_bounded",
            "limits_is_iec559", "limits_traps", "limits_tinyness_before", "limits_has_denorm_loss"]
# what the regex (validation) route must keep reading; the six remaining members (is_signed, has_*, round_style) have no regex
REGEX_COVERED = [n for n in EXPECTED if n not in ("limits_is_signed", "limits_has_infinity", "limits_has_quiet_NaN",
                                                  "limits_has_signaling_NaN", "limits_has_denorm", "limits_round_to_nearest")]
FLOAT_MACROS = ("HALF_DENORM_MIN", "HALF_NRM_MIN", "HALF_MIN", "HALF_MAX", "HALF_EPSILON")


def compiled_values():
    """[(kind, name, value)] from the compiled dump program, or (None, compiler output)."""
    ok, binary, o = lib.cxx_build("half_limits_dump", ["corr/half_limits_dump.cpp"])
    if not ok:
        return None, o
    rc, out = lib.sh([binary], timeout=60)
    vals = []
    for l in out.split("\n"):
        w = l.split()
        if len(w) == 3:
            vals.append((w[0], w[1], int(w[2], 16) if w[0] in ("bits", "f32") else int(w[2])))
    return vals, out


def f32bits(x):
    return struct.unpack("<I", struct.pack("<f", x))[0]


def f32_of_decimal(text):
    """binary32 pattern nearest (ties to even) to the decimal literal `text`, computed exactly with
    rationals (no double rounding: an `f`-suffixed C literal is rounded once, straight to float)."""
    from fractions import Fraction
    x = Fraction(text)
    sign = 0x80000000 if x < 0 else 0
    x = abs(x)
    c = f32bits(float(x)) & 0x7fffffff
    best = None
    for u in (c - 1, c, c + 1):
        if 0 <= u < 0x7f800000:
            v = Fraction(struct.unpack("<f", struct.pack("<I", u))[0])
            d = abs(v - x)
            if best is None or d < best[0] or (d == best[0] and u % 2 == 0):
                best = (d, u)
    return sign | best[1]


def macro_blocks():
    """{'msvc': {HALF_X: (literal, suffix)}, 'other': {...}} - the two #if branches of the float macros."""
    src = open(os.path.join(lib.REPO, "src", "Imath", "half.h")).read()
    src_nc = re.sub(r"///[^\n]*", "", src)
    blk = re.search(r"#if \(defined _WIN32[^\n]*_MSC_VER[^\n]*\n(.*?)#else(.*?)#endif", src_nc, re.S)
    res = {"msvc": {}, "other": {}}
    if blk:
        for tag, body in (("msvc", blk.group(1)), ("other", blk.group(2))):
            for m in re.finditer(r"#\s*define\s+(HALF_\w+)\s+(-?[0-9][0-9.eE+\-]*)(f?)\s*$", body, re.M):
                res[tag].setdefault(m.group(1), (m.group(2), m.group(3)))
    return res


def regex_values():
    """The same constants read from the header text (non-MSVC branch of the macros)."""
    src = open(os.path.join(lib.REPO, "src", "Imath", "half.h")).read()
    src_nc = re.sub(r"///[^\n]*", "", src)
    res = {}
    lim = src_nc[src_nc.index("class numeric_limits<IMATH_INTERNAL_NAMESPACE::half>"):]
    for m in re.finditer(r"half\s+(\w+)\s*\(\s*\)[^{;]*\{\s*return\s+IMATH_INTERNAL_NAMESPACE::half\s*\(\s*"
                         r"IMATH_INTERNAL_NAMESPACE::half::FromBits\s*,\s*(0[xX][0-9a-fA-F]+|\d+)\s*\)", lim):
        res["limits_" + m.group(1)] = int(m.group(2), 0)
    cls = src_nc[src_nc.index("class IMATH_EXPORT_TYPE half"):src_nc.index("class numeric_limits")]
    for m in re.finditer(r"half::(posInf|negInf|qNan|sNan)\s*\(\s*\)[^{;]*\{\s*return\s+half\s*\(\s*FromBits\s*,\s*(0[xX][0-9a-fA-F]+|\d+)\s*\)", cls):
        res["half_" + m.group(1)] = int(m.group(2), 0)
    macros = {}
    blk = re.search(r"#if \(defined _WIN32.*?#else(.*?)#endif", src_nc, re.S)
    body = (blk.group(1) if blk else "") + src_nc
    for m in re.finditer(r"#\s*define\s+(HALF_\w+)\s+(-?[0-9][0-9.eE+\-]*)(f?)\s*$", body, re.M):
        macros.setdefault(m.group(1), m.group(2))
    mb = macro_blocks()
    for k in FLOAT_MACROS:
        # what `(float) HALF_X` is: an f-suffixed literal is rounded once to binary32, an unsuffixed one is a
        # double literal converted to float
        if k in mb["other"]:
            lit, suf = mb["other"][k]
            res["macro_" + k] = f32_of_decimal(lit) if suf else f32bits(float(lit))
        if k in mb["msvc"]:
            lit, suf = mb["msvc"][k]
            res["msvc_macro_" + k] = f32_of_decimal(lit) if suf else f32bits(float(lit))
    for lname in ("is_specialized", "is_integer", "is_exact", "is_modulo", "is_bounded", "is_iec559", "traps",
                  "tinyness_before", "has_denorm_loss"):
        m = re.search(r"\bbool\s+%s\s*=\s*(true|false)\s*;" % lname, lim)
        if m:
            res["limits_" + lname] = 1 if m.group(1) == "true" else 0
    for k in ("HALF_MANT_DIG", "HALF_DIG", "HALF_DECIMAL_DIG", "HALF_RADIX", "HALF_DENORM_MIN_EXP", "HALF_MAX_EXP",
              "HALF_DENORM_MIN_10_EXP", "HALF_MAX_10_EXP"):
        if k in macros:
            res["macro_" + k] = int(macros[k])
    for lname, mac in (("digits", "HALF_MANT_DIG"), ("digits10", "HALF_DIG"), ("max_digits10", "HALF_DECIMAL_DIG"),
                       ("radix", "HALF_RADIX"), ("min_exponent", "HALF_DENORM_MIN_EXP"), ("max_exponent", "HALF_MAX_EXP"),
                       ("min_exponent10", "HALF_DENORM_MIN_10_EXP"), ("max_exponent10", "HALF_MAX_10_EXP")):
        m = re.search(r"\b%s\s*=\s*(\w+|-?\d+)\s*;" % lname, lim)
        if m:
            v = m.group(1)
            res["limits_" + lname] = int(macros[v]) if v in macros else (int(v) if re.fullmatch(r"-?\d+", v) else None)
    return res


def emit(vals):
    out = ["-- GENERATED from /repo/src/Imath/half.h by tools/gen_halflimits.py (compiled dump of", 
           "-- std::numeric_limits<half> and the HALF_* macros); do not edit.",
           "namespace ImathVerif.Gen", ""]
    for kind, name, v in vals:
        if kind == "bits":
            out.append("/-- half bit pattern -/\ndef %s : Nat := 0x%04x" % (name, v))
        elif kind == "f32":
            out.append("/-- binary32 pattern of `(float) %s` -/\ndef %s_f32 : Nat := 0x%08x" % (name[6:], name, v))
        else:
            out.append("def %s : Int := %s" % (name, ("(%d)" % v) if v < 0 else str(v)))
    out += ["", "end ImathVerif.Gen", ""]
    return "\n".join(out)


def regenerate():
    """Returns (compiled {name: value} or None, regex {name: value}, changed, compiler/run output)."""
    vals, out = compiled_values()
    rx = regex_values()
    if vals is None:
        return None, rx, False, out
    names = [n for (_, n, _) in vals]
    missing = [n for n in EXPECTED if n not in names]
    if missing:
        return None, rx, False, "dump program did not print: %s\n%s" % (missing, out)
    with lib.Lock("lean"):
        changed = lib.write_if_changed(OUT, emit(vals))
    return {n: v for (_, n, v) in vals}, rx, changed, out


if __name__ == "__main__":
    c, r, ch, o = regenerate()
    print("compiled:", c)
    print("regex   :", r)
    print("agree   :", c is not None and all(r.get(k) == v for k, v in c.items() if k in r), "regex covers", len(r), "of", len(c or {}))
    print("changed" if ch else "unchanged")
