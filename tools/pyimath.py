"""Build the real PyImath (imath python module) from /repo's current tree into
/verif/.build/pyimath (incremental: cmake+ninja; ~1m45 cold, seconds when
nothing changed) and expose the environment needed to import it.

  from pyimath import build, env, PYTHON
  ok, log = build()                 # under a file lock; safe to call concurrently
  subprocess.run([PYTHON, script], env=env())
"""
import os, sys, glob
sys.path.insert(0, os.path.dirname(os.path.abspath(__file__)))
import lib

# A scratch copy of the repository (VERIF_REPO=/some/copy, used to sanity-test the checks against
# deliberately broken sources) gets its own build tree: .build/pyimath_<VERIF_BUILD_TAG>.
_TAG = os.environ.get("VERIF_BUILD_TAG", "") if os.environ.get("VERIF_REPO") else ""
BDIR = os.path.join(lib.BUILD, "pyimath" + ("_" + _TAG if _TAG else ""))
PYTHON = os.environ.get("VERIF_PYTHON") or (
    "/root/.pyenv/versions/3.11.7/bin/python3" if os.path.exists("/root/.pyenv/versions/3.11.7/bin/python3") else "python3")


def build(timeout=3600):
    lib.ensure_dir(BDIR)
    with lib.Lock(os.path.basename(BDIR)):
        if not os.path.exists(os.path.join(BDIR, "build.ninja")):
            rc, out = lib.sh(["cmake", "-G", "Ninja", "-S", lib.REPO, "-B", BDIR, "-DPYTHON=ON", "-DBUILD_TESTING=OFF",
                              "-DCMAKE_BUILD_TYPE=Release", "-DPython3_EXECUTABLE=" + PYTHON], timeout=timeout)
            if rc != 0:
                return False, out
        rc, out = lib.sh(["cmake", "--build", BDIR, "-j", str(lib.NCPU)], timeout=timeout)
        return rc == 0, out


def module_dir():
    c = glob.glob(os.path.join(BDIR, "python3_*"))
    return c[0] if c else os.path.join(BDIR, "python3_11")


def env(extra=None):
    e = dict(os.environ)
    ld = [os.path.join(BDIR, "src", "Imath"), os.path.join(BDIR, "src", "python", "PyImath")]
    e["LD_LIBRARY_PATH"] = ":".join(ld + [e.get("LD_LIBRARY_PATH", "")])
    e["PYTHONPATH"] = ":".join([module_dir(), os.path.join(lib.VERIF, "harness", "py"), e.get("PYTHONPATH", "")])
    if extra:
        e.update(extra)
    return e


if __name__ == "__main__":
    ok, out = build()
    print(out[-2000:])
    print("ok" if ok else "FAILED", module_dir())
    sys.exit(0 if ok else 1)
