SETUP_CMD = "python3 tools/setup.py"
HOOKS = {"guard": "IMATH_VERIF_HOOKS", "enable": "no hooks are needed; checks compile /repo's headers and sources as they are",
         "baseline_off_cmd": "cmake --build /repo/_build && ctest --test-dir /repo/_build -j8 --timeout 900",
         "source_commits": [], "add_only": True}
ENGINES = [
    {"name": "lean4", "path": "lean", "serves_properties": [], "kind_free_text":
     "Lean 4.33 + Mathlib: property theorems in lean/ImathVerif/Props over hand models (Model/) and models regenerated from /repo (Gen/)"},
    {"name": "sym-extractor", "path": "harness/sym", "serves_properties": [], "kind_free_text":
     "translator: compiles the real Imath templates at T = symbolic scalar, enumerates all paths, emits Lean definitions"},
    {"name": "correspondence", "path": "harness/corr", "serves_properties": [], "kind_free_text":
     "C++/Python harnesses running the real code and the Lean model drivers on the same inputs"},
]
NOTES = "All checks: python3 tools/check.py <id> --tier quick|thorough (cwd /verif, honours VERIF_SEED). See DESIGN.md."
NOT_APPLICABLE = {}
CHECKS = {}
