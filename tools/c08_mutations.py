#!/usr/bin/env python3
"""C08 mutation bench (reproduces the "mutations tried" of DESIGN §6 C08; not part of the check).

For each mutation of ImathVec.h: copy /repo's sources to a private directory, apply the edit, build PRIVATE copies of the two extractors and
of the residue harness against it, emit Gen/ into a private directory, elaborate Props/C08Shape.lean and Props/C08Rounding.lean against the
mutated definitions under a renamed namespace (`ImathVerif.GenM`; nothing under lean/ImathVerif/Gen is touched, no lake lock needed), compare
the extras with tools/pins, and run the residue harness (lattice, sweep with the drift rule of tools/props/c08.py, exhaustive slice) and the
per-leaf TV.  Prints which nets caught the mutation.

    python3 tools/c08_mutations.py [name-substring ...]        # all, or those whose name contains one of the substrings
"""
import os, re, sys, shutil, json
W = "/tmp/c08_mutations_%d" % os.getpid()
os.environ["VERIF_REPO"] = W + "/repo"
sys.path.insert(0, os.path.dirname(os.path.abspath(__file__)))
sys.path.insert(0, os.path.join(os.path.dirname(os.path.abspath(__file__)), "props"))
import lib, troute
import c08 as C

SRC = "/repo"
VEC = "src/Imath/ImathVec.h"


def sub_in(fn_header, old, new, count=1):
    """replace `old` by `new` inside the function that starts at `fn_header`"""
    def f(s):
        i = s.index(fn_header)
        j = s.index(old, i)
        return s[:j] + new + s[j + len(old):]
    return f


GUARD_MIN = "T (2) * std::numeric_limits<T>::min ()"
DIV3 = "    absX /= max;\n    absY /= max;\n    absZ /= max;"
MUTATIONS = [
    ("M1-V3-threshold-2^40", sub_in("Vec3<T>::length () const IMATH_NOEXCEPT\n{", GUARD_MIN, "T (1099511627776.0) * std::numeric_limits<T>::min ()")),
    ("M2-V2-lt-to-le", sub_in("Vec2<T>::length () const IMATH_NOEXCEPT\n{", "length2 < T (2)", "length2 <= T (2)")),
    ("M3-V4-overflow-disjunct-dropped", lambda s: (lambda i: (lambda j, k: s[:j] + "std::numeric_limits<T>::min ()))" + s[k + len("std::numeric_limits<T>::max ()))"):])(
        s.index("std::numeric_limits<T>::min () ||", i), s.index("std::numeric_limits<T>::max ()))", i)))(s.index("Vec4<T>::length () const IMATH_NOEXCEPT\n{"))),
    ("M4-V3-factor-2-dropped", sub_in("Vec3<T>::length () const IMATH_NOEXCEPT\n{", GUARD_MIN, "std::numeric_limits<T>::min ()")),
    ("M5-V4-min-to-epsilon", sub_in("Vec4<T>::length () const IMATH_NOEXCEPT\n{", "std::numeric_limits<T>::min ()", "std::numeric_limits<T>::epsilon ()")),
    ("M6-V2-limits-swapped", lambda s: sub_in("Vec2<T>::length () const IMATH_NOEXCEPT\n{", "length2 > std::numeric_limits<T>::max ()", "length2 > std::numeric_limits<T>::min ()")(
        sub_in("Vec2<T>::length () const IMATH_NOEXCEPT\n{", GUARD_MIN, "T (2) * std::numeric_limits<T>::max ()")(s))),
    ("M7-V3-lengthTiny-reciprocal", sub_in("Vec3<T>::lengthTiny () const IMATH_NOEXCEPT\n{", DIV3, "    T r = T (1) / max;\n    absX *= r;\n    absY *= r;\n    absZ *= r;")),
    ("M8-V2-normalize-reciprocal", sub_in("Vec2<T>::normalize () IMATH_NOEXCEPT\n{", "        x /= l;\n        y /= l;", "        T r = T (1) / l;\n        x *= r;\n        y *= r;")),
    ("M9-V3-direct-as-quotient", sub_in("Vec3<T>::length () const IMATH_NOEXCEPT\n{", "    return std::sqrt (length2);", "    return length2 / std::sqrt (length2);")),
    ("M10-V4-max-by-le-HARMLESS", sub_in("Vec4<T>::lengthTiny () const IMATH_NOEXCEPT\n{", "    if (max < absW) max = absW;", "    if (max <= absW) max = absW;")),
    ("M11-V3-lengthTiny-extra-roundings", sub_in("Vec3<T>::lengthTiny () const IMATH_NOEXCEPT\n{", DIV3,
                                                 "    absX = (absX * T (0.75)) / (max * T (0.75));\n    absY = (absY * T (0.75)) / (max * T (0.75));\n    absZ = (absZ * T (0.75)) / (max * T (0.75));")),
    ("M12-V4-normalizedNonNull-reciprocal", sub_in("Vec4<T>::normalizedNonNull () const IMATH_NOEXCEPT\n{", "    return Vec4 (x / l, y / l, z / l, w / l);",
                                                   "    T r = T (1) / l;\n    return Vec4 (x * r, y * r, z * r, w * r);")),
    ("M13-V2-direct-dot-reassociated", sub_in("Vec2<T>::length () const IMATH_NOEXCEPT\n{", "    return std::sqrt (length2);", "    return std::sqrt (y * y + x * x);")),
]


def lean_against(gen, files):
    def body(f):
        t = re.sub(r"^import .*\n", "", open(f).read(), flags=re.M)
        return t.replace("namespace ImathVerif.Gen", "namespace ImathVerif.GenM").replace("end ImathVerif.Gen", "end ImathVerif.GenM")
    failing = {}
    for name in files:
        src = open(os.path.join(lib.LEAN, "ImathVerif", "Props", name + ".lean")).read()
        imports = re.findall(r"^import (Mathlib\S+)", src, flags=re.M)
        txt = ("import ImathVerif.Basic.Types\n" + "".join("import %s\n" % i for i in imports) + body(gen + "/Leaf.lean") + body(gen + "/C08.lean") +
               re.sub(r"^import .*\n", "", src, flags=re.M).replace("Gen.", "GenM."))
        p = os.path.join(W, "Mut%s.lean" % name)
        open(p, "w").write(txt)
        rc, out = lib.sh(["timeout", "900", "lake", "env", "lean", p], cwd=lib.LEAN)
        lines = txt.split("\n")
        starts = [(i, m.group(1)) for i, l in enumerate(lines) for m in [re.match(r"\s*(?:private )?(?:theorem|example)\s*([^\s:({\[]*)", l)] if m]
        bad = set()
        for m in re.finditer(r"Mut%s\.lean:(\d+):\d+: error" % name, out):
            prev = [n for (i, n) in starts if i <= int(m.group(1)) - 1]
            bad.add(prev[-1] if prev else "?")
        failing[name] = sorted(bad)
    return failing


def run_one(name, edit):
    shutil.rmtree(W, ignore_errors=True)
    os.makedirs(W + "/repo")
    for d in ("src", "config", "CMakeLists.txt"):
        (shutil.copytree if os.path.isdir(os.path.join(SRC, d)) else shutil.copy)(os.path.join(SRC, d), os.path.join(W, "repo", d))
    p = os.path.join(W, "repo", VEC)
    s0 = open(p).read()
    s = edit(s0)
    assert s != s0, "mutation %s did not apply" % name
    open(p, "w").write(s)
    jobs = [dict(name="sym_leaf_c08mut", sources=["sym/sym_leaf.cpp"], extra=troute.SYM_FLAGS), dict(name="sym_c08_c08mut", sources=["sym/sym_c08.cpp"], extra=troute.SYM_FLAGS),
            dict(name="c08_residue_c08mut", sources=["corr/c08_residue.cpp"], libs=["-lquadmath"])]
    res = lib.cxx_build_many(jobs)
    caught = []
    if not all(r[0] for r in res.values()):
        print("=== %s: BUILD FAILS (caught by build obligations)" % name)
        return
    leaf, c08b, resid = (res[j["name"]][1] for j in jobs)
    gen = W + "/gen"
    os.makedirs(gen)
    lib.sh([leaf, "emit", gen, "leaf"])
    lib.sh([c08b, "emit", gen, "c08", "--idx", gen + "/index_leaf.txt"])
    for tag in ("leaf", "c08"):
        pins = json.load(open(os.path.join(lib.VERIF, "tools", "pins", "extras_%s.json" % tag)))
        moved = [m.group(1) for l in open(gen + "/index_%s.txt" % tag) for m in [re.match(r"FN (\S+) \|.*extra=([^|]*)\|", l)] if m and pins.get(m.group(1), m.group(2).strip()) != m.group(2).strip()]
        if moved:
            caught.append("pins:%s(%d entries)" % (tag, len(moved)))
    for mod, bad in lean_against(gen, ["C08Shape", "C08Rounding"]).items():
        if bad:
            caught.append("%s:%s" % (mod, ",".join(bad[:4])))
    idx = ["--idx", gen + "/index_leaf.txt"]
    for b, extra in ((leaf, []), (c08b, idx)):
        rc, out = lib.sh([b, "tvwit"] + extra)
        if rc != 0:
            caught.append("tvwit:" + os.path.basename(b))
    rc, out = lib.sh([resid, "1", "lattice", "all"])
    kinds = sorted(set(" ".join(l.split()[1:4]) for l in out.split("\n") if l.startswith("RESIDUE-FAIL")))
    if kinds:
        caught.append("lattice:%d kinds e.g. %s" % (len(kinds), kinds[0]))
    rc, out = lib.sh([resid, "1", "sweep", "2", "1"])
    kinds = sorted(set(" ".join(l.split()[1:4]) for l in out.split("\n") if l.startswith("RESIDUE-FAIL")))
    br = [k for k in kinds if k.split()[2] in C.BRANCH_WHATS]
    if br:
        caught.append("branch-probe:%s" % br[0])
    if [k for k in kinds if k not in br]:
        caught.append("sweep-bounds:%d kinds e.g. %s" % (len(kinds) - len(br), [k for k in kinds if k not in br][0]))
    agg = {}
    for l in out.split("\n"):
        m = re.match(r"CLASS (\w+)\|(\w+)\|(\d)\|(\S+) max=([\d.]+)", l)
        if m:
            agg.setdefault(m.group(1), {})[m.group(4)] = max(agg.get(m.group(1), {}).get(m.group(4), 0), float(m.group(5)))
    drift = []
    for metric, classes in agg.items():
        cal = C.CALIBRATED["quick"].get({"unit_by_form": "unit_err_eps", "ratio_by_form": "ratio_err_u"}.get(metric, metric))
        for cls, v in (classes.items() if cal else []):
            c = cal.get(cls.split("/")[0] if metric.endswith("_by_form") else cls)
            if c is not None and v > c + C.DRIFT:
                drift.append("%s[%s]=%.2f>%.2f" % (metric, cls, v, c))
    if drift:
        caught.append("drift:%d classes e.g. %s" % (len(drift), drift[0]))
    groups = {}
    for l in out.split("\n"):
        m = re.match(r"CLASS (unit_by_form|ratio_by_form)\|(\w+)\|(\d)\|([^/\s]+)/(\S+) max=([\d.]+)", l)
        if m:
            groups.setdefault(m.groups()[:4], {})[m.group(5)] = float(m.group(6))
    spread = ["%s Vec%s<%s> %s" % (k[0], k[2], k[1], k[3]) for k, f in groups.items() if max(f.values()) - min(f.values()) > 0.01]
    if spread:
        caught.append("forms-spread:%d groups e.g. %s" % (len(spread), spread[0]))
    rc, out = lib.sh([resid, "1", "exhaustive", str(lib.NCPU), str(C.SLICE), "1"])
    if rc != 0:
        caught.append("exhaustive-slice")
    print("=== %-36s %s" % (name, "CAUGHT BY " + " | ".join(caught) if caught else "NOT CAUGHT"))
    sys.stdout.flush()


if __name__ == "__main__":
    want = sys.argv[1:]
    try:
        for name, edit in MUTATIONS:
            if not want or any(w in name for w in want):
                run_one(name, edit)
    finally:
        shutil.rmtree(W, ignore_errors=True)
        for n in ("sym_leaf_c08mut", "sym_c08_c08mut", "c08_residue_c08mut"):
            try:
                os.remove(os.path.join(lib.BUILD, "bin", n))
            except OSError:
                pass
