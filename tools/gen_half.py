"""Regex translator for the half tables and constants (T-route for data):
/repo/src/Imath/toFloat.h  ->  lean/ImathVerif/Gen/ToFloatTable.lean
The table is emitted as 16 big hexadecimal Nat literals (4096 entries of 32
bits each, entry i at bit 32*i) so that the kernel can index it with GMP
shifts; `tableEntry h` reads entry h."""
import os, re, sys
sys.path.insert(0, os.path.dirname(os.path.abspath(__file__)))
import lib


def parse_table():
    src = open(os.path.join(lib.REPO, "src", "Imath", "toFloat.h")).read()
    src = re.sub(r"//[^\n]*", "", src)
    ents = re.findall(r"\{\s*(0[xX][0-9a-fA-F]+|\d+)\s*\}", src)
    return [int(e, 0) for e in ents]


def emit(entries):
    n = len(entries)
    out = ["-- GENERATED from /repo/src/Imath/toFloat.h by tools/gen_half.py; do not edit.",
           "namespace ImathVerif.Gen", "",
           "def toFloatCount : Nat := %d" % n, ""]
    nchunks = 16
    per = 4096
    for c in range(nchunks):
        v = 0
        for i, e in enumerate(entries[c * per:(c + 1) * per]):
            v |= (e & 0xffffffff) << (32 * i)
            if e >> 32:
                v = 0  # malformed entry: poison the chunk, theorem will fail
        out.append("def toFloatChunk%d : Nat := 0x%x" % (c, v))
    out.append("")
    out.append("def toFloatChunk (c : Nat) : Nat :=")
    out.append("  match c with")
    for c in range(nchunks):
        out.append("  | %d => toFloatChunk%d" % (c, c))
    out.append("  | _ => 0")
    out.append("")
    out.append("/-- entry `h` of imath_half_to_float_table as checked in -/")
    out.append("def tableEntry (h : Nat) : Nat := (toFloatChunk (h / 4096) >>> (32 * (h % 4096))) % 4294967296")
    out.append("")
    out.append("end ImathVerif.Gen")
    return "\n".join(out) + "\n"


def regenerate():
    ents = parse_table()
    text = emit(ents)
    with lib.Lock("lean"):
        changed = lib.write_if_changed(os.path.join(lib.LEAN, "ImathVerif", "Gen", "ToFloatTable.lean"), text)
    return ents, changed


if __name__ == "__main__":
    e, ch = regenerate()
    print(len(e), "entries; changed" if ch else "entries; unchanged")
