#!/usr/bin/env python3
"""MANIFEST.setup_cmd: build the Lean library and drivers once, offline.

Builds, per registered check, its property module (and with it the models,
specs, lemmas and generated snapshots it imports) and every driver executable.
A module that fails here is reported but does not fail the setup: the check that
owns it will report it (with a replay) when it runs."""
import os, sys, re, subprocess
sys.path.insert(0, os.path.dirname(os.path.abspath(__file__)))
import lib, manifest_src

os.chdir(lib.VERIF)
lib.ensure_dir(lib.BUILD)
try:
    import gen_half
    gen_half.regenerate()
except Exception as e:
    print("gen_half:", e)
targets = []
for pid in sorted(manifest_src.CHECKS):
    p = os.path.join(lib.LEAN, "ImathVerif", "Props", pid + ".lean")
    if os.path.exists(p):
        targets.append("ImathVerif.Props." + pid)
exes = re.findall(r'^name\s*=\s*"(drv_\w+)"', open(os.path.join(lib.LEAN, "lakefile.toml")).read(), re.M)
bad = []
for t in targets + exes:
    rc, out = lib.lake_build([t], timeout=3 * 3600)
    print("[setup] lake build %s -> %s" % (t, "ok" if rc == 0 else "FAILED"))
    if rc != 0:
        bad.append(t)
        print(out[-1500:])
print("[setup] built %d targets, %d failed: %s" % (len(targets) + len(exes), len(bad), bad))
sys.exit(0)
