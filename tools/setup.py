#!/usr/bin/env python3
"""MANIFEST.setup_cmd: build the Lean library and drivers once, offline."""
import os, sys, subprocess
sys.path.insert(0, os.path.dirname(os.path.abspath(__file__)))
import lib
os.chdir(lib.VERIF)
try:
    import gen_half
    gen_half.regenerate()
except Exception as e:
    print("gen_half:", e)
rc, out = lib.lake_build([], timeout=3 * 3600)
print(out[-3000:])
sys.exit(0 if rc == 0 else 1)
