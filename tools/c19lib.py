"""Correspondence machinery for C19: run op streams through the Lean model driver, the real imath
module (Python harness) and the Python-list specification executor; compare; shrink."""
import os, sys, json, re
sys.path.insert(0, os.path.dirname(os.path.abspath(__file__)))
import lib, pyimath

HPY = os.path.join(lib.VERIF, "harness", "py")
sys.path.insert(0, HPY)
import c19_gen  # noqa: E402

DRV = os.path.join(lib.LEAN, ".lake", "build", "bin", "drv_fixedarray")
HARNESS = os.path.join(HPY, "c19_harness.py")
CORPUS = os.path.join(HPY, "c19_corpus")


def build_driver():
    rc, out = lib.lake_build(["drv_fixedarray"])
    return rc == 0, out


NFLAGS = 7
FLAG_NAMES = ("maskedAccessThrows", "convertDense", "sliceEmptyBackward", "ifelseConstRead", "maskOnMaskedHonoured",
              "componentKeepsMask", "sizeHelperOverloads")
AS_WRITTEN = (0,) * NFLAGS
# Cfg.current of Model/FixedArray.lean (first five flags) + `compView true` (component arrays keep the mask): what the
# primary theorems are stated for
CURRENT = (1, 1, 1, 1, 0, 1, 1)
COMP_KEY = "c19_harness:ArrayComponent_get:masked-reference"
VSIZE_KEY = "c19_harness:FixedVArray.SizeHelper.__getitem__:overload-order"


def cfg_args(cfg):
    c = tuple(cfg) + (0,) * (NFLAGS - len(cfg))
    return [str(int(x)) for x in c]


def run_model(text, cfg=CURRENT, timeout=1200):
    rc, out = lib.sh([DRV] + cfg_args(cfg), stdin=text, timeout=timeout)
    return rc, out.split("\n")


def run_real(text, cls="IntArray", timeout=1800):
    rc, out = lib.sh([pyimath.PYTHON, HARNESS, "--mode", "real", "--cls", cls], stdin=text, timeout=timeout,
                     env=pyimath.env())
    return rc, out.split("\n")


def run_spec(text, timeout=1800, quirks=""):
    rc, out = lib.sh([sys.executable, HARNESS, "--mode", "spec"] + (["--quirks", quirks] if quirks else []), stdin=text, timeout=timeout)
    return rc, out.split("\n")


class Server:
    """a long-running executor behind pipes: run(program_lines) -> output lines (one per op)"""

    def __init__(self, cmd, env=None):
        import subprocess
        self.p = subprocess.Popen(cmd, stdin=subprocess.PIPE, stdout=subprocess.PIPE, stderr=subprocess.DEVNULL,
                                  text=True, env=env, bufsize=1)

    def run(self, prog):
        self.p.stdin.write("reset\n" + "\n".join(prog) + "\n")
        self.p.stdin.flush()
        out = []
        for _ in range(len(prog) + 1):
            l = self.p.stdout.readline()
            if not l:
                raise RuntimeError("executor died")
            out.append(l.rstrip("\n"))
        return out[1:]

    def close(self):
        try:
            self.p.stdin.close()
            self.p.wait(timeout=5)
        except Exception:
            self.p.kill()


_servers = {}


def server(kind, cls="IntArray", cfg=CURRENT):
    key = (kind, cls, tuple(cfg))
    sv = _servers.get(key)
    if sv is None or sv.p.poll() is not None:
        if kind == "model":
            sv = Server([DRV] + cfg_args(cfg))
        elif kind == "real":
            sv = Server([pyimath.PYTHON, HARNESS, "--mode", "real", "--cls", cls, "--flush"], env=pyimath.env())
        elif kind == "specq":
            sv = Server([sys.executable, HARNESS, "--mode", "spec", "--flush", "--quirks", KNOWN_QUIRKS])
        else:
            sv = Server([sys.executable, HARNESS, "--mode", "spec", "--flush"])
        _servers[key] = sv
    return sv


def close_servers():
    for sv in _servers.values():
        sv.close()
    _servers.clear()


def classes():
    rc, out = lib.sh([pyimath.PYTHON, HARNESS, "--mode", "classes"], env=pyimath.env(), timeout=300)
    try:
        return json.loads(out[out.index("{"):])
    except Exception:
        return {"_error": out[-2000:]}


def norm(l):
    return l.rstrip()


def is_err(l):
    return l.startswith("err ") or l.startswith("alias err ")


def compare_model_real(index, lines, model, real, strict_err=True):
    """-> (mismatches, oob_programs, nlines_compared).
    mismatch: (program_no, kind, op_offset, model_line, real_line); a program is compared up to the first line
    where the model reports `oob` (the C++ behaviour is undefined from there on)."""
    mism, oobs, n = [], [], 0
    for pno, (kind, first, cnt) in enumerate(index):
        for k in range(cnt):
            ln = first + k
            m = norm(model[ln]) if ln < len(model) else "<missing>"
            r = norm(real[ln]) if ln < len(real) else "<missing>"
            if "oob" in m:
                oobs.append((pno, kind, k, m, r))
                break
            n += 1
            if m != r:
                # The ONLY tolerated difference (measured over all 47 other classes): the class-specific `__setitem__(int, elem)`
                # bindings of the matrix / vector arrays canonicalise the index BEFORE the read-only test, so an out-of-range
                # int index on a read-only array raises IndexError where the generic code raises ValueError(read-only).
                # Both leave the state unchanged; any other pair of different errors is a mismatch.
                if not strict_err and m.startswith("err ValueError:readOnly") and r.startswith("err IndexError:indexError") and \
                        m.split(";", 1)[-1] == r.split(";", 1)[-1] and lines[ln].startswith("setscalar ") and " i:" in lines[ln]:
                    continue
                mism.append((pno, kind, k, m, r))
                break
    return mism, oobs, n


def spec_line_equal(s, r):
    """spec vs real: errors compare as errors (the kind is an implementation detail), anything else exactly"""
    if s.startswith("err ") and r.startswith("err "):
        return s.split(";", 1)[1] == r.split(";", 1)[1] if ";" in s and ";" in r else True
    return s == r


KNOWN_QUIRKS = "maskonmasked"
MASK_KEY = "setitem-scalar-mask-on-masked-ref-ignores-mask"


def walk_spec_real(spec, specq, real, first, cnt):
    """one program against the list specification.  `spec` = plain list semantics, `specq` = the same executor REPRODUCING the
    recorded open deviation exactly (mask-on-masked: every referenced element written although the mask selected a subset;
    lines where that took effect carry the prefix `quirk `).  The program is compared with `spec` up to its first deviation; if
    the real line is then exactly what `specq` gives on a `quirk` line, the deviation IS the recorded one: it is counted under
    its key and the comparison CONTINUES against `specq` (the specification re-synchronised with the real state).  Any other
    difference — also a wrong element on a mask-on-masked line — is an unknown deviation and ends the program.
    -> (known [(k, spec_line, real_line)], unknown (k, spec_line, real_line) | None, aliased 0/1, lines compared)"""
    known, n = [], 0
    ref = spec
    for k in range(cnt):
        ln = first + k
        s = norm(ref[ln]) if ln < len(ref) else "<missing>"
        r = norm(real[ln]) if ln < len(real) else "<missing>"
        if s.startswith("alias "):
            return known, None, 1, n
        n += 1
        isq = s.startswith("quirk ")
        if isq:
            s = s[6:]
        if spec_line_equal(s, r):
            if isq:
                known.append((k, norm(spec[ln]) if ref is spec else "list semantics: only the elements the mask selects", r))
            continue
        if ref is spec and specq is not None:
            q = norm(specq[ln]) if ln < len(specq) else "<missing>"
            if q.startswith("quirk ") and spec_line_equal(q[6:], r):
                known.append((k, s, r))
                ref = specq
                continue
        return known, (k, s, r), 0, n
    return known, None, 0, n


def compare_spec_real(index, lines, spec, real, specq=None):
    """-> (unknown deviations, aliased, n, known deviations). deviation: (program_no, kind, op_offset, spec_line, real_line)."""
    dev, aliased, n, known = [], 0, 0, []
    for pno, (kind, first, cnt) in enumerate(index):
        kn, unk, al, nn = walk_spec_real(spec, specq, real, first, cnt)
        aliased += al
        n += nn
        known += [(pno, kind, k, a, b) for (k, a, b) in kn]
        if unk is not None:
            dev.append((pno, kind) + unk)
    return dev, aliased, n, known


def program_lines(index, lines, pno):
    kind, first, cnt = index[pno]
    return lines[first:first + cnt]


# ----------------------------------------------------------------------------------------------
# classification of a deviation from list semantics -> key naming the call site / input class

def view_kind(prog, upto, vid):
    """describe 1-D view `vid` from the spec executor's state just before op number `upto`"""
    sp = c19_gen.SpecExec()
    for l in prog[:upto]:
        try:
            sp.run(l.split())
        except Exception:
            pass
    try:
        o = sp.objs[int(vid)]
    except Exception:
        return "unknown"
    return ("masked" if o.sel is not None else "direct") + ("-readonly" if not o.writable else "")


def classify(prog, k, spec_line, real_line):
    t = prog[k].split()
    op = t[0]
    if op in ("d2", "m"):
        return "spec:%s-%s" % (op, t[1])
    if op == "v":
        if t[1] in ("size", "sizemask"):
            return VSIZE_KEY
        return "spec:v-%s" % t[1]
    # a deviation on / after taking the component array OF A MASKED REFERENCE (any other component deviation, e.g. a
    # write through the component array of a read-only dense array, keeps its own `spec:` key)
    for j in range(k + 1):
        tj = prog[j].split()
        if tj and tj[0] == "comp" and view_kind(prog, j, tj[1]).startswith("masked"):
            return COMP_KEY
    vk = view_kind(prog, k, t[1]) if len(t) > 1 else ""
    if op in ("iadds", "iaddv") and vk == "masked-readonly":
        return "masked-inplace-on-readonly"
    if "domainError" in real_line and op in ("getslice", "setscalar", "setvector"):
        return "slice-negstep-start-below-range-raises"
    if op in ("ifelses", "ifelsev") and "readonly" in vk and "readOnly" in real_line:
        return "ifelse-on-readonly-source-raises"
    # (the open mask-on-masked finding is recognised by its exact effect in walk_spec_real, never by operation / view kind)
    if op == "convert" or "EXC(" in real_line:
        return "convert-ctor-from-masked"
    return "spec:%s:%s" % (op, vk)


# ----------------------------------------------------------------------------------------------
# shrinking

CREATORS = ("alloc", "alloci", "allocc", "allocfill", "allocw", "comp", "getslice", "getmask", "copy", "convert", "ifelses", "ifelsev")


def renumber_without(prog, k, model_lines):
    """program without line k; when that line created 1-D view `id`, later references to ids > id are
    decremented; a later reference to id itself makes the candidate invalid (None)."""
    t = prog[k].split()
    created = None
    m = re.match(r"new (\d+);", model_lines[k]) if k < len(model_lines) else None
    if t[0] in CREATORS and m:
        created = int(m.group(1))
    out = []
    for j, l in enumerate(prog):
        if j == k:
            continue
        if created is None or j < k:
            out.append(l)
            continue
        tt = l.split()
        refs = ref_positions(tt)
        bad = False
        for p in refs:
            v = int(tt[p])
            if v == created:
                bad = True
            elif v > created:
                tt[p] = str(v - 1)
        if bad:
            return None
        out.append(" ".join(tt))
    return out


def ref_positions(t):
    op = t[0]
    return {"comp": [1], "len": [1], "getitem": [1], "getslice": [1], "getmask": [1, 2], "copy": [1], "convert": [1],
            "setscalar": [1], "setscalarmask": [1, 2], "setvector": [1, 3], "setvectormask": [1, 2, 3],
            "ifelses": [1, 2], "ifelsev": [1, 2, 3], "ro": [1], "iadds": [1], "iaddv": [1, 2]}.get(op, [])


def shrink(prog, fails, max_rounds=200):
    """greedy one-line deletion until no single deletion keeps `fails(prog)` true.
    fails(prog) -> (bool, model_lines)"""
    ok, model_lines = fails(prog)
    if not ok:
        return prog
    rounds = 0
    changed = True
    while changed and rounds < max_rounds:
        changed = False
        for k in range(len(prog) - 1, -1, -1):
            rounds += 1
            cand = renumber_without(prog, k, model_lines)
            if not cand:
                continue
            ok, ml = fails(cand)
            if ok:
                prog, model_lines, changed = cand, ml, True
                break
    return prog


def first_model_real_mismatch(prog, cfg, cls="IntArray"):
    m = server("model", cfg=cfg).run(prog)
    r = server("real", cls).run(prog)
    for k in range(len(prog)):
        a = norm(m[k]) if k < len(m) else "<missing>"
        b = norm(r[k]) if k < len(r) else "<missing>"
        if "oob" in a:
            return None, m
        if a != b:
            return k, m
    return None, m


def first_spec_real_deviation(prog, cls="IntArray"):
    """-> (k, model_lines, spec_line, real_line, key) of the first deviation from list semantics (known or not)"""
    s = server("spec").run(prog)
    q = server("specq").run(prog)
    r = server("real", cls).run(prog)
    m = server("model").run(prog)
    kn, unk, al, n = walk_spec_real([""] + s, [""] + q, [""] + r, 1, len(prog))
    ev = sorted([(k, a, b, MASK_KEY) for (k, a, b) in kn] + ([unk + (None,)] if unk else []))
    if not ev:
        return None, m, None, None, None
    k, a, b, key = ev[0]
    return k, m, a, b, key or classify(prog, k, a, b)


def corpus_programs():
    out = []
    if os.path.isdir(CORPUS):
        for f in sorted(os.listdir(CORPUS)):
            if f.endswith(".ops"):
                ls = [l.strip() for l in open(os.path.join(CORPUS, f)) if l.strip() and not l.startswith("#")]
                out.append(("corpus:" + f, ls))
    return out
