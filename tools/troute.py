"""T-route helpers: build an extractor against /repo's current tree, regenerate
lean/ImathVerif/Gen/<Module>.lean, run translator validation, and look for
failing inputs of broken theorems by evaluating their statements in Lean."""
import os, re, shutil, json, random
import lib

SYM_FLAGS = ["-I" + os.path.join(lib.VERIF, "harness", "sym"), "-Wno-deprecated-declarations"]
GEN = os.path.join(lib.LEAN, "ImathVerif", "Gen")


def build_extractors(chk, specs):
    """specs: list of dict(name=, source=, half=bool). Returns {name: path or None}."""
    jobs = []
    for s in specs:
        srcs = [s["source"]] + ([os.path.join(lib.REPO, "src/Imath/half.cpp")] if s.get("half") else [])
        jobs.append(dict(name=s["name"], sources=srcs, extra=SYM_FLAGS))
    res = lib.cxx_build_many(jobs)
    out = {}
    for s in specs:
        ok, path, log = res[s["name"]]
        chk.oblige("build:" + s["name"], "build", ok, None if ok else log[-1500:])
        if not ok:
            errs = [l for l in log.split("\n") if "error" in l][:12]
            chk.fail("build:" + s["name"], "build:" + s["name"],
                     "the translator no longer compiles against the current headers (tie broken)",
                     {"compiler_errors": errs}, False)
        out[s["name"]] = path if ok else None
    return out


def _check_pins(chk, tag, index):
    """The limit constants and library functions an entry reads are positional parameters of its Lean definition and the
    theorems hold for every value of them: WHICH constant sits in which position is pinned in tools/pins/extras_<tag>.json
    (tools/pin_extras.py) and compared here, so `min()` -> `epsilon()` in a guard cannot pass unnoticed."""
    import json
    pp = os.path.join(lib.VERIF, "tools", "pins", "extras_%s.json" % tag)
    if not os.path.exists(pp):
        chk.extra.setdefault("unpinned_tags", []).append(tag)
        return
    pins = json.load(open(pp))
    moved = [(d["name"], pins[d["name"]], d.get("extra", "")) for d in index if d["name"] in pins and pins[d["name"]] != d.get("extra", "")]
    new = [d["name"] for d in index if d["name"] not in pins]
    name = "limits:%s: every entry reads exactly the numeric_limits constants / library functions it is pinned to (%d pinned)" % (tag, len(pins))
    chk.oblige(name, "translator", not moved, ["%s: pinned [%s], now [%s]" % m for m in moved][:10] or None)
    if new:
        chk.extra.setdefault("unpinned_entries", {})[tag] = new[:50]
    for fn, was, now in moved:
        chk.fail(name, "limits:%s:%s" % (tag, fn),
                 "%s now reads [%s] where it read [%s]: these are positional parameters of the generated definition and the theorems hold for "
                 "every value of them, so the proofs cannot see which constant the code uses" % (fn, now, was),
                 {"function": fn, "pinned": was, "current_tree": now, "pins_file": "tools/pins/extras_%s.json" % tag}, False)


def regenerate(chk, binary, tag, idx_deps=()):
    """Run `<binary> emit` into a staging dir, install changed Gen modules, return
    the parsed index [{name, paths, status, module, ...}] and the list of changed modules."""
    stage = os.path.join(lib.BUILD, "gen_" + tag)
    shutil.rmtree(stage, ignore_errors=True)
    os.makedirs(stage)
    cmd = [binary, "emit", stage, tag]
    for d in idx_deps:
        cmd += ["--idx", d]
    rc, out = lib.sh(cmd, timeout=1800)
    if rc != 0:
        chk.oblige("extract:" + tag, "translator", False, out[-1000:])
        chk.fail("extract:" + tag, "extract:" + tag, "path extraction failed", {"output": out[-3000:]}, False)
        return [], []
    index = []
    for l in open(os.path.join(stage, "index_%s.txt" % tag)):
        if not l.startswith("FN "):
            continue
        parts = [p.strip() for p in l[3:].split("|")]
        d = {"name": parts[0]}
        for p in parts[1:]:
            k, _, v = p.partition("=")
            d[k] = v
        index.append(d)
    _check_pins(chk, tag, index)
    changed = []
    with lib.Lock("lean"):
        for f in sorted(os.listdir(stage)):
            if f.endswith(".lean"):
                new = open(os.path.join(stage, f)).read()
                dst = os.path.join(GEN, f)
                old = open(dst).read() if os.path.exists(dst) else None
                if old != new:
                    changed.append(f[:-5])
                    if old is not None:
                        # keep the diff for the replay of a broken obligation
                        import difflib
                        d = list(difflib.unified_diff(old.split("\n"), new.split("\n"), "Gen(previous)/" + f, "Gen(current tree)/" + f, lineterm="", n=1))
                        chk.extra.setdefault("gen_diff", {})[f] = d[:80]
                    lib.write_if_changed(dst, new)
        shutil.copy(os.path.join(stage, "index_%s.txt" % tag), os.path.join(GEN, "index_%s.txt" % tag))
    bad = [d for d in index if d.get("status") != "ok"]
    chk.oblige("extract:%s: all %d entries completely enumerated" % (tag, len(index)), "translator", not bad,
               [d["name"] + ":" + d.get("status", "?") for d in bad][:10] or None)
    for d in bad:
        chk.fail("extract:" + tag, "extract:%s:%s" % (tag, d["name"]),
                 "function %s could not be completely path-enumerated (%s)" % (d["name"], d.get("status")), d, False)
    chk.extra.setdefault("extracted", {})[tag] = {"functions": len(index), "paths": sum(int(d.get("paths", 0)) for d in index),
                                                  "changed_modules": changed}
    return index, changed


def tv(chk, binary, tag, n, idx_deps=()):
    """C++-side translator validation: the extracted tree evaluated at each element
    type vs the real instantiation, bit for bit."""
    cmd = [binary, "tv", str(chk.seed), str(n)]
    for d in idx_deps:
        cmd += ["--idx", d]
    rc, out = lib.sh(cmd, timeout=1800)
    m = re.search(r"TV functions=(\d+) evaluations=(\d+)(?: nontrivial=(\d+))? failures=(\d+)(.*)", out)
    fails = [l for l in out.split("\n") if l.startswith("TVFAIL")]
    ok = rc == 0 and m is not None and int(m.group(4)) == 0
    chk.oblige("tv:%s: extracted trees = real instantiations, bitwise" % tag, "translation-validation", ok,
               None if ok else (fails[:5] or out[-500:]))
    if m:
        chk.count(int(m.group(2)), int(m.group(3) or 0))
        chk.extra.setdefault("tv", {})[tag] = {"functions": int(m.group(1)), "evaluations": int(m.group(2)),
                                               "inputs_with_not_all_components_equal": int(m.group(3) or 0),
                                               "per_type": dict(kv.split("=") for kv in m.group(5).split())}
        # leaves of each branching tree reached by the TV inputs (TVPATHS lines; a translator slip on a leaf never reached is invisible to TV)
        ph = dict((mm.group(1), [int(mm.group(2)), int(mm.group(3))]) for mm in re.finditer(r"TVPATHS (\S+) hit=(\d+) paths=(\d+)", out))
        if ph:
            chk.extra["tv"][tag]["leaves_reached"] = {"trees": len(ph), "leaves_hit": sum(v[0] for v in ph.values()),
                                                      "leaves_total": sum(v[1] for v in ph.values()),
                                                      "least_covered": sorted(([k] + v for k, v in ph.items()), key=lambda t: t[1] / t[2])[:8]}
            if not hasattr(chk, "tv_paths"):
                chk.tv_paths = {}
            chk.tv_paths[tag] = ph      # {entry: [leaves hit, leaves]} for checks that oblige a coverage floor (not written to the evidence)
    for l in fails[:20]:
        mm = re.match(r"TVFAIL (\S+) (\S+) :: (.*?) :: in=(.*)", l)
        if mm:
            ty, fn, detail, inp = mm.groups()
            chk.fail("tv:" + tag, "tv:%s:%s" % (fn, ty),
                     "extracted model of %s disagrees with the real instantiation at %s (translator or explicit specialisation)" % (fn, ty),
                     {"function": fn, "element_type": ty, "detail": detail, "input": inp.split()}, True)
    if not ok and not fails:
        chk.fail("tv:" + tag, "tv:" + tag, "translator validation did not run to completion", {"output": out[-2000:]}, False)
    return ok


# ---------------------------------------------------------------------------
# failing-input search for a broken theorem: evaluate its statement at Rat

ARITY = {"V2": "⟨%s, %s⟩", "V3": "⟨%s, %s, %s⟩", "V4": "⟨%s, %s, %s, %s⟩", "C4": "⟨%s, %s, %s, %s⟩",
         "Shear6": "⟨%s, %s, %s, %s, %s, %s⟩", "M22": "⟨" + ", ".join(["%s"] * 4) + "⟩", "M33": "⟨" + ", ".join(["%s"] * 9) + "⟩",
         "M44": "⟨" + ", ".join(["%s"] * 16) + "⟩", "Quat": "⟨%s, ⟨%s, %s, %s⟩⟩", "Box2": "⟨⟨%s, %s⟩, ⟨%s, %s⟩⟩",
         "Box3": "⟨⟨%s, %s, %s⟩, ⟨%s, %s, %s⟩⟩", "Interval": "⟨%s, %s⟩", "Line3": "⟨⟨%s, %s, %s⟩, ⟨%s, %s, %s⟩⟩",
         "Plane3": "⟨⟨%s, %s, %s⟩, %s⟩", "Sphere3": "⟨⟨%s, %s, %s⟩, %s⟩"}


def parse_theorem(path, name):
    src = lib.strip_lean_comments(open(path).read())
    m = re.search(r"theorem\s+" + re.escape(name) + r"\s+(.*?):=", src, re.S)
    if not m:
        return None
    sig = m.group(1)
    # split binders from statement at the top-level " :" that follows the binder groups
    depth, i, split = 0, 0, None
    while i < len(sig):
        ch = sig[i]
        if ch in "({[⟨":
            depth += 1
        elif ch in ")}]⟩":
            depth -= 1
        elif ch == ":" and depth == 0:
            split = i
            break
        i += 1
    if split is None:
        return None
    binders, stmt = sig[:split], sig[split + 1:].strip()
    params = []
    for g in re.findall(r"\(([^()]*?)\)", binders):
        names, _, ty = g.partition(":")
        for n in names.split():
            params.append((n, ty.strip()))
    return params, stmt


def _flat_numbers(v):
    out = []
    for m in re.finditer(r"\(\((-?\d+) : Rat\) / 2\)|\((-?\d+) : Rat\)", v):
        out.append(float(m.group(1)) / 2 if m.group(1) is not None else float(m.group(2)))
    return out


def lean_search(chk, props_module, theorem, imports, opens, trials=120, binary=None, idx_deps=()):
    """Evaluate the statement of `theorem` on random small rational inputs with the
    CURRENT Gen definitions; returns a replay dict with a failing input or None."""
    path = os.path.join(lib.LEAN, *props_module.split(".")) + ".lean"
    pt = parse_theorem(path, theorem)
    if not pt:
        return None
    params, stmt = pt
    import zlib
    rng = random.Random(chk.seed * 7919 + zlib.crc32(theorem.encode()) % 100000)
    state = {"pz": 0.0, "affine": False}
    def num():
        if rng.random() < state["pz"]:
            return "(0 : Rat)"
        k = rng.choice([0, 1, -1, 2, -2, 3, 5, -7, 1, 2, 3])
        return "(%d : Rat)" % k if rng.random() < 0.8 else "((%d : Rat) / 2)" % k
    def gen(ty):
        """leaf values (list of Lean terms) for one binder, or None for a type the search does not understand"""
        ty = ty.replace("α", "").strip()
        if ty == "":
            return [num()]
        if ty in ARITY:
            n = ARITY[ty].count("%s")
            vals = [num() for _ in range(n)]
            if state["affine"] and ty in ("M33", "M44"):
                # last column (0,…,0,k): takes the affine fast paths / zero-skipping branches
                d = 3 if ty == "M33" else 4
                for r in range(d - 1):
                    vals[r * d + d - 1] = "(0 : Rat)"
                vals[d * d - 1] = rng.choice(["(1 : Rat)", "(2 : Rat)", "(-3 : Rat)", "((1 : Rat) / 2)"])
            return vals
        return None
    def fmt(ty, vals):
        ty = ty.replace("α", "").strip()
        return vals[0] if ty == "" else ARITY[ty] % tuple(vals)
    cases = []
    twin_slot = 0
    for t in range(trials):
        # structured generators: dense, sparse, very sparse, affine-pattern matrices
        state["pz"] = [0.0, 0.0, 0.5, 0.8][t % 4]
        state["affine"] = (t % 5 == 4)
        raw = [gen(ty) for (_, ty) in params]
        if any(v is None for v in raw):
            return None
        # scalar tolerances (equalWithAbsError / equalWithRelError: binders e, eps, tol, tolerance): non-negative, and large
        # enough in half of the cases that a twin pair differing in one slot is "equal" within it
        for i, (nm, ty) in enumerate(params):
            if ty.replace("α", "").strip() == "" and nm in ("e", "eps", "tol", "tolerance"):
                raw[i] = [rng.choice(["(0 : Rat)", "((1 : Rat) / 2)", "(1 : Rat)", "(3 : Rat)", "(8 : Rat)", "(50 : Rat)"])]
        if t % 3 == 2:
            # twins: a later binder of the same type is a copy of an earlier one except in ONE slot (cycling over the slots):
            # the inputs on which a comparison / equalWith* / aliasing statement with one wrong index is false
            seen = {}
            for i, (_, ty) in enumerate(params):
                k = ty.replace("α", "").strip()
                if k in seen and len(raw[i]) > 1:
                    cp = list(raw[seen[k]])
                    j = twin_slot % len(cp)
                    twin_slot += 1
                    cur = (_flat_numbers(cp[j]) or [0.0])[0]
                    nv = int(round(2 * cur)) + rng.choice([2, -4, 1, 6])          # in halves; never the old value
                    cp[j] = "((%d : Rat) / 2)" % nv if nv % 2 else "(%d : Rat)" % (nv // 2)
                    raw[i] = cp
                else:
                    seen.setdefault(k, i)
        cases.append([fmt(ty, v) for (_, ty), v in zip(params, raw)])
    names = [n for (n, _) in params]
    tys = [("Rat" if ty.strip() == "α" else ty.replace("α", "Rat")) for (_, ty) in params]
    lines = ["import %s" % i for i in imports]
    lines += ["open %s" % o for o in opens]
    # `X.All₂ p a b` (Basic/Maps.lean) is a plain conjunction; give `decide` the instance it cannot find through the def
    for ty in sorted(set(re.findall(r"\b([A-Z][A-Za-z0-9]*)\.All₂", stmt))):
        lines.append("instance {α β : Type} (p : α → β → Prop) [∀ x y, Decidable (p x y)] (a : %s α) (b : %s β) : "
                     "Decidable (%s.All₂ p a b) := by unfold %s.All₂; infer_instance" % (ty, ty, ty, ty))
    lines.append("def stmtHolds %s : Bool := decide (%s)" % (" ".join("(%s : %s)" % (n, t) for n, t in zip(names, tys)), stmt))
    for i, vs in enumerate(cases):
        lines.append('#eval IO.println s!"CASE %d {stmtHolds %s}"' % (i, " ".join("(%s)" % v for v in vs)))
    rc, out = lib.lean_run_file("\n".join(lines) + "\n", timeout=900, name="search")
    res = dict((int(m.group(1)), m.group(2) == "true") for m in re.finditer(r"CASE (\d+) (true|false)", out))
    if len(res) < len(cases) // 2:
        lib.log("lean_search(%s): could not evaluate statement: %s" % (theorem, out[-400:]))
        return None
    idxs = sorted(i for i, ok in res.items() if not ok)
    if not idxs:
        # true in exact arithmetic: try the float-level executable form (bit patterns at Float)
        return lean_search_float(chk, params, stmt, theorem, imports, opens, binary, idx_deps)
    vs = cases[idxs[0]]
    real = None
    fn = re.search(r"Gen\.([A-Za-z0-9_.]+)", stmt)
    if binary and fn:
        # replay the input on the real code (double instantiation); parameter order of the theorem = order of the extraction entry
        nums = [x for v in vs for x in _flat_numbers(v)]
        cmd = [binary, "real", fn.group(1)] + ["%r" % x for x in nums]
        for d in idx_deps:
            cmd += ["--idx", d]
        rc2, out2 = lib.sh(cmd, timeout=120)
        real = out2.strip().split("\n")[-1] if out2.strip() else None
    return {"real_code_at_double": real,"key": "theorem:" + theorem, "theorem_statement": " ".join(stmt.split()),
            "failing_input": dict(zip(names, vs)), "evaluated_at": "Rat, with the Gen definitions regenerated from the current tree",
            "falsified_cases": len(idxs)}


# ---------------------------------------------------------------------------
# Lean-side translator validation: the EMITTED LEAN TEXT evaluated at Rat vs the
# extracted tree evaluated in C++ at exact fractions (validates the emitter)

LEAVES = {"V2": ["x", "y"], "V3": ["x", "y", "z"], "V4": ["x", "y", "z", "w"], "C4": ["r", "g", "b", "a"],
          "Shear6": ["xy", "xz", "yz", "yx", "zx", "zy"],
          "M22": ["x%d%d" % (i, j) for i in range(2) for j in range(2)],
          "M33": ["x%d%d" % (i, j) for i in range(3) for j in range(3)],
          "M44": ["x%d%d" % (i, j) for i in range(4) for j in range(4)],
          "Quat": ["r", "v.x", "v.y", "v.z"],
          "Box2": ["min.x", "min.y", "max.x", "max.y"],
          "Box3": ["min.x", "min.y", "min.z", "max.x", "max.y", "max.z"],
          "Box4": ["min.x", "min.y", "min.z", "min.w", "max.x", "max.y", "max.z", "max.w"],
          "Interval": ["min", "max"], "Line3": ["pos.x", "pos.y", "pos.z", "dir.x", "dir.y", "dir.z"],
          "Plane3": ["normal.x", "normal.y", "normal.z", "distance"], "Sphere3": ["center.x", "center.y", "center.z", "radius"]}
ARITY["Box4"] = "⟨⟨%s, %s, %s, %s⟩, ⟨%s, %s, %s, %s⟩⟩"
EXTRA_ORDER = ["tmin", "tmax", "teps", "tlowest", "sqrt", "sin", "cos", "tan", "acos", "asin", "atan", "exp", "log", "atan2", "pow", "cast"]
STUB_INDEX = {"sqrt": 0, "sin": 1, "cos": 2, "tan": 3, "acos": 5, "asin": 6, "atan": 7, "exp": 8, "log": 9, "cast": 17}
LEAN_TV_PRELUDE = '''
def stNum : Nat → Rat | 0 => 1 | 1 => 2 | 2 => 3 | 3 => 5 | 4 => 7 | 5 => 11 | 6 => 13 | 7 => 17 | _ => 19
def st1 (w : Nat) (x : Rat) : Rat := x * (stNum (w % 9) / ((w : Rat) + 2)) + ((w : Rat) + 1) / 3
def st2 (w : Nat) (x y : Rat) : Rat := x * ((2 + (w : Rat)) / 3) - y * (1 / (2 + (w : Rat))) + (1 + (w : Rat)) / 5
def fr (r : Rat) : String := s!"{r.num}/{r.den}"
def frs (l : List Rat) : String := String.join (l.map (fun r => fr r ++ ","))
def hex2 (b : UInt8) : String :=
  let d := Nat.toDigits 16 b.toNat
  String.ofList (if d.length < 2 then '0' :: d else d)
def segStr (l : List ImathVerif.Seg) : String := String.join (l.map (fun s => match s with
  | .lit t => "L" ++ String.join (t.map (fun c => hex2 c.toNat.toUInt8)) ++ "|"
  | .tok i w f p => s!"T{i}:{w}:{f}:{p}|"))
def excName : ImathVerif.Exc → String
  | .domainError => "domainError" | .invalidArgument => "invalidArgument" | .overflowError => "overflowError"
  | .underflowError => "underflowError" | .outOfRange => "outOfRange" | .logicError => "logicError"
  | .runtimeError => "runtimeError" | .other => "other"
'''


def _rat(s):
    n, d = s.split("/")
    return "((%s : Rat) / %s)" % (n, d) if d != "1" else "(%s : Rat)" % n


def lean_tv(chk, binary, tag, index, n=4, idx_deps=(), param_stubs=None, extra_args=()):
    """param_stubs: {parameter-function name: Lean term at Rat} for entries whose opaque callees are PARAMETERS of the emitted
    definition (C07 gj44...); they follow the EXTRA_ORDER arguments in name order, as in the emitter.  The binary must evaluate the
    same stubs at exact fractions (opaque.h Native::q), otherwise it prints RATSKIP for those entries as before."""
    cmd = [binary, "rattv", str(chk.seed), str(n)] + list(extra_args)      # extra_args: e.g. ["--den", "4"] (main.h rattv)
    for d in idx_deps:
        cmd += ["--idx", d]
    rc, out = lib.sh(cmd, timeout=900)
    meta = {d["name"]: d for d in index}
    cases, skipped = [], 0
    for l in out.split("\n"):
        if l.startswith("RATSKIP"):
            skipped += 1
        m = re.match(r"RATCASE (\S+) IN(.*?) OUT (exc=\S+ vals=\S* ints=\S*(?: segs=\S*)*)", l)
        if m and m.group(1) in meta:
            cases.append((m.group(1), m.group(2).split(), m.group(3)))
    if not cases:
        chk.oblige("lean-tv:%s" % tag, "translation-validation", False, out[-500:])
        chk.fail("lean-tv:" + tag, "lean-tv:" + tag, "Lean-side translator validation produced no cases", {"output": out[-1500:]}, False)
        return False
    modules = sorted(set(meta[c[0]]["module"] for c in cases))
    # the emitted modules must be compiled before the scratch file can import them
    rcb, outb = lib.lake_build(["ImathVerif.Gen.%s" % m for m in modules])
    if rcb != 0:
        chk.oblige("lean-tv:%s" % tag, "translation-validation", False, "generated modules do not compile")
        chk.fail("lean-tv:" + tag, "gen-compile:" + tag, "the regenerated Lean modules do not compile (emitter/translator problem)",
                 {"lean_errors": [l for l in outb.split("\n") if "error" in l][:10]}, False)
        return False
    lines = ["import ImathVerif.Gen.%s" % m for m in modules] + ["open ImathVerif ImathVerif.Gen", LEAN_TV_PRELUDE]
    for i, (fn, ins, _) in enumerate(cases):
        d = meta[fn]
        args, pos = [], 0
        for e in EXTRA_ORDER:
            if e in (d.get("extra") or "").split(","):
                if e == "tmin": args.append("((1 : Rat) / 1024)")
                elif e == "tmax": args.append("(1048576 : Rat)")
                elif e == "teps": args.append("((1 : Rat) / 64)")
                elif e == "tlowest": args.append("(-1048576 : Rat)")
                elif e == "atan2": args.append("(st2 0)")
                elif e == "pow": args.append("(st2 1)")
                else: args.append("(st1 %d)" % STUB_INDEX[e])
        for e in sorted(param_stubs or {}):
            if e in (d.get("extra") or "").split(","):
                args.append(param_stubs[e])
        for p in [x for x in (d.get("params") or "").split(",") if x]:
            pn, _, sh = p.partition(":")
            if sh == "-":
                args.append(_rat(ins[pos])); pos += 1
            else:
                k = ARITY[sh].count("%s")
                args.append("(" + ARITY[sh] % tuple(_rat(x) for x in ins[pos:pos + k]) + " : %s Rat)" % sh); pos += k
        call = "(%s %s)" % (fn, " ".join(args))
        outs = [x for x in (d.get("outs") or "").split(",") if x]
        def item(v, kind):
            if kind == "-": return ("[%s]" % v, None)
            if kind == "S": return (None, '(" segs=" ++ segStr %s)' % v)
            if kind == "B": return (None, '(if %s then "1," else "0,")' % v)
            if kind == "I": return (None, '(toString %s ++ ",")' % v)
            return ("[" + ", ".join("%s.%s" % (v, f) for f in LEAVES[kind]) + "]", None)
        def body(v):
            vals, ints = [], []
            for k, kind in enumerate(outs):
                if len(outs) == 1: acc = v
                else: acc = v + ".2" * k + (".1" if k < len(outs) - 1 else "")
                a, b = item("(%s)" % acc, kind)
                if a: vals.append(a)
                if b: ints.append(b)
            vs = " ++ ".join(vals) if vals else "([] : List Rat)"
            is_ = " ++ ".join(ints) if ints else '""'
            return '"exc=- vals=" ++ frs (%s) ++ " ints=" ++ %s' % (vs, is_)
        if d.get("throws") == "1":
            expr = '(match %s with | .ok v => %s | .error e => "exc=" ++ excName e ++ " vals= ints=")' % (call, body("v"))
        else:
            expr = "(let v := %s; %s)" % (call, body("v"))
        lines.append('#eval IO.println ("RATLEAN %d " ++ %s)' % (i, expr))
    rc, lout = lib.lean_run_file("\n".join(lines) + "\n", timeout=1800, name="leantv")
    got = dict((int(m.group(1)), m.group(2).strip()) for m in re.finditer(r"RATLEAN (\d+) (.*)", lout))
    bad = []
    for i, (fn, ins, exp) in enumerate(cases):
        if got.get(i) != exp.strip():
            bad.append((fn, ins, exp, got.get(i)))
    ok = not bad
    chk.oblige("lean-tv:%s: emitted Lean text at Rat = extracted trees at exact fractions (%d cases, %d functions)" % (
        tag, len(cases), len(set(c[0] for c in cases))), "translation-validation", ok,
        None if ok else [b[0] for b in bad[:5]])
    chk.count(len(cases), len(cases))
    chk.extra.setdefault("lean_tv", {})[tag] = {"cases": len(cases), "functions": len(set(c[0] for c in cases)),
                                                "skipped_external_calls": skipped, "mismatches": len(bad)}
    for fn, ins, exp, g in bad[:10]:
        chk.fail("lean-tv:" + tag, "lean-tv:%s" % fn, "emitted Lean definition of %s evaluates differently from the extracted tree (emitter bug)" % fn,
                 {"function": fn, "inputs": ins, "tree_at_Frac": exp, "lean_at_Rat": g, "lean_output_tail": lout[-600:] if g is None else None}, True)
    return ok


def lean_search_float(chk, params, stmt, theorem, imports, opens, binary=None, idx_deps=(), trials=60):
    """For an equation `Gen.F args = rhs` over plain slots: evaluate both sides at Float and compare bit
    patterns per slot.  Finds inputs on which a rewrite that is an identity in exact arithmetic
    (x/s -> x*(1/s), reassociation) changes the rounded result.  Returns a replay dict or None."""
    m = re.match(r"\s*(Gen\.[A-Za-z0-9_.]+)(.*?)=(.*)$", stmt, re.S)
    if not m or "↔" in stmt:
        return None
    fn = m.group(1)[4:]
    out_shape = None
    for f in os.listdir(GEN):
        if f.startswith("index_") and f.endswith(".txt"):
            for l in open(os.path.join(GEN, f)):
                if l.startswith("FN %s |" % fn):
                    mm = re.search(r"outs=([^|]*)", l)
                    out_shape = mm.group(1).strip() if mm else None
    if not out_shape or "," in out_shape or out_shape in ("B", "I", "S"):
        return None
    import zlib
    rng = random.Random(chk.seed * 104729 + zlib.crc32(theorem.encode()) % 100000)
    specials = ["0.1", "3.0", "7.0", "0.3", "1e-320", "4.9e-324", "1e308", "-0.7", "1.1", "49.0", "1e-5", "123456.789", "-3.0", "0.0"]
    def val(ty):
        ty = ty.replace("α", "").strip()
        num = lambda: "(%s : Float)" % rng.choice(specials)
        if ty == "":
            return num()
        if ty in ARITY:
            return ARITY[ty] % tuple(num() for _ in range(ARITY[ty].count("%s")))
        return None
    names = [n for (n, _) in params]
    tys = [("Float" if ty.strip() == "α" else ty.replace("α", "Float")) for (_, ty) in params]
    leaves = ["v"] if out_shape == "-" else ["v.%s" % f for f in LEAVES.get(out_shape, [])]
    if not leaves:
        return None
    oty = "Float" if out_shape == "-" else "%s Float" % out_shape
    lines = ["import %s" % i for i in imports] + ["open %s" % o for o in opens]
    lines.append("def bitsOf (v : %s) : List UInt64 := [%s]" % (oty, ", ".join("(%s).toBits" % l for l in leaves)))
    lhs, rhs = (m.group(1) + m.group(2)).strip(), m.group(3).strip()
    binder = " ".join("(%s : %s)" % (n, t) for n, t in zip(names, tys))
    lines.append("def lhsBits %s : List UInt64 := bitsOf (%s)" % (binder, lhs))
    lines.append("def rhsBits %s : List UInt64 := bitsOf (%s)" % (binder, rhs))
    cases = []
    for i in range(trials):
        vs = [val(ty) for (_, ty) in params]
        if any(v is None for v in vs):
            return None
        cases.append(vs)
        a = " ".join("(%s)" % v for v in vs)
        lines.append('#eval IO.println s!"FCASE %d {lhsBits %s == rhsBits %s} {lhsBits %s} {rhsBits %s}"' % (i, a, a, a, a))
    rc, out = lib.lean_run_file("\n".join(lines) + "\n", timeout=600, name="searchf")
    for mm in re.finditer(r"FCASE (\d+) false (\[.*?\]) (\[.*?\])", out):
        vs = cases[int(mm.group(1))]
        nums = re.findall(r"\(([-0-9.e]+) : Float\)", " ".join(vs))
        real = None
        if binary:
            cmd = [binary, "real", fn] + nums
            for d in idx_deps:
                cmd += ["--idx", d]
            real = (lib.sh(cmd, timeout=120)[1].strip().split("\n") or [None])[-1]
        return {"key": "theorem:" + theorem, "theorem_statement": " ".join(stmt.split()), "failing_input": dict(zip(names, vs)),
                "evaluated_at": "Float (IEEE double), bit patterns per slot, with the regenerated Gen definitions",
                "model_bits": mm.group(2), "spec_bits": mm.group(3), "real_code_at_double": real,
                "note": "the statement holds in exact arithmetic; the rounded results differ"}
    return None
