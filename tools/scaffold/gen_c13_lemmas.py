#!/usr/bin/env python3
"""One-off scaffold: writes lean/ImathVerif/Lemmas/C13Shapes.lean, the per-shape helper lemmas of C13
(the same text for Interval / Box2 / Box3 / Box4 with the axis list substituted).  The output is a
normal source file (committed, reviewed); this script is NOT part of the check."""
import os, sys

OUT = os.path.join(os.path.dirname(os.path.abspath(__file__)), "..", "..", "lean", "ImathVerif", "Lemmas", "C13Shapes.lean")


class Shape:
    def __init__(self, name, vec, axes):
        self.S, self.V, self.axes = name, vec, axes

    def f(self, base, ax):            # field access: b.min.x  /  b.min
        return base + ("." + ax if ax else "")

    def pt(self, comps):              # point constructor
        return comps[0] if self.axes == [""] else "⟨" + ", ".join(comps) + "⟩"

    def conj(self, items):
        return " ∧ ".join(items)

    def tup(self, items, i=0):        # right-nested anonymous-constructor pattern
        return items[0] if len(items) == 1 else "⟨" + ", ".join(items) + "⟩"


def gen(sh):
    S, V, A = sh.S, sh.V, sh.axes
    n = len(A)
    f = sh.f
    P = sh.pt
    L = []
    G = []   # statements about the regenerated definitions (`Gen.*`): they live in Props/C13.lean so that a change of the
             # C++ breaks exactly the theorems about the changed function (drafted into <scratch>/props_gen_<S>.txt)
    w = L.append
    g = G.append
    refl_min = sh.tup(["⟨le_refl _, hn%d⟩" % i for i in range(n)])
    refl_max = sh.tup(["⟨hn%d, le_refl _⟩" % i for i in range(n)])
    refl_pt = sh.tup(["⟨le_refl _, le_refl _⟩"] * n)
    hn_pat = sh.tup(["hn%d" % i for i in range(n)])
    mem_pat = lambda p: sh.tup(["⟨%s%da, %s%db⟩" % (p, i, p, i) for i in range(n)])
    inv_alts = " | ".join(["h"] * n)
    w("/-! ## %s -/\n" % S)
    w("section %s_order\nvariable [LinearOrder α]\n" % S)
    # --- sets
    w("theorem %s.isEmptySet_iff (b : %s α) : %s.IsEmptySet b ↔ %s.Inverted b := by" % (S, S, S, S))
    w("  constructor")
    w("  · intro h; by_contra hn")
    w("    simp only [%s.Inverted, not_or, not_lt] at hn" % S)
    w("    %s %s := hn" % ("obtain" if n > 1 else "have", hn_pat))
    w("    exact h b.min %s" % refl_min)
    w("  · rintro h p %s" % mem_pat("q"))
    w("    " + ("rcases h with %s <;> order" % inv_alts if n > 1 else "simp only [%s.Inverted] at h; order" % S))
    w("")
    sub_rhs = " ∧ ".join("(%s ≤ %s ∧ %s ≤ %s)" % (f("c.min", a), f("a.min", a), f("a.max", a), f("c.max", a)) for a in A)
    w("theorem %s.subset_iff (a c : %s α) (ha : ¬ %s.Inverted a) :\n    %s.Subset a c ↔ %s := by" % (S, S, S, S, sub_rhs))
    w("  simp only [%s.Inverted, not_or, not_lt] at ha" % S)
    w("  %s %s := ha" % ("obtain" if n > 1 else "have", hn_pat))
    w("  constructor")
    w("  · intro h")
    w("    have h1 := h a.min %s" % refl_min)
    w("    have h2 := h a.max %s" % refl_max)
    w("    simp only [%s.Mem] at h1 h2" % S)
    w("    bord")
    w("  · rintro %s p %s" % (mem_pat("h"), mem_pat("q")))
    w("    simp only [%s.Mem]; bord" % S)
    w("")
    w("theorem %s.subset_of_inverted (a c : %s α) (ha : %s.Inverted a) : %s.Subset a c :=" % (S, S, S, S))
    w("  fun p hp => absurd hp ((%s.isEmptySet_iff a).2 ha p)\n" % S)
    w("theorem %s.canonEmpty_inverted (tmax tlowest : α) (h : tlowest < tmax) :\n    %s.Inverted (%s.canonEmpty tmax tlowest) := %s\n"
      % (S, S, S, "Or.inl h" if n > 1 else "h"))
    w("theorem %s.canonEmpty_isEmptySet (tmax tlowest : α) (h : tlowest < tmax) :\n    %s.IsEmptySet (%s.canonEmpty tmax tlowest) :="
      % (S, S, S))
    w("  (%s.isEmptySet_iff _).2 (%s.canonEmpty_inverted tmax tlowest h)\n" % (S, S))
    w("theorem %s.canonInfinite_mem (tmax tlowest : α) (hr : ∀ x : α, tlowest ≤ x ∧ x ≤ tmax) (p : %s) :\n    %s.Mem p (%s.canonInfinite tmax tlowest) :="
      % (S, V, S, S))
    w("  %s\n" % sh.tup(["hr _"] * n))
    w("theorem %s.point_subset_iff (p : %s) (c : %s α) : %s.Subset ⟨p, p⟩ c ↔ %s.Mem p c := by" % (S, V, S, S, S))
    w("  constructor")
    w("  · intro h; exact h p %s" % refl_pt)
    w("  · rintro %s q %s" % (mem_pat("h"), mem_pat("q")))
    w("    simp only [%s.Mem]; bord\n" % S)
    w("theorem %s.mem_point_iff (p q : %s) : %s.Mem q (⟨p, p⟩ : %s α) ↔ q = p := by" % (S, V, S, S))
    w("  constructor")
    w("  · rintro %s" % mem_pat("h"))
    if n > 1:
        w("    obtain ⟨%s⟩ := p; obtain ⟨%s⟩ := q" % (", ".join("p%d" % i for i in range(n)), ", ".join("q%d" % i for i in range(n))))
        w("    simp only [%s.mk.injEq]; bord" % V.split()[0])
    else:
        w("    order")
    w("  · rintro rfl; exact %s\n" % refl_pt)
    # --- extendBy normal form
    mins = [("min %s %s" % (f("b.min", a), f("lo", a))) for a in A]
    maxs = [("max %s %s" % (f("b.max", a), f("hi", a))) for a in A]
    smins = [("smin %s %s" % (f("b.min", a), f("lo", a))) for a in A]
    smaxs = [("smax %s %s" % (f("b.max", a), f("hi", a))) for a in A]
    w("/-- normal form of both `extendBy` overloads: per axis `min := min(min, lo)`, `max := max(max, hi)` -/")
    w("def %s.ext (b : %s α) (lo hi : %s) : %s α :=\n  ⟨%s, %s⟩\n" % (S, S, V, S, P(mins), P(maxs)))
    w("theorem %s.ext_s (b : %s α) (lo hi : %s) : %s.ext b lo hi =\n    ⟨%s, %s⟩ := by" % (S, S, V, S, P(smins), P(smaxs)))
    w("  simp only [%s.ext, smin_eq_min, smax_eq_max]\n" % S)
    for fn, arg, argty, lo, hi in (("extendByPoint", "p", V, "p", "p"), ("extendByBox", "o", S + " α", "o.min", "o.max")):
        g("theorem %s.%s_eq (b : %s α) (%s : %s) : Gen.%s.%s b %s = %s.ext b %s %s := by" % (S, fn, S, arg, argty, S, fn, arg, S, lo, hi))
        g("  rw [%s.ext_s]; unfold Gen.%s.%s smin smax" % (S, S, fn))
        cs = []
        for i, a in enumerate(A):
            cs.append("casesplit h%da : %s < %s" % (i, f(lo, a), f("b.min", a)))
            cs.append("casesplit h%db : %s < %s" % (i, f("b.max", a), f(hi, a)))
        g("  " + " <;>\n  ".join(cs) + "\n")
    hyps = " ".join("(h%d : %s ≤ %s)" % (i, f("lo", a), f("hi", a)) for i, a in enumerate(A))
    w("/-- extending a non-inverted box by a non-inverted range is their least upper bound -/")
    w("theorem %s.ext_subset_iff (b c : %s α) (lo hi : %s) (hb : ¬ %s.Inverted b) %s :\n    %s.Subset (%s.ext b lo hi) c ↔ %s.Subset b c ∧ %s.Subset ⟨lo, hi⟩ c := by"
      % (S, S, V, S, hyps, S, S, S, S))
    w("  have hb' := hb")
    w("  simp only [%s.Inverted, not_or, not_lt] at hb'" % S)
    w("  have he : ¬ %s.Inverted (%s.ext b lo hi) := by\n    simp only [%s.Inverted, %s.ext, not_or, not_lt]; bord" % (S, S, S, S))
    w("  have ho : ¬ %s.Inverted (⟨lo, hi⟩ : %s α) := by\n    simp only [%s.Inverted, not_or, not_lt]; exact %s"
      % (S, S, S, sh.tup(["h%d" % i for i in range(n)])))
    w("  rw [%s.subset_iff _ _ he, %s.subset_iff _ _ hb, %s.subset_iff _ _ ho]" % (S, S, S))
    w("  simp only [%s.ext, le_min_iff, max_le_iff]\n  tauto\n" % S)
    w("theorem %s.ext_not_inverted (b : %s α) (lo hi : %s) (hb : ¬ %s.Inverted b) :\n    ¬ %s.Inverted (%s.ext b lo hi) := by" % (S, S, V, S, S, S))
    w("  simp only [%s.Inverted, %s.ext, not_or, not_lt] at *; bord\n" % (S, S))
    w("/-- every point of `b` and every point of the range is in the extended box (any `b`) -/")
    w("theorem %s.subset_ext (b : %s α) (lo hi : %s) : %s.Subset b (%s.ext b lo hi) ∧ %s.Subset ⟨lo, hi⟩ (%s.ext b lo hi) := by"
      % (S, S, V, S, S, S, S))
    w("  constructor <;> rintro p %s <;> simp only [%s.Mem, %s.ext, min_le_iff, le_max_iff] <;> bord\n" % (mem_pat("q"), S, S))
    w("theorem %s.ext_canonEmpty (tmax tlowest : α) (hr : ∀ x : α, tlowest ≤ x ∧ x ≤ tmax) (lo hi : %s) :\n    %s.ext (%s.canonEmpty tmax tlowest) lo hi = ⟨lo, hi⟩ := by"
      % (S, V, S, S))
    w("  simp only [%s.ext, %s.canonEmpty, min_eq_right (hr _).2, max_eq_right (hr _).1]\n" % (S, S))
    w("theorem %s.ext_by_canonEmpty (tmax tlowest : α) (hr : ∀ x : α, tlowest ≤ x ∧ x ≤ tmax) (b : %s α) :\n    %s.ext b (%s.canonEmpty tmax tlowest).min (%s.canonEmpty tmax tlowest).max = b := by"
      % (S, S, S, S, S))
    w("  simp only [%s.ext, %s.canonEmpty, min_eq_left (hr _).2, max_eq_left (hr _).1]\n" % (S, S))
    # --- sequences of extendBy calls
    w("/-- one `extendBy` call -/")
    w("def %s.stepN (b : %s α) : %s.Arg α → %s α\n  | .pt p => %s.ext b p p\n  | .bx o => %s.ext b o.min o.max\n" % (S, S, S, S, S, S))
    g("/-- one `extendBy` call -/")
    g("def %s.step (b : %s α) : %s.Arg α → %s α\n  | .pt p => Gen.%s.extendByPoint b p\n  | .bx o => Gen.%s.extendByBox b o\n" % (S, S, S, S, S, S))
    g("/-- a sequence of `extendBy` calls, in order -/")
    g("def %s.extendAll (b : %s α) (args : List (%s.Arg α)) : %s α := args.foldl %s.step b\n" % (S, S, S, S, S))
    g("theorem %s.step_eq (b : %s α) (a : %s.Arg α) : %s.step b a = %s.stepN b a := by" % (S, S, S, S, S))
    g("  cases a <;> simp only [%s.step, %s.stepN, %s.extendByPoint_eq, %s.extendByBox_eq]\n" % (S, S, S, S))
    g("theorem %s.extendAll_eq (args : List (%s.Arg α)) : ∀ b : %s α, %s.extendAll b args = %s.extendAllN b args := by" % (S, S, S, S, S))
    g("  induction args with")
    g("  | nil => intro b; rfl")
    g("  | cons a rest ih => intro b; simp only [%s.extendAll, %s.extendAllN, List.foldl_cons, %s.step_eq] at ih ⊢; exact ih _\n" % (S, S, S))
    w("/-- a sequence of `extendBy` calls, in order -/")
    w("def %s.extendAllN (b : %s α) (args : List (%s.Arg α)) : %s α := args.foldl %s.stepN b\n" % (S, S, S, S, S))
    w("theorem %s.stepN_spec (tmax tlowest : α) (hlt : tlowest < tmax) (hr : ∀ x : α, tlowest ≤ x ∧ x ≤ tmax)\n"
      "    (b : %s α) (hb : %s.Canon tmax tlowest b) (a : %s.Arg α) (ha : a.Ok tmax tlowest) :\n"
      "    %s.Canon tmax tlowest (%s.stepN b a) ∧ ∀ c, %s.Subset (%s.stepN b a) c ↔ %s.Subset b c ∧ a.Within c := by"
      % (S, S, S, S, S, S, S, S, S))
    w("  have hce : ∀ c, %s.Subset (%s.canonEmpty tmax tlowest) c :=\n    fun c => %s.subset_of_inverted _ c (%s.canonEmpty_inverted tmax tlowest hlt)" % (S, S, S, S))
    refls = " ".join(["(le_refl _)"] * n)
    w("  cases a with")
    w("  | pt p =>")
    w("    simp only [%s.stepN, %s.Arg.Within]" % (S, S))
    w("    rcases hb with hb | rfl")
    w("    · refine ⟨Or.inl (%s.ext_not_inverted b p p hb), fun c => ?_⟩" % S)
    w("      rw [%s.ext_subset_iff b c p p hb %s, %s.point_subset_iff]" % (S, refls, S))
    w("    · rw [%s.ext_canonEmpty tmax tlowest hr]" % S)
    w("      refine ⟨Or.inl ?_, fun c => ?_⟩")
    w("      · simp only [%s.Inverted, not_or, not_lt]; bord" % S)
    w("      · rw [%s.point_subset_iff]; exact ⟨fun h => ⟨hce c, h⟩, fun h => h.2⟩" % S)
    w("  | bx o =>")
    w("    simp only [%s.stepN, %s.Arg.Within]" % (S, S))
    w("    simp only [%s.Arg.Ok] at ha" % S)
    w("    rcases hb with hb | rfl")
    w("    · rcases ha with ho | rfl")
    w("      · refine ⟨Or.inl (%s.ext_not_inverted b _ _ hb), fun c => ?_⟩" % S)
    w("        have ho' := ho")
    w("        simp only [%s.Inverted, not_or, not_lt] at ho'" % S)
    w("        %s %s := ho'" % ("obtain" if n > 1 else "have", hn_pat))
    w("        exact %s.ext_subset_iff b c o.min o.max hb %s" % (S, " ".join("hn%d" % i for i in range(n))))
    w("      · rw [%s.ext_by_canonEmpty tmax tlowest hr]" % S)
    w("        exact ⟨Or.inl hb, fun c => ⟨fun h => ⟨h, hce c⟩, fun h => h.1⟩⟩")
    w("    · rw [%s.ext_canonEmpty tmax tlowest hr]" % S)
    w("      exact ⟨ha, fun c => ⟨fun h => ⟨hce c, h⟩, fun h => h.2⟩⟩\n")
    w("theorem %s.extendAllN_spec (tmax tlowest : α) (hlt : tlowest < tmax) (hr : ∀ x : α, tlowest ≤ x ∧ x ≤ tmax)\n"
      "    (args : List (%s.Arg α)) : ∀ (b : %s α), %s.Canon tmax tlowest b → (∀ a ∈ args, a.Ok tmax tlowest) →\n"
      "    %s.Canon tmax tlowest (%s.extendAllN b args) ∧\n"
      "      ∀ c, %s.Subset (%s.extendAllN b args) c ↔ %s.Subset b c ∧ ∀ a ∈ args, a.Within c := by"
      % (S, S, S, S, S, S, S, S, S))
    w("  induction args with")
    w("  | nil => intro b hb _; exact ⟨hb, fun c => by simp [%s.extendAllN]⟩" % S)
    w("  | cons a rest ih =>")
    w("    intro b hb hargs")
    w("    have hs := %s.stepN_spec tmax tlowest hlt hr b hb a (hargs a (List.mem_cons_self ..))" % S)
    w("    have := ih (%s.stepN b a) hs.1 (fun x hx => hargs x (List.mem_cons_of_mem _ hx))" % S)
    w("    refine ⟨this.1, fun c => ?_⟩")
    w("    have h2 := this.2 c")
    w("    simp only [%s.extendAllN, List.foldl_cons, List.mem_cons, forall_eq_or_imp] at h2 ⊢" % S)
    w("    rw [h2, hs.2 c, and_assoc]\n")
    # --- queries
    g("theorem %s.intersectsPoint_iff (b : %s α) (p : %s) : Gen.%s.intersectsPoint b p = true ↔ %s.Mem p b := by" % (S, S, V, S, S))
    g("  simp only [Gen.%s.intersectsPoint, ite_false_iff, ite_false'_iff, not_lt, not_le, %s.Mem, and_assoc, and_true] <;> tauto\n" % (S, S))
    axes_rhs = " ∧ ".join("(%s ≤ %s ∧ %s ≤ %s)" % (f("b.min", a), f("a.max", a), f("a.min", a), f("b.max", a)) for a in A)
    g("/-- for NON-EMPTY boxes `intersects(box)` is per-axis overlap of the min/max pairs (written so that it also holds if the\ncode tests emptiness first) -/")
    g("theorem %s.intersectsBox_iff_axes_of_nonempty (a b : %s α) (ha : ¬ %s.Inverted a) (hb : ¬ %s.Inverted b) :\n    Gen.%s.intersectsBox a b = true ↔ %s := by" % (S, S, S, S, S, axes_rhs))
    g("  simp only [%s.Inverted, not_or, not_lt] at ha hb" % S)
    g("  simp only [Gen.%s.intersectsBox, ite_false_iff, ite_false'_iff, ite_true_iff, not_lt, not_le, and_assoc, and_true] <;> tauto\n" % S)
    w("theorem %s.not_inverted_of_mem (p : %s) (a : %s α) (h : %s.Mem p a) : ¬ %s.Inverted a :=" % (S, V, S, S, S))
    w("  fun hi => (%s.isEmptySet_iff a).2 hi p h\n" % S)
    g("theorem %s.intersectsBox_of_common (a b : %s α) (h : ∃ p, %s.Mem p a ∧ %s.Mem p b) :\n    Gen.%s.intersectsBox a b = true := by" % (S, S, S, S, S))
    g("  obtain ⟨p, hpa, hpb⟩ := h")
    g("  rw [%s.intersectsBox_iff_axes_of_nonempty a b (%s.not_inverted_of_mem p a hpa) (%s.not_inverted_of_mem p b hpb)]" % (S, S, S))
    g("  obtain %s := hpa" % mem_pat("q"))
    g("  obtain %s := hpb" % mem_pat("r"))
    g("  bord\n")
    inv_a = " ∧ ".join("¬ %s < %s" % (f("a.max", x), f("a.min", x)) for x in A)
    g("/-- what `intersects(box)` computes, for ALL boxes: both boxes non-empty and per-axis overlap of the min/max pairs -/")
    g("theorem %s.intersectsBox_iff_full (a b : %s α) :\n    Gen.%s.intersectsBox a b = true ↔ ¬ %s.Inverted a ∧ ¬ %s.Inverted b ∧ (%s) := by" % (S, S, S, S, S, axes_rhs))
    g("  simp only [Gen.%s.intersectsBox, %s.Inverted, ite_false_iff, ite_false'_iff, ite_true_iff, ite_true'_iff, not_or, not_lt, not_le, and_assoc,\n    and_true, Bool.false_eq_true, or_false, false_and, and_false, imp_false] <;> tauto\n" % (S, S))
    g("theorem %s.intersectsBox_symm (a b : %s α) : Gen.%s.intersectsBox a b = Gen.%s.intersectsBox b a := by" % (S, S, S, S))
    g("  rw [Bool.eq_iff_iff]")
    g("  simp only [Gen.%s.intersectsBox, ite_false_iff, ite_false'_iff, ite_true_iff, ite_true'_iff, not_lt, not_le, and_assoc, and_true,\n    Bool.false_eq_true, or_false, false_and, and_false, imp_false] <;> tauto\n" % S)
    wit = P(["max %s %s" % (f("a.min", a), f("b.min", a)) for a in A])
    w("theorem %s.common_of_axes (a b : %s α) (ha : ¬ %s.Inverted a) (hb : ¬ %s.Inverted b)\n    (h : %s) :\n    ∃ p, %s.Mem p a ∧ %s.Mem p b := by"
      % (S, S, S, S, axes_rhs, S, S))
    w("  simp only [%s.Inverted, not_or, not_lt] at ha hb" % S)
    w("  refine ⟨%s, ?_, ?_⟩ <;> simp only [%s.Mem, le_max_iff, max_le_iff] <;> bord\n" % (wit, S))
    inv_rhs = " ∨ ".join("%s < %s" % (f("b.max", a), f("b.min", a)) for a in A)
    g("theorem %s.isEmpty_iff (b : %s α) : Gen.%s.isEmpty b = true ↔ %s.Inverted b := by" % (S, S, S, S))
    g("  simp only [Gen.%s.isEmpty, ite_true_iff, ite_false_iff, ite_false'_iff, %s.Inverted, Bool.false_eq_true, or_false, and_true, not_lt, not_le] <;> tauto\n" % (S, S))
    vol_rhs = " ∧ ".join("%s < %s" % (f("b.min", a), f("b.max", a)) for a in A)
    g("theorem %s.hasVolume_iff (b : %s α) : Gen.%s.hasVolume b = true ↔ %s := by" % (S, S, S, vol_rhs))
    g("  simp only [Gen.%s.hasVolume, ite_true_iff, ite_false_iff, ite_false'_iff, Bool.false_eq_true, or_false, and_true, not_lt, not_le] <;> tauto\n" % S)
    if n > 1:
        destr = "obtain ⟨⟨%s⟩, ⟨%s⟩⟩ := b" % (", ".join("l%d" % i for i in range(n)), ", ".join("u%d" % i for i in range(n)))
        destr_a = "obtain ⟨⟨%s⟩, ⟨%s⟩⟩ := a" % (", ".join("m%d" % i for i in range(n)), ", ".join("v%d" % i for i in range(n)))
        inj = "%s.mk.injEq, %s.mk.injEq" % (S, V.split()[0])
    else:
        destr = "obtain ⟨l0, u0⟩ := b"
        destr_a = "obtain ⟨m0, v0⟩ := a"
        inj = "%s.mk.injEq" % S
    g("theorem %s.isInfinite_iff (tmax tlowest : α) (b : %s α) :\n    Gen.%s.isInfinite tmax tlowest b = true ↔ b = %s.canonInfinite tmax tlowest := by" % (S, S, S, S))
    g("  %s" % destr)
    g("  simp only [Gen.%s.isInfinite, ite_false_iff, ite_false'_iff, not_not, %s.canonInfinite, %s, and_true] <;> tauto\n" % (S, S, inj))
    g("theorem %s.eq_iff (a b : %s α) : Gen.%s.eq a b = true ↔ a = b := by" % (S, S, S))
    g("  %s\n  %s" % (destr_a, destr))
    g("  simp only [Gen.%s.eq, ite_false_iff, ite_false'_iff, not_not, %s, and_true] <;> tauto\n" % (S, inj))
    g("theorem %s.ne_eq_not_eq (a b : %s α) : Gen.%s.ne a b = !Gen.%s.eq a b := by" % (S, S, S, S))
    g("  unfold Gen.%s.ne Gen.%s.eq; split_ifs <;> rfl\n" % (S, S))
    # --- clip
    clamps = [("sclamp %s %s %s" % (f("p", a), f("b.min", a), f("b.max", a))) for a in A]
    w("/-- normal form of `clip` / `closestPointInBox`: per axis `(p < min) ? min : (p > max) ? max : p` -/")
    w("def %s.clipN (p : %s) (b : %s α) : %s := %s\n" % (S, V, S, V, P(clamps)))
    if S != "Interval":
        for fn in ("clip", "closestPointInBox"):
            g("theorem %s.%s_eq (p : %s) (b : %s α) : Gen.%s.%s p b = %s.clipN p b := by" % (S, fn, V, S, S, fn, S))
            g("  unfold Gen.%s.%s %s.clipN sclamp" % (S, fn, S))
            cs = []
            for i, a in enumerate(A):
                cs.append("casesplit h%da : %s < %s" % (i, f("p", a), f("b.min", a)))
                cs.append("casesplit h%db : %s < %s" % (i, f("b.max", a), f("p", a)))
            g("  " + " <;>\n  ".join(cs) + "\n")
    w("theorem %s.clipN_mem (p : %s) (b : %s α) (hb : ¬ %s.Inverted b) : %s.Mem (%s.clipN p b) b := by" % (S, V, S, S, S, S))
    w("  simp only [%s.Inverted, not_or, not_lt] at hb" % S)
    w("  %s %s := hb" % ("obtain" if n > 1 else "have", hn_pat))
    w("  exact %s\n" % sh.tup(["sclamp_mem _ _ _ hn%d" % i for i in range(n)]))
    w("theorem %s.clipN_fixed (p : %s) (b : %s α) (hp : %s.Mem p b) : %s.clipN p b = p := by" % (S, V, S, S, S))
    w("  obtain %s := hp" % mem_pat("q"))
    w("  simp only [%s.clipN, %s]\n" % (S, ", ".join("sclamp_fixed _ _ _ q%da q%db" % (i, i) for i in range(n))))
    w("end %s_order\n" % S)
    return "\n".join(L), "\n".join(G)


HEADER = '''import ImathVerif.Lemmas.C13Lemmas
/-!
# Per-shape helper lemmas for C13 (Interval, Box<Vec2>, Box<Vec3>, generic Box<Vec4>)

Written once per shape with the axis list substituted (scaffold: tools/scaffold/gen_c13_lemmas.py;
this file is an ordinary source file).  All statements are over an arbitrary `LinearOrder`.
-/
set_option linter.unusedTactic false
set_option linter.unreachableTactic false
set_option linter.unusedVariables false
set_option linter.unusedSimpArgs false
set_option linter.unnecessarySeqFocus false
namespace ImathVerif.C13
open ImathVerif
variable {α : Type}

'''

if __name__ == "__main__":
    shapes = [Shape("Interval", "α", [""]), Shape("Box2", "V2 α", ["x", "y"]), Shape("Box3", "V3 α", ["x", "y", "z"]),
              Shape("Box4", "V4 α", ["x", "y", "z", "w"])]
    res = [gen(s) for s in shapes]
    txt = HEADER + "\n".join(r[0] for r in res) + "\nend ImathVerif.C13\n"
    out = sys.argv[1] if len(sys.argv) > 1 else OUT
    open(out, "w").write(txt)
    print("wrote", out, len(txt.split("\n")), "lines")
    if len(sys.argv) > 2:   # drafts of the Gen-touching statements, spliced by hand into Props/C13.lean
        for sh, r in zip(shapes, res):
            open(os.path.join(sys.argv[2], "props_gen_%s.txt" % sh.S), "w").write(r[1] + "\n")
