"""Generator of lean/ImathVerif/Lemmas/C11Tables.lean (dispatch of the per-order extracted definitions over the inductive
`Euler.Ord`): `python3 tools/scaffold/c11_tables.py > lean/ImathVerif/Lemmas/C11Tables.lean`.  tools/props/c11.py re-runs it on
every check and requires the committed file to be byte-identical (obligation `tables:unchanged`), so every row
`| .X => Gen.Euler.<member>_X` names the definition of the SAME order by construction."""
ORD = "XYZ XZY YZX YXZ ZXY ZYX XZX XYX YXY YZY ZYZ ZXZ XYZr XZYr YZXr YXZr ZXYr ZYXr XZXr XYXr YXYr YZYr ZYZr ZXZr".split()
# (table name, Gen stem, binders, args, result type)
T = [
 ("toM33", "toMatrix33", "(sin cos : α → α) (a : V3 α)", "sin cos a", "M33 α"),
 ("toM44", "toMatrix44", "(sin cos : α → α) (a : V3 α)", "sin cos a", "M44 α"),
 ("toQuat", "toQuat", "(sin cos : α → α) (a : V3 α)", "sin cos a", "Quat α"),
 ("exM33", "extractM33", "(sqrt sin cos : α → α) (atan2 : α → α → α) (m : M33 α)", "sqrt sin cos atan2 m", "V3 α"),
 ("exM44", "extractM44", "(sqrt sin cos : α → α) (atan2 : α → α → α) (m : M44 α)", "sqrt sin cos atan2 m", "V3 α"),
 ("exQuat", "extractQuat", "(sqrt sin cos : α → α) (atan2 : α → α → α) (q : Quat α)", "sqrt sin cos atan2 q", "V3 α"),
 ("ctorM33", "ctorM33", "(sqrt sin cos : α → α) (atan2 : α → α → α) (m : M33 α)", "sqrt sin cos atan2 m", "V3 α × Int"),
 ("ctorM44", "ctorM44", "(sqrt sin cos : α → α) (atan2 : α → α → α) (m : M44 α)", "sqrt sin cos atan2 m", "V3 α × Int"),
 ("ctorXYZ", "ctorXYZLayout", "(v : V3 α)", "v", "V3 α × Int"),
 ("ctorXYZs", "ctorXYZLayoutScalars", "(xi yi zi : α)", "xi yi zi", "V3 α × Int"),
 ("ctorIJK", "ctorIJKLayout", "(v : V3 α)", "v", "V3 α × Int"),
 ("setXYZ", "setXYZVector", "(a v : V3 α)", "a v", "V3 α"),
 ("toXYZ", "toXYZVector", "(a : V3 α)", "a", "V3 α"),
 ("setOrderKeeps", "setOrderKeepsAngles", "(a : V3 α)", "a", "V3 α × Int"),
 ("reorderFromXYZ", "reorderFromXYZ", "(sqrt sin cos : α → α) (atan2 : α → α → α) (a : V3 α)", "sqrt sin cos atan2 a", "V3 α × Int"),
 ("reorderToZYXr", "reorderToZYXr", "(sqrt sin cos : α → α) (atan2 : α → α → α) (a : V3 α)", "sqrt sin cos atan2 a", "V3 α × Int"),
 ("nearest", "nearestRotation", "(angleMod : α → α) (xyzRot target : V3 α)", "angleMod xyzRot target", "V3 α"),
 ("makeNear", "makeNear", "(angleMod : α → α) (a t : V3 α)", "angleMod a t", "V3 α × Int"),
 ("copyAssign", "copyAndAssign", "(a v : V3 α)", "a v", "V3 α × Int × V3 α × Int × V3 α × Int"),
 # makeNear with a target of ANOTHER order (converted by the re-ordering constructor); the same-order row takes the other branch of
 # `if (order () != target.order ())` and therefore reads no sqrt/sin/cos/atan2
 ("makeNearZYXr", "makeNearFromZYXr", "(sqrt sin cos : α → α) (atan2 : α → α → α) (angleMod : α → α) (a t : V3 α)", "sqrt sin cos atan2 angleMod a t", "V3 α × Int"),
 ("makeNearXYZ", "makeNearFromXYZ", "(sqrt sin cos : α → α) (atan2 : α → α → α) (angleMod : α → α) (a t : V3 α)", "sqrt sin cos atan2 angleMod a t", "V3 α × Int"),
]
# rows whose extracted definition has fewer parameters
ARGS = {("makeNearZYXr", "ZYXr"): "angleMod a t", ("makeNearXYZ", "XYZ"): "angleMod a t"}
out = []
out.append("""import ImathVerif.Spec.EulerSpec
import ImathVerif.Gen.C11Euler
import ImathVerif.Gen.C11Algo
import Mathlib.Algebra.Order.Field.Basic
/-!
Dispatch of the per-order extracted definitions (`Gen.Euler.<member>_<ORDER>`, one per enumerator,
regenerated from the headers on every run) over the inductive `Euler.Ord`, so that a property of
"all 24 orders" is ONE theorem `∀ o : Ord, …` proved by `cases o`.  Pure boilerplate (generated
once by tools/scaffold/c11_tables.py); every row names the Gen definition of the same order.
-/
namespace ImathVerif.Euler
open ImathVerif
""")
for (t, g, b, args, ty) in T:
    lt = "[Field α] [LinearOrder α]" if t in ("nearest", "makeNear", "makeNearZYXr", "makeNearXYZ") else "[Field α]"
    out.append("def %s {α : Type} %s (o : Ord) %s : %s :=\n  match o with" % (t, lt, b, ty))
    for o in ORD:
        out.append("  | .%s => Gen.Euler.%s_%s %s" % (o, g, o, ARGS.get((t, o), args)))
    out.append("")
for (t, g, ty) in [("angleOrderG", "angleOrder", "Int × Int × Int"), ("angleMappingG", "angleMapping", "Int × Int × Int"),
                   ("orderG", "order", "Int × Bool × Bool × Bool × Bool × Int")]:
    out.append("def %s (o : Ord) : %s :=\n  match o with" % (t, ty))
    for o in ORD:
        out.append("  | .%s => Gen.Euler.%s_%s (α := Unit)" % (o, g, o))
    out.append("")
# unfolding simp sets
for (t, g, b, args, ty) in T:
    out.append("/-- unfold `%s o` at a concrete order -/" % t)
    out.append("macro \"unfold_%s\" : tactic => `(tactic| simp only [%s, %s])" % (t, t, ", ".join("Gen.Euler.%s_%s" % (g, o) for o in ORD)))
    out.append("")
out.append("end ImathVerif.Euler")
print("\n".join(out))
