#!/usr/bin/env python3
"""One-off typing aid: writes lean/ImathVerif/Basic/Maps.lean (map / zip / All₂ for every flat aggregate)."""
S = {
 "V2": ["x","y"], "V3": ["x","y","z"], "V4": ["x","y","z","w"], "C4": ["r","g","b","a"],
 "Shear6": ["xy","xz","yz","yx","zx","zy"],
 "M22": ["x%d%d"%(i,j) for i in range(2) for j in range(2)],
 "M33": ["x%d%d"%(i,j) for i in range(3) for j in range(3)],
 "M44": ["x%d%d"%(i,j) for i in range(4) for j in range(4)],
}
out = ["/-", "Component-wise helpers for the aggregate structures: `map f a`, `zip f a b` and the",
       "conjunction `All₂ p a b` over all slots.  Core Lean only.  (Written once by", "tools/scaffold/gen_maps.py; static.)", "-/",
       "import ImathVerif.Basic.Types", "namespace ImathVerif", ""]
for n, fs in S.items():
    out.append("def %s.map {α β : Type} (f : α → β) (a : %s α) : %s β :=\n  ⟨%s⟩" % (n, n, n, ", ".join("f a.%s" % f for f in fs)))
    out.append("def %s.zip {α β γ : Type} (f : α → β → γ) (a : %s α) (b : %s β) : %s γ :=\n  ⟨%s⟩" % (n, n, n, n, ", ".join("f a.%s b.%s" % (f, f) for f in fs)))
    out.append("def %s.All₂ {α β : Type} (p : α → β → Prop) (a : %s α) (b : %s β) : Prop :=\n  %s" % (n, n, n, " ∧ ".join("p a.%s b.%s" % (f, f) for f in fs)))
    out.append("def %s.const {α : Type} (s : α) : %s α :=\n  ⟨%s⟩" % (n, n, ", ".join("s" for f in fs)))
    out.append("")
out.append("def Quat.map {α β : Type} (f : α → β) (a : Quat α) : Quat β := ⟨f a.r, a.v.map f⟩")
out.append("def Quat.zip {α β γ : Type} (f : α → β → γ) (a : Quat α) (b : Quat β) : Quat γ := ⟨f a.r b.r, V3.zip f a.v b.v⟩")
out.append("")
out.append("end ImathVerif")
open("/verif/lean/ImathVerif/Basic/Maps.lean", "w").write("\n".join(out) + "\n")
