#!/usr/bin/env python3
"""Single entry point: check.py <Cxx> [--tier quick|thorough] [--seed N]

Runs the check for one property against /repo's current working tree, writes
evidence/<id>.json, prints `VIOLATION property=<id> replay=<path>` lines and
exits 1 when the property is not shown to hold (0 otherwise)."""
import sys, os, argparse, importlib, traceback
sys.path.insert(0, os.path.dirname(os.path.abspath(__file__)))
import lib


def main():
    ap = argparse.ArgumentParser()
    ap.add_argument("prop")
    ap.add_argument("--tier", default=os.environ.get("VERIF_TIER", "quick"))
    ap.add_argument("--seed", type=int, default=int(os.environ.get("VERIF_SEED", "1")))
    a = ap.parse_args()
    prop = a.prop.upper()
    os.chdir(lib.VERIF)
    mod = importlib.import_module("props." + prop.lower())
    chk = lib.Check(prop, a.tier, a.seed, level=getattr(mod, "LEVEL", "proof"))
    try:
        mod.run(chk)
    except Exception:
        tb = traceback.format_exc()
        lib.log(tb)
        chk.oblige("check-machinery", "internal", False, tb[-1500:])
        chk.fail("check-machinery", "internal-error", "the check itself crashed: " + tb.strip().split("\n")[-1],
                 {"traceback": tb}, False)
    sys.exit(chk.finish())


if __name__ == "__main__":
    main()
