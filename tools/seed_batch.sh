#!/bin/bash
# seed_batch.sh <Cxx> <seeddir> <worktree> <k...>: confirm + check each seed, store under /verif/seeded/
prop=$1; sd=$2; wt=$3; shift 3
for k in "$@"; do
  out=/verif/seeded/${prop}-${TAG}$k
  mkdir -p $out
  cp $sd/$k/patch.diff $out/ 2>/dev/null
  for f in demo.cpp demo.c demo.sh demo.py notes.md; do [ -f $sd/$k/$f ] && cp $sd/$k/$f $out/; done
  python3 /verif/tools/seed_confirm.py $prop $sd/$k $wt > $out/confirm.json 2>&1
  echo "$prop-${TAG}$k: $(python3 -c "import json;d=json.load(open('$out/confirm.json'));print('tests',d.get('tests_pass_with_patch'),'demoFail',d.get('demo_fails_with_patch'),'demoClean',d.get('demo_passes_on_clean'),'DETECTED',d.get('detected'),d.get('violation_lines',[])[:2])" 2>&1)"
done
