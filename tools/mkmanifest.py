#!/usr/bin/env python3
"""Regenerate MANIFEST.json from tools/manifest_src.py (single source of truth)."""
import json, os, sys
sys.path.insert(0, os.path.dirname(os.path.abspath(__file__)))
import manifest_src as M
V = os.path.dirname(os.path.dirname(os.path.abspath(__file__)))
props = [json.loads(l)["id"] for l in open(os.path.join(V, "properties.jsonl"))]
checks = []
for pid in props:
    c = M.CHECKS.get(pid)
    if not c:
        continue
    checks.append({
        "property_id": pid,
        "quick_cmd": "python3 tools/check.py %s --tier quick" % pid,
        "thorough_cmd": "python3 tools/check.py %s --tier thorough" % pid,
        "evidence_file": "evidence/%s.json" % pid,
        "replay_cmd_template": "cat {path}",
        "engine": c.get("engine", "lean4"),
        "level_claimed": {"category": c.get("category", "proof"), "text": c["text"], "design_ref": c.get("design_ref", "DESIGN.md §6 " + pid)},
        "level_note": c["note"],
        "technique": c["technique"],
    })
na = [{"property_id": p, "reason": M.NOT_APPLICABLE.get(p, "check not built yet in this round; see DESIGN.md §6 for the plan")}
      for p in props if p not in M.CHECKS]
man = {"version": 1, "setup_cmd": M.SETUP_CMD, "hooks": M.HOOKS, "engines": M.ENGINES, "checks": checks,
       "notes": M.NOTES, "not_applicable": na}
json.dump(man, open(os.path.join(V, "MANIFEST.json"), "w"), indent=1)
print("checks:", [c["property_id"] for c in checks], "not_applicable:", [n["property_id"] for n in na])
