#!/usr/bin/env python3
"""Write seeded/<id>/meta.json from confirm.json + notes.md (what it breaks, what it needs, what was run)."""
import os, json, re, glob
V = os.path.dirname(os.path.dirname(os.path.abspath(__file__)))
# seeds our check MISSED at first; what was added to the check before the seed was re-confirmed (seeded/STRENGTHENED.json)
try:
    STRENGTHENED = json.load(open(os.path.join(V, "seeded", "STRENGTHENED.json")))
except Exception:
    STRENGTHENED = {}
for d in sorted(glob.glob(os.path.join(V, "seeded", "C*-*"))):
    cf = os.path.join(d, "confirm.json")
    if not os.path.exists(cf):
        continue
    try:
        c = json.load(open(cf))
    except Exception:
        continue
    notes = open(os.path.join(d, "notes.md")).read() if os.path.exists(os.path.join(d, "notes.md")) else ""
    title = notes.strip().split("\n")[0].lstrip("# ").strip() if notes else ""
    m = re.search(r"(?is)(what (is )?(exactly )?(it takes|needed|is needed)[^\n]*\n)(.*?)(\n\*\*|\n## |\Z)", notes)
    needs = (m.group(5).strip()[:900] if m else "")
    files = re.findall(r"^\+\+\+ b/(\S+)", open(os.path.join(d, "patch.diff")).read(), re.M)
    meta = {
        "id": os.path.basename(d), "property": c.get("property"), "title": title, "files_touched": files,
        "needs_to_manifest": needs or "see notes.md",
        "written_by": "fresh sub-agent given only the property text and its own scratch worktree",
        "confirmed_by_coordinator": {
            "patch_applies_to_repo_head": c.get("patch_applies"), "all_38_tests_pass_with_patch": c.get("tests_pass_with_patch"),
            "demo_fails_with_patch": c.get("demo_fails_with_patch"), "demo_passes_on_clean_tree": c.get("demo_passes_on_clean"),
            "how": "tools/seed_confirm.py: scratch worktree at /repo HEAD; git apply; cmake --build + ctest; demo built against the worktree; revert; demo again"},
        "our_check": {"command": "VERIF_REPO=<worktree with patch> python3 tools/check.py %s --tier quick (run from an isolated copy of /verif)" % c.get("property"),
                      "detected": c.get("detected"), "exit": c.get("check_exit"), "lines": c.get("violation_lines", [])[:6],
                      "replays": c.get("replays", {})},
    }
    if meta["id"] in STRENGTHENED:
        meta["strengthened"] = STRENGTHENED[meta["id"]]
    json.dump(meta, open(os.path.join(d, "meta.json"), "w"), indent=1)
    print(meta["id"], "detected" if meta["our_check"]["detected"] else "MISSED", "|", title[:90])
