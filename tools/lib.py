"""Shared machinery for the Imath Lean-4 verification checks.

Every check (tools/props/cXX.py) builds a `Check`, records *obligations*
(theorems re-elaborated, translator validation, correspondence, residue
measurements), reports failures through `Check.fail`, and ends with
`Check.finish()`, which writes evidence/<id>.json, prints VIOLATION /
KNOWN-FINDING lines and returns the exit code.
"""
import os, sys, json, time, subprocess, fcntl, re, hashlib, shutil, random

VERIF = os.path.dirname(os.path.dirname(os.path.abspath(__file__)))
REPO = os.environ.get("VERIF_REPO", "/repo")
LEAN = os.path.join(VERIF, "lean")
BUILD = os.path.join(VERIF, ".build")
EVID = os.path.join(VERIF, "evidence")
REPLAYS = os.path.join(VERIF, "replays")
KNOWN = os.path.join(VERIF, "KNOWN_FINDINGS.jsonl")
NCPU = os.cpu_count() or 4

ALLOWED_AXIOMS = {"propext", "Classical.choice", "Quot.sound"}
FORBIDDEN = re.compile(
    r"\bsorry\b|\badmit\b|^axiom\s|\bnative_decide\b|\bbv_decide\b|implemented_by|\bunsafe\s|maxHeartbeats\s+0\b",
    re.M)


def log(*a):
    print("[verif]", *a, file=sys.stderr, flush=True)


def sh(cmd, timeout=3600, cwd=None, env=None, stdin=None):
    """Run a command (list or shell string); return (rc, combined output)."""
    e = dict(os.environ)
    if env:
        e.update(env)
    try:
        p = subprocess.run(cmd, shell=isinstance(cmd, str), cwd=cwd, env=e,
                           input=stdin, stdout=subprocess.PIPE,
                           stderr=subprocess.STDOUT, timeout=timeout, text=True,
                           errors="replace")
        return p.returncode, p.stdout
    except subprocess.TimeoutExpired as ex:
        out = ex.stdout or ""
        if isinstance(out, bytes):
            out = out.decode("utf8", "replace")
        return 124, out + "\n[timeout after %ss]" % timeout


def ensure_dir(d):
    os.makedirs(d, exist_ok=True)
    return d


def write_if_changed(path, text):
    """Write text to path only when it differs (keeps Lake's traces stable)."""
    try:
        with open(path) as f:
            if f.read() == text:
                return False
    except FileNotFoundError:
        pass
    ensure_dir(os.path.dirname(path))
    tmp = path + ".tmp%d" % os.getpid()
    with open(tmp, "w") as f:
        f.write(text)
    os.replace(tmp, path)
    return True


class Lock:
    """flock-based lock serialising lake invocations and writes under lean/."""

    def __init__(self, name="lean"):
        ensure_dir(BUILD)
        self.path = os.path.join(BUILD, name + ".lock")

    def __enter__(self):
        self.f = open(self.path, "w")
        fcntl.flock(self.f, fcntl.LOCK_EX)
        return self

    def __exit__(self, *a):
        fcntl.flock(self.f, fcntl.LOCK_UN)
        self.f.close()


# ---------------------------------------------------------------------------
# building against /repo's current working tree


def imath_config_dir():
    """Generate ImathConfig.h from /repo/config/ImathConfig.h.in as CMake's
    configure_file would with the project's default options, from the current
    tree.  Returns the include directory holding ImathConfig.h."""
    out = ensure_dir(os.path.join(BUILD, "cfg"))
    src = open(os.path.join(REPO, "config", "ImathConfig.h.in")).read()
    top = open(os.path.join(REPO, "CMakeLists.txt")).read()
    m = re.search(r"project\s*\(\s*Imath\s+VERSION\s+(\d+)\.(\d+)\.(\d+)", top)
    maj, mnr, pat = m.groups() if m else ("3", "2", "0")
    rel = re.search(r'set\s*\(\s*IMATH_VERSION_RELEASE_TYPE\s+"([^"]*)"', top)
    rel = rel.group(1) if rel else ""
    sov = re.search(r'set\s*\(\s*IMATH_LIB_SOVERSION\s+(\d+)', top)
    sov = sov.group(1) if sov else "30"
    vals = {
        "IMATH_NAMESPACE_CUSTOM": "0",
        "IMATH_INTERNAL_NAMESPACE": "Imath_%s_%s" % (maj, mnr),
        "IMATH_NAMESPACE": "Imath",
        "IMATH_VERSION": "%s.%s.%s" % (maj, mnr, pat),
        "IMATH_PACKAGE_NAME": "Imath %s.%s.%s%s" % (maj, mnr, pat, rel),
        "Imath_VERSION_MAJOR": maj, "Imath_VERSION_MINOR": mnr, "Imath_VERSION_PATCH": pat,
        "IMATH_VERSION_RELEASE_TYPE": rel,
        "IMATH_LIB_VERSION": "%s.%s.%s.%s" % (sov, maj, mnr, pat),
    }
    defs = {"IMATH_HALF_USE_LOOKUP_TABLE": True, "IMATH_HAVE_LARGE_STACK": False,
            "IMATH_USE_NOEXCEPT": True, "IMATH_ENABLE_API_VISIBILITY": True}
    for k, v in vals.items():
        src = src.replace("@%s@" % k, v)

    def cmdef(mo):
        name = mo.group(2)
        on = defs.get(name, False)
        if mo.group(1) == "01":
            return "#define %s %d" % (name, 1 if on else 0)
        return ("#define %s" % name) if on else ("/* #undef %s */" % name)
    src = re.sub(r"#cmakedefine(01)?\s+(\w+)", cmdef, src)
    write_if_changed(os.path.join(out, "ImathConfig.h"), src)
    return out


def cxx_flags(extra=()):
    return ["-std=c++17", "-O1", "-ffp-contract=off", "-fno-strict-aliasing",
            "-I" + os.path.join(REPO, "src", "Imath"), "-I" + imath_config_dir(),
            "-I" + os.path.join(VERIF, "harness")] + list(extra)


def cxx_build(name, sources, extra=(), libs=(), compiler="g++", timeout=900, lang_flags=None):
    """Compile a harness from /verif/harness sources + the current /repo tree.
    Returns (ok, binary_path, compiler_output)."""
    bind = ensure_dir(os.path.join(BUILD, "bin"))
    out = os.path.join(bind, name)
    srcs = [s if os.path.isabs(s) else os.path.join(VERIF, "harness", s) for s in sources]
    flags = cxx_flags(extra) if lang_flags is None else list(lang_flags)
    cmd = [compiler] + flags + srcs + ["-o", out + ".new%d" % os.getpid()] + list(libs) + ["-lpthread"]
    rc, o = sh(cmd, timeout=timeout)
    if rc != 0:
        return False, out, o
    os.replace(out + ".new%d" % os.getpid(), out)
    return True, out, o


def cxx_build_many(jobs):
    """jobs: list of dicts(name=, sources=, extra=, libs=, compiler=, lang_flags=);
    built in parallel. Returns {name: (ok, path, output)}."""
    from concurrent.futures import ThreadPoolExecutor
    imath_config_dir()
    res = {}
    with ThreadPoolExecutor(max_workers=min(NCPU, max(1, len(jobs)))) as ex:
        futs = {j["name"]: ex.submit(cxx_build, j["name"], j["sources"], j.get("extra", ()),
                                     j.get("libs", ()), j.get("compiler", "g++"),
                                     j.get("timeout", 900), j.get("lang_flags"))
                for j in jobs}
        for k, f in futs.items():
            res[k] = f.result()
    return res


# ---------------------------------------------------------------------------
# Lean


def lake_build(targets, timeout=3600):
    """`lake build <targets>` under the lock. Returns (rc, output)."""
    with Lock("lean"):
        return sh(["lake", "build"] + list(targets), cwd=LEAN, timeout=timeout)


def lean_run_file(text, timeout=900, name="scratch"):
    """Elaborate a scratch file against the built library (lake env lean)."""
    d = ensure_dir(os.path.join(BUILD, "scratch"))
    p = os.path.join(d, "%s_%d.lean" % (name, os.getpid()))
    with open(p, "w") as f:
        f.write(text)
    rc, out = sh(["lake", "env", "lean", p], cwd=LEAN, timeout=timeout)
    try:
        os.remove(p)
    except OSError:
        pass
    return rc, out


def strip_lean_comments(src):
    src = re.sub(r"/-.*?-/", lambda m: "\n" * m.group(0).count("\n"), src, flags=re.S)
    src = re.sub(r"--[^\n]*", "", src)
    return src


def theorems_in(path):
    """[(name, first_line, last_line)] for every theorem in a Lean file."""
    src = strip_lean_comments(open(path).read())
    lines = src.split("\n")
    starts = []
    for i, l in enumerate(lines, 1):
        m = re.match(r"\s*(?:@\[[^\]]*\]\s*)*(?:private\s+|protected\s+)?theorem\s+([^\s:({\[]+)", l)
        if m:
            starts.append((m.group(1), i))
    out = []
    for k, (n, s) in enumerate(starts):
        e = starts[k + 1][1] - 1 if k + 1 < len(starts) else len(lines)
        out.append((n, s, e))
    return out


def theorem_statements(path):
    """{name: normalised statement text} for every theorem of a Lean file: the text from `theorem` up to the first `:=`
    at bracket depth 0 (comments stripped, whitespace collapsed).  Used to pin statements (tools/pins/statements_*.json),
    so that a theorem cannot be quietly weakened (an added hypothesis, a dropped conjunct) while keeping its name."""
    src = strip_lean_comments(open(path).read())
    lines = src.split("\n")
    out = {}
    for (n, s, e) in theorems_in(path):
        body = "\n".join(lines[s - 1:e])
        depth, i, cut = 0, 0, len(body)
        while i < len(body) - 1:
            c = body[i]
            if c in "([{⟨":
                depth += 1
            elif c in ")]}⟩":
                depth -= 1
            elif c == ":" and body[i + 1] == "=" and depth <= 0:
                cut = i
                break
            elif c == "|" and depth <= 0 and body[:i].rstrip().endswith("\n") is False and body[i - 1] == "\n":
                cut = i   # pattern-matching definition: `theorem foo : stmt\n| ...`
                break
            i += 1
        out[n] = " ".join(body[:cut].split())
    return out


def statement_pins_path(module):
    return os.path.join(VERIF, "tools", "pins", "statements_%s.json" % module.split(".")[-1])


def namespace_of(path):
    src = strip_lean_comments(open(path).read())
    m = re.search(r"^namespace\s+(\S+)", src, re.M)
    return m.group(1) if m else ""


def failing_theorems(path, build_output):
    """Names of theorems in `path` that have an error in the lake output, plus
    a flag for errors that could not be attributed (e.g. an import failed)."""
    rel = os.path.relpath(path, LEAN)
    ths = theorems_in(path)
    bad, other = set(), []
    for m in re.finditer(r"error: ([^\s:]+):(\d+):(\d+): (.*)", build_output):
        f, ln, msg = m.group(1), int(m.group(2)), m.group(4)
        if os.path.normpath(f).endswith(rel):
            hit = [n for (n, s, e) in ths if s <= ln <= e]
            if hit:
                bad.add(hit[0])
            else:
                other.append("%s:%d %s" % (f, ln, msg))
        else:
            other.append("%s:%d %s" % (f, ln, msg))
    return bad, other


def print_axioms(module, names, timeout=900):
    """{theorem: [axioms]} via `#print axioms` on the built module."""
    if not names:
        return {}, 0, ""
    text = "import %s\n" % module + "".join("#print axioms %s\n" % n for n in names)
    rc, out = lean_run_file(text, timeout=timeout, name="axioms")
    res, cur = {}, None
    # output: "'Name' depends on axioms: [a, b]" or "'Name' does not depend on any axioms"
    for m in re.finditer(r"'([^']+)' (does not depend on any axioms|depends on axioms: \[([^\]]*)\])", out, re.S):
        n = m.group(1)
        ax = [a.strip() for a in (m.group(3) or "").replace("\n", " ").split(",") if a.strip()]
        res[n] = ax
    return res, rc, out


def audit_sources(paths):
    """Forbidden constructs (sorry/admit/axiom/native_decide/...) in Lean sources, comments stripped."""
    hits = []
    for p in paths:
        src = strip_lean_comments(open(p).read())
        for m in FORBIDDEN.finditer(src):
            ln = src.count("\n", 0, m.start()) + 1
            hits.append("%s:%d: %s" % (os.path.relpath(p, VERIF), ln, m.group(0).strip()))
    return hits


def lean_import_closure(module):
    """Source files of ImathVerif.* modules transitively imported by `module`."""
    seen, todo = {}, [module]
    while todo:
        m = todo.pop()
        if m in seen or not (m.startswith("ImathVerif") or m.startswith("Driver")):
            continue
        p = os.path.join(LEAN, *m.split(".")) + ".lean"
        if not os.path.exists(p):
            continue
        seen[m] = p
        for im in re.findall(r"^import\s+(\S+)", open(p).read(), re.M):
            todo.append(im)
    return seen


# ---------------------------------------------------------------------------
# known findings


def load_known():
    res = []
    if os.path.exists(KNOWN):
        for l in open(KNOWN):
            l = l.strip()
            if l and not l.startswith("#"):
                res.append(json.loads(l))
    return res


# ---------------------------------------------------------------------------


class Check:
    def __init__(self, prop, tier=None, seed=None, level="proof"):
        self.prop = prop
        self.tier = tier or os.environ.get("VERIF_TIER", "quick")
        if self.tier not in ("quick", "thorough"):
            self.tier = "quick"
        self.seed = int(seed if seed is not None else os.environ.get("VERIF_SEED", "1"))
        self.level = level if level in ("exploration", "fault_enumeration", "model_checking", "proof",
                                        "translation_validation", "other") else "proof"
        self.rng = random.Random(self.seed)
        self.t0 = time.time()
        self.obligs = []          # {name, kind, ok, detail}
        self.failures = []        # {obligation, key, what, replay, found_input}
        self.samples = []
        self.evaluations = 0
        self.nontrivial = 0
        self.rule = ""
        self.exhaustive = False
        self.trusted = []
        self.assumptions = []
        self.extra = {}
        self.checker_cmd = ""
        self.residues = {}
        ensure_dir(EVID)
        ensure_dir(REPLAYS)

    @property
    def thorough(self):
        return self.tier == "thorough"

    # -- recording ----------------------------------------------------------
    def oblige(self, name, kind, ok, detail=None):
        self.obligs.append({"name": name, "kind": kind, "ok": bool(ok),
                            **({"detail": detail} if detail is not None else {})})
        return ok

    def count(self, evaluations=0, nontrivial=0):
        self.evaluations += int(evaluations)
        self.nontrivial += int(nontrivial)

    def sample(self, s, cap=12):
        if len(self.samples) < cap:
            self.samples.append(s)

    def fail(self, obligation, key, what, replay=None, found_input=True):
        """Record a violation. `key` identifies the specific failing input / call
        site (matched against KNOWN_FINDINGS.jsonl)."""
        self.failures.append({"obligation": obligation, "key": key, "what": what,
                              "replay": replay or {}, "found_input": bool(found_input)})

    # -- Lean theorems ------------------------------------------------------
    def check_theorems(self, module, required=None, extra_targets=(), search=None):
        """Build `module` (ImathVerif.Props.Cxx), audit axioms and sources, and
        record one obligation per theorem.  `search(theorem_name)` is called for
        a theorem that no longer checks and returns a replay dict with a failing
        input, or None."""
        path = os.path.join(LEAN, *module.split(".")) + ".lean"
        t = time.time()
        rc, out = lake_build([module] + list(extra_targets))
        self.extra.setdefault("lake_build_s", {})[module] = round(time.time() - t, 1)
        self.checker_cmd = "cd lean && lake build %s && lake env lean <#print axioms of each theorem>" % module
        ths = [n for (n, _, _) in theorems_in(path)]
        ns = namespace_of(path)
        bad, other = failing_theorems(path, out) if rc != 0 else (set(), [])
        if rc != 0 and not bad:
            # an import (model / generated file) failed: nothing in this file is checked
            bad = set(ths)
        closure = lean_import_closure(module)
        hits = audit_sources(closure.values())
        self.oblige("audit:no-sorry-axiom-native_decide", "audit", not hits, hits[:10] or None)
        if hits:
            self.fail("audit", "audit:" + hits[0], "forbidden construct in Lean sources: " + "; ".join(hits[:5]),
                      {"hits": hits}, found_input=False)
        axs = {}
        good = [n for n in ths if n not in bad]
        if good:
            full = [(ns + "." + n) if ns else n for n in good]
            axs, arc, aout = print_axioms(module, full)
        missing = [n for n in (required or []) if n not in ths]
        for n in missing:
            self.oblige("theorem:" + n, "theorem", False, "required theorem is missing from " + module)
            self.fail("theorem:" + n, "missing:" + n, "required theorem %s missing" % n, {}, False)
        for n in ths:
            fulln = (ns + "." + n) if ns else n
            if n in bad:
                self.oblige("theorem:" + n, "theorem", False, "does not elaborate against the current model")
                rep = None
                if search:
                    try:
                        rep = search(n)
                    except Exception as ex:  # search machinery must not mask the failure
                        rep = None
                        log("search for %s raised %r" % (n, ex))
                errs = [l for l in out.split("\n") if "error" in l][:8]
                if rep:
                    self.fail("theorem:" + n, rep.get("key", "theorem:" + n),
                              "theorem %s no longer checks; failing input found" % n,
                              dict(rep, theorem=fulln, lean_errors=errs), True)
                else:
                    self.fail("theorem:" + n, "theorem:" + n,
                              "theorem %s no longer checks against the model tied to the current source" % n,
                              {"theorem": fulln, "lean_errors": errs, "unattributed": other[:5]}, False)
            elif rc != 0:
                # the module did not build because a sibling failed: this theorem elaborated without
                # error, but its axioms cannot be printed (no .olean); the source audit above still applies
                self.oblige("theorem:" + n, "theorem", True, "elaborated; axiom audit skipped (module has a failing sibling)")
            else:
                ax = axs.get(fulln)
                okax = ax is not None and set(ax) <= ALLOWED_AXIOMS
                self.oblige("theorem:" + n, "theorem", okax,
                            {"axioms": ax} if ax is not None else "axioms not reported")
                if not okax:
                    self.fail("theorem:" + n, "axioms:" + n,
                              "theorem %s depends on disallowed axioms %s" % (n, ax), {"axioms": ax}, False)
        self.extra.setdefault("theorems", {})[module] = len(ths)
        self._check_statement_pins(module, path, ths)
        return rc == 0 and not hits, out

    def _check_statement_pins(self, module, path, ths):
        """Statements are pinned (tools/pin_statements.py): a theorem whose statement text differs from its pin, or a
        pinned theorem that disappeared, fails here even though everything still elaborates."""
        import hashlib
        pp = statement_pins_path(module)
        if not os.path.exists(pp):
            self.extra.setdefault("statements_unpinned_modules", []).append(module)
            return
        pins = json.load(open(pp))
        cur = theorem_statements(path)
        changed = [n for n in pins if n in cur and hashlib.sha256(cur[n].encode()).hexdigest() != pins[n]]
        gone = [n for n in pins if n not in cur]
        new = [n for n in cur if n not in pins]
        name = "statements-pinned:%s: %d theorem statements are textually what was pinned" % (module.split(".")[-1], len(pins))
        self.oblige(name, "audit", not changed and not gone, {"changed": changed[:10], "disappeared": gone[:10]} if (changed or gone) else None)
        if new:
            self.extra.setdefault("statements_unpinned", {})[module] = new[:40]
        for n in changed[:20]:
            self.fail(name, "statement-changed:" + n, "the statement of theorem %s is not the pinned one (re-pin with tools/pin_statements.py "
                      "only after reviewing that it was not weakened)" % n, {"theorem": n, "current_statement": cur[n][:1500]}, False)
        for n in gone[:20]:
            self.fail(name, "statement-disappeared:" + n, "pinned theorem %s no longer exists in %s" % (n, module), {"theorem": n}, False)

    def leanchecker(self, module):
        t = time.time()
        with Lock("lean"):
            rc, out = sh(["lake", "env", "leanchecker", module], cwd=LEAN, timeout=3600)
        self.oblige("leanchecker:" + module, "kernel-recheck", rc == 0, out[-400:] if rc else None)
        self.extra.setdefault("leanchecker_s", {})[module] = round(time.time() - t, 1)
        if rc != 0:
            self.fail("leanchecker:" + module, "leanchecker:" + module,
                      "leanchecker rejects " + module, {"output": out[-2000:]}, False)

    # -- finishing ----------------------------------------------------------
    def finish(self):
        known = [k for k in load_known() if k.get("property") == self.prop and k.get("status", "open") == "open"]
        viol = 0
        lines = []
        seen_keys = set()
        for i, f in enumerate(self.failures):
            if f["key"] in seen_keys:
                continue
            seen_keys.add(f["key"])
            kf = [k for k in known if k.get("key") == f["key"]]
            if kf:
                lines.append("KNOWN-FINDING: property=%s %s" % (self.prop, kf[0].get("what", f["what"])))
                continue
            viol += 1
            safe = re.sub(r"[^A-Za-z0-9_.-]+", "_", f["key"])[:80]
            rp = os.path.join(REPLAYS, "%s-%s.json" % (self.prop, safe))
            with open(rp, "w") as fh:
                json.dump({"property": self.prop, "obligation": f["obligation"], "key": f["key"],
                           "what": f["what"], "found_failing_input": f["found_input"],
                           "seed": self.seed, "tier": self.tier, "replay": f["replay"]}, fh, indent=1, default=str)
            tail = "" if f["found_input"] else " no-failing-input-found"
            lines.append("VIOLATION property=%s replay=%s%s" % (self.prop, os.path.relpath(rp, VERIF), tail))
        # obligations that fail ONLY because of a recorded (open) known finding are listed separately:
        # they are neither counted as obligations of this run nor as discharged
        def obls(f):
            o = f["obligation"]
            return list(o) if isinstance(o, (list, tuple, set)) else [o]
        known_obl = set(o for f in self.failures if any(k.get("key") == f["key"] for k in known) for o in obls(f))
        bad_obl = set(o for f in self.failures if not any(k.get("key") == f["key"] for k in known) for o in obls(f))
        def tied(name, names):
            # the obligation name given to fail() may be a prefix of the recorded obligation's name (or vice versa)
            return any(name == n or name.startswith(n) or n.startswith(name) for n in names)
        counted, kf_list = [], []
        for o in self.obligs:
            if not o["ok"] and tied(o["name"], known_obl) and not tied(o["name"], bad_obl):
                kf_list.append(dict(o, known_finding=True))
            else:
                counted.append(o)
        # an obligation that failed without any failure having been reported is an inconsistency of the
        # check itself: never let it pass silently
        orphan = [o["name"] for o in counted if not o["ok"] and not tied(o["name"], bad_obl)]
        if orphan and viol == 0:
            viol += 1
            rp = os.path.join(REPLAYS, "%s-undischarged-obligations.json" % self.prop)
            with open(rp, "w") as fh:
                json.dump({"property": self.prop, "what": "obligations not discharged and no failure reported for them",
                           "obligations": orphan}, fh, indent=1)
            lines.append("VIOLATION property=%s replay=%s no-failing-input-found" % (self.prop, os.path.relpath(rp, VERIF)))
        nob = len(counted)
        ndis = sum(1 for o in counted if o["ok"])
        cov = {
            "obligations": nob, "discharged": ndis,
            "checker_cmd": self.checker_cmd or "python3 tools/check.py %s --tier %s" % (self.prop, self.tier),
            "trusted_base": self.trusted,
            "evaluations": self.evaluations, "distinct_nontrivial": self.nontrivial,
            "rule": self.rule, "samples": self.samples or [o["name"] for o in self.obligs[:8]],
            "exhaustive": self.exhaustive,
            "obligation_list": counted,
            "known_finding_obligations": kf_list,
            "known_findings_reported": [l for l in lines if l.startswith("KNOWN-FINDING")],
            "residues": self.residues,
        }
        cov.update(self.extra)
        ev = {"property_id": self.prop, "tier": self.tier, "seed": self.seed, "level": self.level,
              "coverage": cov, "assumptions": self.assumptions,
              "wall_s": round(time.time() - self.t0, 2), "violations": viol}
        with open(os.path.join(EVID, self.prop + ".json"), "w") as fh:
            json.dump(ev, fh, indent=1, default=str)
        for l in lines:
            print(l, flush=True)
        print("%s tier=%s seed=%d obligations=%d discharged=%d evaluations=%d violations=%d wall=%.1fs" % (
            self.prop, self.tier, self.seed, nob, ndis, self.evaluations, viol, time.time() - self.t0), flush=True)
        return 1 if viol else 0
