"""Executable form of the C01 specification: exact integer arithmetic, nearest by bisection over the
ordered list of all binary16 magnitudes (0x7c00 standing for 2^16).  The ROUNDING step is written
independently of the Lean model's structure (no thresholds, no add-and-shift).  The DENOTATION
(hval24, fval149) is the same closed form as Lean's hval / fval: it is not an independent one —
that role is played by Spec/HalfVal.lean (proved bridge to the textbook rational formulas) and, executable,
by CPython's struct codec (halfcorr.compare_spec_cpython)."""
import bisect

def hval24(m):            # value * 2^24 of half magnitude bits m <= 0x7c00
    e, f = m >> 10, m & 0x3ff
    return f if e == 0 else (1024 + f) << (e - 1)

HV = [hval24(m) << 125 for m in range(0x7c01)]   # scale 2^149

def fval149(u):           # finite float magnitude bits
    e, f = u >> 23, u & 0x7fffff
    return f if e == 0 else ((1 << 23) + f) << (e - 1)

def spec_f2h(v):
    """binary16 bits the property demands for float bits v (software path)."""
    s = (v >> 16) & 0x8000
    u = v & 0x7fffffff
    if u > 0x7f800000:                      # NaN: sign, top ten payload bits, or 1
        m = (u & 0x7fffff) >> 13
        return s | 0x7c00 | (m if m else 1)
    if u == 0x7f800000:
        return s | 0x7c00
    X = fval149(u)
    i = bisect.bisect_right(HV, X) - 1      # HV[i] <= X
    if i >= 0x7c00:
        return s | 0x7c00
    lo, hi = HV[i], HV[i + 1]
    if 2 * X < lo + hi: r = i
    elif 2 * X > lo + hi: r = i + 1
    else: r = i if i % 2 == 0 else i + 1
    return s | r

def spec_h2f(h):
    """binary32 bits of the value denoted by half bits h (NaN: sign + payload<<13)."""
    s = (h & 0x8000) << 16
    m = h & 0x7fff
    e, f = m >> 10, m & 0x3ff
    if e == 31:
        return s | 0x7f800000 | (f << 13)
    if m == 0:
        return s
    X = hval24(m)                            # value * 2^24
    b = X.bit_length() - 1                   # X = 1.xxx * 2^b ; true exponent b-24
    mant = (X << 23 >> b) & 0x7fffff if b <= 23 else (X >> (b - 23)) & 0x7fffff
    return s | ((b - 24 + 127) << 23) | mant

def canon16(h):
    return ((h & 0x8000) | 0x7e00) if (h & 0x7c00) == 0x7c00 and (h & 0x3ff) else h

def canon32(f):
    return ((f & 0x80000000) | 0x7fc00000) if (f & 0x7f800000) == 0x7f800000 and (f & 0x7fffff) else f
