"""Translator for the Euler<T>::Order enumeration (T-route for data):
/repo/src/Imath/ImathEuler.h  ->  lean/ImathVerif/Gen/EulerOrder.lean

Primary route: the enumerator NAMES are read from the text of `enum ... Order { ... }`
in the CURRENT header; a tiny program printing `(int) Euler<float>::<name>` for each of
them is generated, compiled against the current header and run, so the VALUES are what
the compiler computes (including `Legal = XYZ | XZY | ...`).
Validation route: enumerators written as plain literals (`XYZ = 0x0101`) are also parsed
by regex; `regenerate()` returns both maps so the check records their agreement."""
import os, re, sys
sys.path.insert(0, os.path.dirname(os.path.abspath(__file__)))
import lib

OUT = os.path.join(lib.LEAN, "ImathVerif", "Gen", "EulerOrder.lean")
NON_ORDERS = ("Legal", "Min", "Max", "Default")


def header_enum(name):
    src = open(os.path.join(lib.REPO, "src", "Imath", "ImathEuler.h")).read()
    src = re.sub(r"//[^\n]*", "", src)
    m = re.search(r"enum\s+(?:IMATH_EXPORT_ENUM\s+)?%s\s*\{(.*?)\}" % name, src, re.S)
    if not m:
        return []
    items = []
    for part in m.group(1).split(","):
        part = " ".join(part.split())
        if not part:
            continue
        n, _, v = part.partition("=")
        items.append((n.strip(), v.strip() or None))
    return items


def compiled_values(names):
    d = lib.ensure_dir(os.path.join(lib.BUILD, "gen_euler"))
    src = os.path.join(d, "euler_enum_dump.cpp")
    body = ['#include <ImathEuler.h>', '#include <cstdio>', 'using namespace IMATH_INTERNAL_NAMESPACE;', 'int main () {']
    for kind, n in names:
        body.append('    printf ("%s %s %%ld\\n", (long) Eulerf::%s);' % (kind, n, n))
        body.append('    static_assert ((long) Eulerf::%s == (long) Eulerd::%s, "float/double enumerators differ");' % (n, n))
    body += ['    return 0;', '}']
    lib.write_if_changed(src, "\n".join(body) + "\n")
    ok, binary, o = lib.cxx_build("euler_enum_dump", [src])
    if not ok:
        return None, o
    rc, out = lib.sh([binary], timeout=60)
    vals = {}
    for l in out.split("\n"):
        w = l.split()
        if len(w) == 3:
            vals[(w[0], w[1])] = int(w[2])
    return vals, out


def regenerate():
    """Returns (ok, info). info: orders [(name,value)], specials {name:value}, axes, layouts, regex {name:value}, changed."""
    order_items = header_enum("Order")
    axis_items = header_enum("Axis")
    layout_items = header_enum("InputLayout")
    names = [("order", n) for n, _ in order_items] + [("axis", n) for n, _ in axis_items] + [("layout", n) for n, _ in layout_items]
    if not order_items:
        return False, {"error": "enum Order not found in ImathEuler.h"}
    vals, out = compiled_values(names)
    if vals is None:
        return False, {"error": "enum dump does not compile", "output": out[-1500:]}
    orders = [(n, vals[("order", n)]) for n, _ in order_items if n not in NON_ORDERS and ("order", n) in vals]
    specials = dict((n, vals[("order", n)]) for n, _ in order_items if n in NON_ORDERS and ("order", n) in vals)
    axes = [(n, vals[("axis", n)]) for n, _ in axis_items]
    layouts = [(n, vals[("layout", n)]) for n, _ in layout_items]
    regex = {}
    for n, v in order_items:
        if v and re.fullmatch(r"0[xX][0-9a-fA-F]+|\d+", v):
            regex[n] = int(v, 0)
    text = emit(orders, specials, axes, layouts)
    with lib.Lock("lean"):
        changed = lib.write_if_changed(OUT, text)
    return True, {"orders": orders, "specials": specials, "axes": axes, "layouts": layouts, "regex": regex, "changed": changed}


def emit(orders, specials, axes, layouts):
    o = ["-- GENERATED from /repo/src/Imath/ImathEuler.h by tools/gen_euler.py (enumerator names parsed from the",
         "-- header, values printed by a program compiled against it); do not edit.",
         "namespace ImathVerif.Gen.EulerOrder", ""]
    for n, v in orders:
        o.append("def %s : Nat := 0x%04x" % (n, v))
    o.append("")
    for n in NON_ORDERS:
        if n in specials:
            o.append("def %s : Nat := 0x%04x" % (n, specials[n]))
    o.append("")
    o.append("/-- every enumerator of `Euler<T>::Order` except Legal/Min/Max/Default, in declaration order -/")
    o.append("def orders : List (String × Nat) :=\n  [" + ",\n   ".join('("%s", 0x%04x)' % (n, v) for n, v in orders) + "]")
    o.append("")
    o.append("def axes : List (String × Nat) := [" + ", ".join('("%s", %d)' % (n, v) for n, v in axes) + "]")
    o.append("def layouts : List (String × Nat) := [" + ", ".join('("%s", %d)' % (n, v) for n, v in layouts) + "]")
    o += ["", "end ImathVerif.Gen.EulerOrder", ""]
    return "\n".join(o)


if __name__ == "__main__":
    ok, info = regenerate()
    print(ok, info)
