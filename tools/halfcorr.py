"""Shared correspondence machinery for the half properties (C01/C02/C03)."""
import os, sys
sys.path.insert(0, os.path.dirname(os.path.abspath(__file__)))
import lib, halfspec

DRV = os.path.join(lib.LEAN, ".lake", "build", "bin", "drv_half")


class Phases:
    """wall-clock seconds per phase of a check, recorded in chk.extra["phase_s"] (lock waits show up here)"""
    def __init__(self, chk):
        import time
        self.chk, self.t, self.time = chk, time.time(), time
        chk.extra["phase_s"] = {}

    def mark(self, name):
        now = self.time.time()
        d = self.chk.extra["phase_s"]
        d[name] = round(d.get(name, 0) + now - self.t, 1)
        self.t = now


def cpu_has_f16c():
    try:
        return "f16c" in open("/proc/cpuinfo").read().split("flags", 1)[-1].split("\n", 1)[0].split()
    except OSError:
        return False


def build_driver():
    rc, out = lib.lake_build(["drv_half"])
    return rc == 0, out


def model_f2h_blocks(canon=False):
    """65,536 block hashes of the model's f2h over all 2^32 float patterns
    (canon: NaN results mapped to sign|0x7e00 before hashing)."""
    rc, out = lib.sh([DRV, "f2h_blocks", "0", "65536"] + (["1"] if canon else []), timeout=1800)
    return out.split()


def model_h2f_all(canon=False):
    rc, out = lib.sh([DRV, "h2f_all"], timeout=600)
    r = [int(x, 16) for x in out.split()]
    return [halfspec.canon32(x) for x in r] if canon else r


def first_f2h_diff(binary, api, canon, block, env=None):
    """Within a mismatching block find the first float whose conversion differs
    from the model; returns (float_bits, impl, model) or None."""
    lo, hi = block << 16, (block + 1) << 16
    c = "1" if canon else "0"
    rc, a = lib.sh([binary, "f2h_range", str(lo), str(hi), api, c], timeout=600, env=env)
    rc, b = lib.sh([DRV, "f2h_range", str(lo), str(hi), c], timeout=600)
    a = [int(x, 16) for x in a.split()]
    b = [int(x, 16) for x in b.split()]
    for i, (x, y) in enumerate(zip(a, b)):
        if x != y:
            return lo + i, x, y
    return None


ROUND_MODES = {"tz": "FE_TOWARDZERO", "up": "FE_UPWARD", "dn": "FE_DOWNWARD"}


def boundary_blocks():
    """2^16-blocks (upper 16 bits of the float pattern) that contain every threshold the
    conversion code or the format has: zero / smallest float subnormal / smallest normal float,
    the flush threshold 0x33000001, every binade edge of the subnormal-result range
    (0x33000000 .. 0x38800000), the normal threshold 0x38800000, every binade edge of the
    normal-result range up to 0x47800000, the overflow threshold 0x477ff000, the largest
    finite float, infinity / first NaNs, the quiet-NaN edge, the last pattern; both signs."""
    mags = {0x0000, 0x0001, 0x007f, 0x0080, 0x0081, 0x32ff, 0x7f7f, 0x7f80, 0x7f81, 0x7fbf, 0x7fc0, 0x7fff}
    for e in range(0x3300, 0x4781, 0x80):
        mags.update((e - 1, e, e + 0x40 - 1, e + 0x40))
    return sorted(mags | {m | 0x8000 for m in mags})


def sample_blocks(seed, stride):
    """all boundary blocks + every stride-th block starting at a seed-dependent offset"""
    return sorted(set(boundary_blocks()) | set(range(seed % stride, 65536, stride)))


def compare_blocks(chk, name, binary, prop_key_prefix, blocks, model_blocks, apis=("c", "cxx"), canon=False,
                   env=None, what=""):
    """float->half on a list of 2^16-blocks (harness `f2h_list`) against the model's hashes
    (`model_blocks`: the full 65,536-entry list in the same canon form).  Returns #mismatches."""
    c = "1" if canon else "0"
    want = [model_blocks[b] for b in blocks] if len(model_blocks) == 65536 else []
    nbad = 0
    for api in apis:
        rc, out = lib.sh([binary, "f2h_list", api, c] + [str(b) for b in blocks], timeout=1800, env=env)
        impl = out.split()
        ok = rc == 0 and len(impl) == len(blocks) and impl == want
        chk.oblige("corr:%s:f2h:%s:%d-blocks" % (name, api, len(blocks)), "correspondence", ok)
        chk.count(len(blocks) << 16, (len(blocks) << 16) - 2)
        if ok:
            continue
        bad = [blocks[i] for i in range(len(blocks)) if impl[i] != want[i]] if len(impl) == len(want) else []
        nbad += len(bad) or 1
        rep = {"config": name, "api": api, "nan_canonicalised": bool(canon), "mismatching_blocks": len(bad),
               "blocks_compared": len(blocks), "first_blocks": bad[:8], "harness_rc": rc, "env": env or {}}
        key, found = "%s:f2h:%s" % (prop_key_prefix, name), False
        if bad:
            d = first_f2h_diff(binary, api, canon, bad[0], env=env)
            if d:
                u, x, y = d
                sp = halfspec.spec_f2h(u)
                rep.update({"float_bits": "0x%08x" % u, "implementation": "0x%04x" % x, "model": "0x%04x" % y,
                            "spec_rne16": "0x%04x" % (halfspec.canon16(sp) if canon else sp),
                            "replay_cmd": "%s%s f2h_range %d %d %s %s" % (
                                "".join("%s=%s " % kv for kv in (env or {}).items()),
                                os.path.relpath(binary, lib.VERIF), u, u + 1, api, c)})
                key, found = "%s:f2h:%s:0x%08x" % (prop_key_prefix, name, u), True
        chk.fail("corr:%s:f2h:%s" % (name, api), key,
                 "float->half differs from the proven model in configuration %s (%s api)%s" % (name, api, what), rep, found)
    return nbad


def compare_h2f(chk, name, binary, prop_key_prefix, model_h2f, apis=("c", "cxx"), canon=False, env=None, what=""):
    """half->float on all 2^16 patterns against the model list. Returns #failing apis."""
    c = "1" if canon else "0"
    nbad = 0
    for api in apis:
        if api == "asg":
            continue
        rc, out = lib.sh([binary, "h2f_all", api, c], timeout=600, env=env)
        try:
            impl = [int(x, 16) for x in out.split()]
        except ValueError:
            impl = []
        ok = rc == 0 and len(impl) == 65536 and impl == model_h2f
        chk.oblige("corr:%s:h2f:%s:all-2^16" % (name, api), "correspondence", ok)
        chk.count(1 << 16, (1 << 16) - 2)
        if ok:
            continue
        nbad += 1
        d = [h for h in range(min(len(impl), len(model_h2f), 65536)) if impl[h] != model_h2f[h]]
        rep = {"config": name, "api": api, "nan_canonicalised": bool(canon), "mismatches": len(d),
               "harness_rc": rc, "harness_lines": len(impl), "env": env or {}}
        key = "%s:h2f:%s" % (prop_key_prefix, name)
        if d:
            h = d[0]
            sp = halfspec.spec_h2f(h)
            rep.update({"half_bits": "0x%04x" % h, "implementation": "0x%08x" % impl[h], "model": "0x%08x" % model_h2f[h],
                        "spec_exact": "0x%08x" % (halfspec.canon32(sp) if canon else sp),
                        "replay_cmd": "%s%s h2f %x" % ("".join("%s=%s " % kv for kv in (env or {}).items()),
                                                      os.path.relpath(binary, lib.VERIF), h)})
            key += ":0x%04x" % h
        chk.fail("corr:%s:h2f:%s" % (name, api), key,
                 "half->float differs from the proven model in configuration %s (%s api)%s" % (name, api, what), rep, bool(d))
    return nbad


def rounding_control(binary):
    """{mode: parsed rm_control line} — evidence that HALF_CORR_ROUND takes effect in this binary."""
    res = {}
    for m in ("ne",) + tuple(ROUND_MODES):
        rc, out = lib.sh([binary, "rm_control"], timeout=60, env={"HALF_CORR_ROUND": m})
        res[m] = dict(kv.split("=", 1) for kv in out.split() if "=" in kv) if rc == 0 else {"rc": str(rc)}
    return res


def rounding_control_ok(ctl, f16c):
    """the control conversions follow the mode: 1+2^-24 rounds up only under FE_UPWARD, -(1+2^-24)
    down only under FE_DOWNWARD; with F16C hardware vcvtps2ph(CUR_DIRECTION) of +-(1+2^-11+2^-23)
    gives 3c01/bc01 under to-nearest and the directed results otherwise"""
    try:
        ok = (ctl["ne"]["add"], ctl["ne"]["sub"]) == ("3f800000", "bf800000") and \
             (ctl["tz"]["add"], ctl["tz"]["sub"]) == ("3f800000", "bf800000") and \
             (ctl["up"]["add"], ctl["up"]["sub"]) == ("3f800001", "bf800000") and \
             (ctl["dn"]["add"], ctl["dn"]["sub"]) == ("3f800000", "bf800001")
        if f16c:
            ok = ok and ctl["ne"]["f16c_cur"] == "3c01,bc01" and ctl["tz"]["f16c_cur"] == "3c00,bc00" and \
                 ctl["up"]["f16c_cur"] == "3c01,bc00" and ctl["dn"]["f16c_cur"] == "3c00,bc01"
        return ok
    except KeyError:
        return False


def rounding_sweep(chk, name, binary, prop_key_prefix, model_blocks, model_h2f, apis, canon, seed, exhaustive, f16c=False,
                   stride=97):
    """Run the configuration under FE_TOWARDZERO / FE_UPWARD / FE_DOWNWARD (fesetround in the harness
    before any conversion): both directions, every api; the results must still equal the
    to-nearest model (the conversions are specified as RNE regardless of the caller's mode).
    float->half: all 2^32 when `exhaustive`, else all boundary blocks + every `stride`-th block.
    Returns per-mode mismatch counts."""
    ctl = rounding_control(binary)
    okc = rounding_control_ok(ctl, f16c)
    chk.oblige("rounding-control:%s fesetround() is in effect inside the harness%s" % (
        name, " and vcvtps2ph(CUR_DIRECTION) follows it" if f16c else ""), "translator-validation", okc, ctl)
    if not okc:
        chk.fail("rounding-control:" + name, "%s:rounding-control:%s" % (prop_key_prefix, name),
                 "the rounding-mode positive control did not behave as expected; the rounding-mode sweep proves nothing",
                 {"control": ctl}, False)
    res = {}
    blocks = list(range(65536)) if exhaustive else sample_blocks(seed, stride)
    for m, fe in ROUND_MODES.items():
        env = {"HALF_CORR_ROUND": m}
        what = " under %s" % fe
        nm = "%s@%s" % (name, fe)
        nb = compare_blocks(chk, nm, binary, prop_key_prefix, blocks, model_blocks, apis=apis, canon=canon, env=env, what=what)
        nb += compare_h2f(chk, nm, binary, prop_key_prefix, model_h2f, apis=apis, canon=canon, env=env, what=what)
        res[fe] = {"f2h_blocks": len(blocks), "mismatches": nb}
    return res


# ---- FP-exceptions build --------------------------------------------------

def model_f2hx(blocks=None):
    """hashes of (result | raised<<16) of the model f2hExc: all 65,536 blocks, or a list"""
    if blocks is None:
        rc, out = lib.sh([DRV, "f2hx_blocks", "0", "65536"], timeout=1800)
    else:
        rc, out = lib.sh([DRV, "f2hx_list"] + [str(b) for b in blocks], timeout=1800)
    return out.split()


def compare_fpexc(chk, name, binary, prop_key_prefix, blocks, apis=("c", "cxx", "asg")):
    """IMATH_HALF_ENABLE_FP_EXCEPTIONS build: result AND the exception flags left behind by every
    call (fetestexcept) against the model f2hExc, whose flag sets are characterised by the
    theorems f2hExc_overflow / f2hExc_underflow.  blocks=None: all 2^32."""
    want = model_f2hx(blocks)
    n = 65536 if blocks is None else len(blocks)
    lab = "all-2^32" if blocks is None else "%d-blocks" % n
    nbad = 0
    for api in apis:
        if blocks is None:
            rc, out = lib.sh([binary, "f2hx_blocks", "0", "65536", api], timeout=3600)
        else:
            rc, out = lib.sh([binary, "f2hx_list", api] + [str(b) for b in blocks], timeout=3600)
        impl = out.split()
        ok = rc == 0 and len(impl) == n and len(want) == n and impl == want
        chk.oblige("corr:%s:f2h+fe-flags:%s:%s" % (name, api, lab), "correspondence", ok)
        chk.count(n << 16, (n << 16) - 2)
        if ok:
            continue
        bl = list(range(65536)) if blocks is None else blocks
        bad = [bl[i] for i in range(n) if impl[i] != want[i]] if len(impl) == n and len(want) == n else []
        nbad += len(bad) or 1
        rep = {"config": name, "api": api, "mismatching_blocks": len(bad), "first_blocks": bad[:8], "harness_rc": rc}
        key, found = "%s:f2hx:%s" % (prop_key_prefix, name), False
        if bad:
            lo, hi = bad[0] << 16, (bad[0] + 1) << 16
            rc1, a = lib.sh([binary, "f2hx_range", str(lo), str(hi), api], timeout=600)
            rc2, b = lib.sh([DRV, "f2hx_range", str(lo), str(hi)], timeout=600)
            a, b = a.split(), b.split()
            for i, (x, y) in enumerate(zip(a, b)):
                if x != y:
                    u = lo + i
                    x, y = int(x, 16), int(y, 16)
                    fl = {0: "none", 1: "FE_OVERFLOW", 2: "FE_UNDERFLOW"}
                    rep.update({"float_bits": "0x%08x" % u, "implementation_bits": "0x%04x" % (x & 0xffff),
                                "implementation_raised": fl.get(x >> 16, "code %d (4 = another flag)" % (x >> 16)),
                                "model_bits": "0x%04x" % (y & 0xffff), "model_raised": fl.get(y >> 16, str(y >> 16)),
                                "spec_rne16": "0x%04x" % halfspec.spec_f2h(u),
                                "replay_cmd": "%s f2hx_range %d %d %s" % (os.path.relpath(binary, lib.VERIF), u, u + 1, api)})
                    key, found = "%s:f2hx:%s:0x%08x" % (prop_key_prefix, name, u), True
                    break
        chk.fail("corr:%s:f2h+fe-flags:%s" % (name, api), key,
                 "float->half result or raised FP exception differs from the model f2hExc in configuration %s (%s api)" % (name, api),
                 rep, found)
    return nbad


# ---- executable spec vs model ---------------------------------------------

def spec_blocks_hashes(blocks):
    """FNV hashes (as Driver/Half.lean blockHash) of the Python executable spec halfspec.spec_f2h over each listed
    block; pure Python, ~0.1 s per block per core.  halfspec's ROUNDING step (exact integers, bisection over the ordered
    list of binary16 values, midpoint comparison) is written independently of the Lean proof; its DENOTATION
    (hval24/fval149) is the same closed form as Lean's hval/fval — see compare_spec_cpython for an independent one."""
    from concurrent.futures import ProcessPoolExecutor
    with ProcessPoolExecutor(max_workers=min(lib.NCPU, 16)) as ex:
        return list(ex.map(_spec_block_hash, blocks, chunksize=max(1, len(blocks) // 64)))


def _spec_block_hash(b):
    lo = b << 16
    h = 1469598103934665603
    f = halfspec.spec_f2h
    for u in range(lo, lo + 65536):
        h = ((h ^ f(u)) * 1099511628211) & 0xffffffffffffffff
    return "%x" % h


def compare_spec_model(chk, prop_key_prefix, model_blocks, model_h2f, blocks):
    """Standing obligation spec-vs-model: the Python spec against the Lean MODEL on the listed
    blocks (float->half) and on all 2^16 halves (half->float), so that a slip in the Lean
    denotations hval/fval (in which the theorems are stated) cannot hide behind the model."""
    sp = spec_blocks_hashes(blocks)
    want = [model_blocks[b] for b in blocks] if len(model_blocks) == 65536 else []
    ok = sp == want
    chk.oblige("spec-vs-model:f2h halfspec.py = Lean model f2h:%d-blocks" % len(blocks), "correspondence", ok)
    chk.count(len(blocks) << 16, (len(blocks) << 16) - 2)
    if not ok:
        bad = [blocks[i] for i in range(len(blocks)) if i >= len(want) or sp[i] != want[i]]
        rep = {"mismatching_blocks": len(bad), "first_blocks": bad[:8]}
        key, found = prop_key_prefix + ":spec-vs-model:f2h", False
        if bad and want:
            lo, hi = bad[0] << 16, (bad[0] + 1) << 16
            rc, b = lib.sh([DRV, "f2h_range", str(lo), str(hi), "0"], timeout=600)
            for i, y in enumerate(b.split()):
                if int(y, 16) != halfspec.spec_f2h(lo + i):
                    rep.update({"float_bits": "0x%08x" % (lo + i), "model": "0x%04x" % int(y, 16),
                                "spec_rne16": "0x%04x" % halfspec.spec_f2h(lo + i)})
                    key, found = key + ":0x%08x" % (lo + i), True
                    break
        chk.fail("spec-vs-model:f2h", key, "the Lean model f2h differs from the Python executable specification (tools/halfspec.py)", rep, found)
    sph = [halfspec.spec_h2f(h) for h in range(65536)]
    okh = sph == model_h2f
    chk.oblige("spec-vs-model:h2f halfspec.py = Lean model h2f:all-2^16", "correspondence", okh)
    chk.count(65536, 65534)
    if not okh:
        d = [h for h in range(min(65536, len(model_h2f))) if sph[h] != model_h2f[h]]
        chk.fail("spec-vs-model:h2f", prop_key_prefix + ":spec-vs-model:h2f" + (":0x%04x" % d[0] if d else ""),
                 "the Lean model h2f differs from the Python executable specification (tools/halfspec.py)",
                 {"half_bits": "0x%04x" % d[0], "model": "0x%08x" % model_h2f[d[0]], "spec_exact": "0x%08x" % sph[d[0]]} if d else {},
                 bool(d))
    return ok and okh


# ---- a third oracle whose DENOTATION is not ours: CPython's binary16 codec ------------------

def _cpython_block(b):
    """first disagreement between halfspec.spec_f2h and CPython's struct 'e' codec (PyFloat_Pack2: IEEE binary16,
    round-half-even, OverflowError from 65520) on the non-NaN floats of block b, or None"""
    import struct
    lo = b << 16
    pk, up, f = struct.pack, struct.unpack, halfspec.spec_f2h
    for u in range(lo, lo + 65536):
        m = u & 0x7fffffff
        if m > 0x7f800000:
            continue
        x = up("<f", pk("<I", u))[0]
        try:
            r = up("<H", pk("<e", x))[0]
        except OverflowError:              # |x| >= 65520 (finite): IEEE says infinity
            r = ((u >> 16) & 0x8000) | 0x7c00
        if r != f(u):
            return (u, r, f(u))
    return None


def compare_spec_cpython(chk, prop_key_prefix, blocks):
    """halfspec.py shares its closed-form denotation (hval24/fval149) with the Lean spec; only its rounding step
    (bisection + midpoint compare) is independent.  CPython's struct codec for binary16 ('e') and binary32 ('f') is
    an implementation that shares neither: compare it with halfspec on the listed blocks (float->half, non-NaN) and on
    all non-NaN halves (half->float)."""
    import struct
    from concurrent.futures import ProcessPoolExecutor
    with ProcessPoolExecutor(max_workers=min(lib.NCPU, 16)) as ex:
        bad = [r for r in ex.map(_cpython_block, blocks, chunksize=max(1, len(blocks) // 64)) if r]
    ok = not bad
    chk.oblige("spec-vs-cpython:f2h halfspec.py = CPython struct 'e' codec (independent denotation):%d-blocks" % len(blocks),
               "correspondence", ok)
    chk.count(len(blocks) << 16, (len(blocks) << 16) - 2)
    if bad:
        u, r, sp = bad[0]
        chk.fail("spec-vs-cpython:f2h", "%s:spec-vs-cpython:f2h:0x%08x" % (prop_key_prefix, u),
                 "the executable specification disagrees with CPython's IEEE binary16 encoder",
                 {"float_bits": "0x%08x" % u, "cpython": "0x%04x" % r, "halfspec": "0x%04x" % sp}, True)
    badh = None
    for h in range(65536):
        if (h & 0x7c00) == 0x7c00 and (h & 0x3ff):
            continue
        x = struct.unpack("<e", struct.pack("<H", h))[0]
        r = struct.unpack("<I", struct.pack("<f", x))[0]
        if r != halfspec.spec_h2f(h):
            badh = (h, r)
            break
    chk.oblige("spec-vs-cpython:h2f halfspec.py = CPython struct 'e' decoder:all non-NaN halves", "correspondence", badh is None)
    chk.count(65536 - 2046, 65536 - 2048)
    if badh:
        chk.fail("spec-vs-cpython:h2f", "%s:spec-vs-cpython:h2f:0x%04x" % (prop_key_prefix, badh[0]),
                 "the executable specification disagrees with CPython's IEEE binary16 decoder",
                 {"half_bits": "0x%04x" % badh[0], "cpython": "0x%08x" % badh[1], "halfspec": "0x%08x" % halfspec.spec_h2f(badh[0])}, True)
    return ok and badh is None


# ---- composition on the real code ------------------------------------------------------------

def compare_roundtrip(chk, name, binary, prop_key_prefix, model_h2f, apis=("c", "cxx"), canon=False):
    """half -> float -> half executed on the REAL code through each api for all 2^16 patterns, against the model's
    f2h (h2f h) (driver), which must itself be the identity on every non-NaN pattern (theorem roundtrip)."""
    rc, out = lib.sh([DRV, "f2h"] + ["%x" % x for x in model_h2f], timeout=600)
    want = [int(x, 16) for x in out.split()]
    okm = rc == 0 and len(want) == 65536 and all(want[h] == h for h in range(65536) if not ((h & 0x7c00) == 0x7c00 and (h & 0x3ff)))
    if canon:
        want = [halfspec.canon16(x) for x in want]
    nbad = 0
    for api in apis:
        rc, out = lib.sh([binary, "roundtrip_all", api, "1" if canon else "0"], timeout=300)
        try:
            got = [int(x, 16) for x in out.split()]
        except ValueError:
            got = []
        ok = okm and rc == 0 and got == want
        chk.oblige("corr:%s:roundtrip half->float->half on the real code:%s:all-2^16" % (name, api), "correspondence", ok)
        chk.count(65536, 65534)
        if not ok:
            nbad += 1
            d = [h for h in range(min(len(got), len(want))) if got[h] != want[h]]
            chk.fail("corr:%s:roundtrip" % name, "%s:roundtrip:%s%s" % (prop_key_prefix, name, (":0x%04x" % d[0]) if d else ""),
                     "half->float->half on the real code differs from the model composition in configuration %s (%s api)" % (name, api),
                     {"half_bits": "0x%04x" % d[0], "implementation": "0x%04x" % got[d[0]], "model": "0x%04x" % want[d[0]],
                      "replay_cmd": "%s roundtrip_all %s %d | sed -n %dp" % (os.path.relpath(binary, lib.VERIF), api, 1 if canon else 0, d[0] + 1)}
                     if d else {"harness_rc": rc, "lines": len(got), "model_identity_on_non_nan": okm}, bool(d))
    return nbad


# ---- what a compiled object contains -----------------------------------------------------------

TABLE_SYM = "imath_half_to_float_table"


def object_facts(obj):
    """nm / objdump facts about a harness object: does it reference the table symbol; how many F16C conversion
    instructions (outside the harness' own positive-control function rm_control_f16c) and their immediates"""
    import re
    rc, nm = lib.sh(["nm", obj], timeout=120)
    rc2, dis = lib.sh(["objdump", "-d", "--no-show-raw-insn", obj], timeout=300)
    dis = re.sub(r"^[0-9a-f]+ <rm_control_f16c>:\n(?:.*\n)*?(?=^\s*$|^[0-9a-f]+ <)", "", dis, flags=re.M)
    return {"ok": rc == 0 and rc2 == 0,
            "refs_table": bool(re.search(r"^\s+U\s+" + TABLE_SYM + r"\s*$", nm, re.M)),
            "vcvtph2ps": len(re.findall(r"\bvcvtph2ps\b", dis)), "vcvtps2ph": len(re.findall(r"\bvcvtps2ph\b", dis)),
            "imm8": [int(x, 16) for x in re.findall(r"\bvcvtps2ph\s+\$0x([0-9a-f]+)", dis)]}


def harness_object(name, extra=()):
    """compile harness/corr/half_corr.cpp alone to an object with the flags lib.cxx_build uses (+extra)"""
    obj = os.path.join(lib.ensure_dir(os.path.join(lib.BUILD, "bin")), name + ".harness.o")
    rc, o = lib.sh(["g++"] + lib.cxx_flags(extra) + ["-c", os.path.join(lib.VERIF, "harness", "corr", "half_corr.cpp"), "-o", obj], timeout=900)
    return rc == 0, obj, o


# ---- non-vacuity examples are part of the evidence -----------------------------------------------

def check_example_counts(chk, prop_key_prefix, expected):
    """`expected`: {path relative to lean/ImathVerif: minimum number of `example` blocks}.  The examples are where
    "the hypotheses are satisfiable at a tie / a negative subnormal / -inf / an sNaN" is recorded; theorem lists and
    statement pins do not see them, so their number is committed here and a drop is a failure."""
    import re
    cur, low = {}, {}
    for rel, n in expected.items():
        try:
            src = lib.strip_lean_comments(open(os.path.join(lib.LEAN, "ImathVerif", rel)).read())
        except OSError:
            src = ""
        cur[rel] = len(re.findall(r"^\s*example\b", src, re.M))
        if cur[rel] < n:
            low[rel] = {"found": cur[rel], "committed_minimum": n}
    chk.oblige("non-vacuity examples present (%s)" % ", ".join("%s>=%d" % (os.path.basename(k), v) for k, v in sorted(expected.items())),
               "audit", not low, low or None)
    chk.extra["example_blocks"] = cur
    if low:
        chk.fail("non-vacuity examples", "%s:examples-removed:%s" % (prop_key_prefix, sorted(low)[0]),
                 "non-vacuity `example` blocks were removed (they record that the theorems' hypotheses are satisfiable)", low, False)
    return not low


def compare_config(chk, name, binary, prop_key_prefix, apis=("c", "cxx"), canon=False, model_blocks=None, model_h2f=None):
    """Exhaustive 2^32 + 2^16 comparison of one built configuration with the model.

    canon=True compares after mapping NaN results to sign|0x7e00 (half) /
    sign|0x7fc00000 (float) on BOTH sides (the model hashes come from
    `drv_half f2h_blocks 0 65536 1`): NaN-ness and sign must agree, the payload
    may differ.  `model_blocks` / `model_h2f` may be passed in (already in the
    requested canon form) so that several configurations share one model pass.
    Records obligations and failures on chk; returns the number of mismatches."""
    canon = bool(canon)
    if model_blocks is None:
        model_blocks = model_f2h_blocks(canon)
    if model_h2f is None:
        model_h2f = model_h2f_all(canon)
    c = "1" if canon else "0"
    tag = " (NaN payload canonicalised)" if canon else ""
    nbad = 0
    for api in apis:
        rc, out = lib.sh([binary, "f2h_blocks", "0", "65536", api, c], timeout=1800)
        impl = out.split()
        ok = rc == 0 and len(impl) == 65536 and len(model_blocks) == 65536 and impl == model_blocks
        chk.oblige("corr:%s:f2h:%s:all-2^32" % (name, api), "correspondence", ok)
        chk.count(1 << 32, (1 << 32) - 2)
        if not ok:
            bad = [i for i in range(65536) if impl[i] != model_blocks[i]] \
                if len(impl) == 65536 and len(model_blocks) == 65536 else []
            nbad += len(bad) or 1
            rep = {"config": name, "api": api, "nan_canonicalised": canon, "mismatching_blocks": len(bad),
                   "first_blocks": bad[:8], "harness_rc": rc, "harness_lines": len(impl), "model_lines": len(model_blocks)}
            key = "%s:f2h:%s" % (prop_key_prefix, name)
            found = False
            if bad:
                d = first_f2h_diff(binary, api, canon, bad[0])
                if d:
                    u, x, y = d
                    sp = halfspec.spec_f2h(u)
                    if canon:
                        sp = halfspec.canon16(sp)
                    rep.update({"float_bits": "0x%08x" % u, "implementation": "0x%04x" % x,
                                "model": "0x%04x" % y, "spec_rne16": "0x%04x" % sp,
                                "replay_cmd": "%s f2h_range %d %d %s %s" % (os.path.relpath(binary, lib.VERIF), u, u + 1, api, c)})
                    key = "%s:f2h:%s:0x%08x" % (prop_key_prefix, name, u)
                    found = True
            chk.fail("corr:%s:f2h:%s" % (name, api), key,
                     "float->half differs from the proven model in configuration %s (%s api)%s" % (name, api, tag), rep, found)
        if api == "asg":      # half::operator=(float): float->half only
            continue
        rc, out = lib.sh([binary, "h2f_all", api, c], timeout=600)
        impl = [int(x, 16) for x in out.split()]
        ok = rc == 0 and len(impl) == 65536 and impl == model_h2f
        chk.oblige("corr:%s:h2f:%s:all-2^16" % (name, api), "correspondence", ok)
        chk.count(1 << 16, (1 << 16) - 2)
        if not ok:
            nbad += 1
            d = [h for h in range(min(len(impl), len(model_h2f), 65536)) if impl[h] != model_h2f[h]]
            rep = {"config": name, "api": api, "nan_canonicalised": canon, "mismatches": len(d),
                   "harness_rc": rc, "harness_lines": len(impl)}
            key = "%s:h2f:%s" % (prop_key_prefix, name)
            if d:
                h = d[0]
                sp = halfspec.spec_h2f(h)
                rep.update({"half_bits": "0x%04x" % h, "implementation": "0x%08x" % impl[h], "model": "0x%08x" % model_h2f[h],
                            "spec_exact": "0x%08x" % (halfspec.canon32(sp) if canon else sp),
                            "replay_cmd": "%s h2f %x" % (os.path.relpath(binary, lib.VERIF), h)})
                key += ":0x%04x" % h
            chk.fail("corr:%s:h2f:%s" % (name, api), key,
                     "half->float differs from the proven model in configuration %s (%s api)%s" % (name, api, tag), rep, bool(d))
    return nbad

