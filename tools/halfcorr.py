"""Shared correspondence machinery for the half properties (C01/C02/C03)."""
import os, sys
sys.path.insert(0, os.path.dirname(os.path.abspath(__file__)))
import lib, halfspec

DRV = os.path.join(lib.LEAN, ".lake", "build", "bin", "drv_half")


def build_driver():
    rc, out = lib.lake_build(["drv_half"])
    return rc == 0, out


def model_f2h_blocks():
    rc, out = lib.sh([DRV, "f2h_blocks", "0", "65536"], timeout=1800)
    return out.split()


def model_h2f_all():
    rc, out = lib.sh([DRV, "h2f_all"], timeout=600)
    return [int(x, 16) for x in out.split()]


def first_f2h_diff(binary, api, canon, block):
    """Within a mismatching block find the first float whose conversion differs
    from the model; returns (float_bits, impl, model)."""
    lo, hi = block << 16, (block + 1) << 16
    rc, a = lib.sh([binary, "f2h_range", str(lo), str(hi), api, str(canon)], timeout=600)
    rc, b = lib.sh([DRV, "f2h_range", str(lo), str(hi)], timeout=600)
    a = [int(x, 16) for x in a.split()]
    b = [int(x, 16) for x in b.split()]
    if canon:
        b = [halfspec.canon16(x) for x in b]
    for i, (x, y) in enumerate(zip(a, b)):
        if x != y:
            return lo + i, x, y
    return None


def compare_config(chk, name, binary, prop_key_prefix, apis=("c", "cxx"), canon=0, model_blocks=None, model_h2f=None):
    """Exhaustive 2^32 + 2^16 comparison of one built configuration with the model.
    Records obligations and failures on chk; returns number of mismatching blocks."""
    model_blocks = model_blocks or model_f2h_blocks()
    model_h2f = model_h2f or model_h2f_all()
    nbad = 0
    for api in apis:
        if canon:
            # model hashes with NaN canonicalisation are obtained per block lazily: compare through ranges
            rc, out = lib.sh([binary, "f2h_blocks", "0", "65536", api, "1"], timeout=1800)
            rc2, ref = lib.sh([canon, "f2h_blocks", "0", "65536", "c", "1"], timeout=1800) if isinstance(canon, str) else (0, "")
            impl = out.split()
            refb = ref.split()
        else:
            rc, out = lib.sh([binary, "f2h_blocks", "0", "65536", api, "0"], timeout=1800)
            impl = out.split()
            refb = model_blocks
        ok = rc == 0 and len(impl) == 65536 and impl == refb
        chk.oblige("corr:%s:f2h:%s:all-2^32" % (name, api), "correspondence", ok)
        chk.count(1 << 32, (1 << 32) - 2)
        if not ok:
            bad = [i for i in range(min(len(impl), 65536)) if impl[i] != refb[i]] if len(impl) == 65536 else []
            nbad += len(bad) or 1
            rep = {"config": name, "api": api, "mismatching_blocks": len(bad), "first_blocks": bad[:8]}
            key = "%s:f2h:%s" % (prop_key_prefix, name)
            found = False
            if bad:
                d = first_f2h_diff(binary, api, 1 if canon else 0, bad[0])
                if d:
                    u, x, y = d
                    sp = halfspec.spec_f2h(u)
                    if canon:
                        sp = halfspec.canon16(sp)
                    rep.update({"float_bits": "0x%08x" % u, "implementation": "0x%04x" % x,
                                "model": "0x%04x" % y, "spec_rne16": "0x%04x" % sp,
                                "replay_cmd": "%s f2h %x" % (os.path.relpath(binary, lib.VERIF), u)})
                    key = "%s:f2h:%s:0x%08x" % (prop_key_prefix, name, u)
                    found = True
            chk.fail("corr:%s:f2h:%s" % (name, api), key,
                     "float->half differs from the proven model in configuration %s (%s api)" % (name, api), rep, found)
        rc, out = lib.sh([binary, "h2f_all", api, "1" if canon else "0"], timeout=600)
        impl = [int(x, 16) for x in out.split()]
        ref = [halfspec.canon32(x) for x in model_h2f] if canon else model_h2f
        ok = rc == 0 and impl == ref
        chk.oblige("corr:%s:h2f:%s:all-2^16" % (name, api), "correspondence", ok)
        chk.count(1 << 16, (1 << 16) - 2)
        if not ok:
            nbad += 1
            d = [h for h in range(min(len(impl), 65536)) if impl[h] != ref[h]]
            rep = {"config": name, "api": api, "mismatches": len(d)}
            key = "%s:h2f:%s" % (prop_key_prefix, name)
            if d:
                h = d[0]
                rep.update({"half_bits": "0x%04x" % h, "implementation": "0x%08x" % impl[h], "model": "0x%08x" % ref[h],
                            "spec_exact": "0x%08x" % halfspec.spec_h2f(h),
                            "replay_cmd": "%s h2f %x" % (os.path.relpath(binary, lib.VERIF), h)})
                key += ":0x%04x" % h
            chk.fail("corr:%s:h2f:%s" % (name, api), key,
                     "half->float differs from the proven model in configuration %s (%s api)" % (name, api), rep, bool(d))
    return nbad
