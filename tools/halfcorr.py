"""Shared correspondence machinery for the half properties (C01/C02/C03)."""
import os, sys
sys.path.insert(0, os.path.dirname(os.path.abspath(__file__)))
import lib, halfspec

DRV = os.path.join(lib.LEAN, ".lake", "build", "bin", "drv_half")


def build_driver():
    rc, out = lib.lake_build(["drv_half"])
    return rc == 0, out


def model_f2h_blocks(canon=False):
    """65,536 block hashes of the model's f2h over all 2^32 float patterns
    (canon: NaN results mapped to sign|0x7e00 before hashing)."""
    rc, out = lib.sh([DRV, "f2h_blocks", "0", "65536"] + (["1"] if canon else []), timeout=1800)
    return out.split()


def model_h2f_all(canon=False):
    rc, out = lib.sh([DRV, "h2f_all"], timeout=600)
    r = [int(x, 16) for x in out.split()]
    return [halfspec.canon32(x) for x in r] if canon else r


def first_f2h_diff(binary, api, canon, block):
    """Within a mismatching block find the first float whose conversion differs
    from the model; returns (float_bits, impl, model) or None."""
    lo, hi = block << 16, (block + 1) << 16
    c = "1" if canon else "0"
    rc, a = lib.sh([binary, "f2h_range", str(lo), str(hi), api, c], timeout=600)
    rc, b = lib.sh([DRV, "f2h_range", str(lo), str(hi), c], timeout=600)
    a = [int(x, 16) for x in a.split()]
    b = [int(x, 16) for x in b.split()]
    for i, (x, y) in enumerate(zip(a, b)):
        if x != y:
            return lo + i, x, y
    return None


def compare_config(chk, name, binary, prop_key_prefix, apis=("c", "cxx"), canon=False, model_blocks=None, model_h2f=None):
    """Exhaustive 2^32 + 2^16 comparison of one built configuration with the model.

    canon=True compares after mapping NaN results to sign|0x7e00 (half) /
    sign|0x7fc00000 (float) on BOTH sides (the model hashes come from
    `drv_half f2h_blocks 0 65536 1`): NaN-ness and sign must agree, the payload
    may differ.  `model_blocks` / `model_h2f` may be passed in (already in the
    requested canon form) so that several configurations share one model pass.
    Records obligations and failures on chk; returns the number of mismatches."""
    canon = bool(canon)
    if model_blocks is None:
        model_blocks = model_f2h_blocks(canon)
    if model_h2f is None:
        model_h2f = model_h2f_all(canon)
    c = "1" if canon else "0"
    tag = " (NaN payload canonicalised)" if canon else ""
    nbad = 0
    for api in apis:
        rc, out = lib.sh([binary, "f2h_blocks", "0", "65536", api, c], timeout=1800)
        impl = out.split()
        ok = rc == 0 and len(impl) == 65536 and len(model_blocks) == 65536 and impl == model_blocks
        chk.oblige("corr:%s:f2h:%s:all-2^32" % (name, api), "correspondence", ok)
        chk.count(1 << 32, (1 << 32) - 2)
        if not ok:
            bad = [i for i in range(65536) if impl[i] != model_blocks[i]] \
                if len(impl) == 65536 and len(model_blocks) == 65536 else []
            nbad += len(bad) or 1
            rep = {"config": name, "api": api, "nan_canonicalised": canon, "mismatching_blocks": len(bad),
                   "first_blocks": bad[:8], "harness_rc": rc, "harness_lines": len(impl), "model_lines": len(model_blocks)}
            key = "%s:f2h:%s" % (prop_key_prefix, name)
            found = False
            if bad:
                d = first_f2h_diff(binary, api, canon, bad[0])
                if d:
                    u, x, y = d
                    sp = halfspec.spec_f2h(u)
                    if canon:
                        sp = halfspec.canon16(sp)
                    rep.update({"float_bits": "0x%08x" % u, "implementation": "0x%04x" % x,
                                "model": "0x%04x" % y, "spec_rne16": "0x%04x" % sp,
                                "replay_cmd": "%s f2h_range %d %d %s %s" % (os.path.relpath(binary, lib.VERIF), u, u + 1, api, c)})
                    key = "%s:f2h:%s:0x%08x" % (prop_key_prefix, name, u)
                    found = True
            chk.fail("corr:%s:f2h:%s" % (name, api), key,
                     "float->half differs from the proven model in configuration %s (%s api)%s" % (name, api, tag), rep, found)
        rc, out = lib.sh([binary, "h2f_all", api, c], timeout=600)
        impl = [int(x, 16) for x in out.split()]
        ok = rc == 0 and len(impl) == 65536 and impl == model_h2f
        chk.oblige("corr:%s:h2f:%s:all-2^16" % (name, api), "correspondence", ok)
        chk.count(1 << 16, (1 << 16) - 2)
        if not ok:
            nbad += 1
            d = [h for h in range(min(len(impl), len(model_h2f), 65536)) if impl[h] != model_h2f[h]]
            rep = {"config": name, "api": api, "nan_canonicalised": canon, "mismatches": len(d),
                   "harness_rc": rc, "harness_lines": len(impl)}
            key = "%s:h2f:%s" % (prop_key_prefix, name)
            if d:
                h = d[0]
                sp = halfspec.spec_h2f(h)
                rep.update({"half_bits": "0x%04x" % h, "implementation": "0x%08x" % impl[h], "model": "0x%08x" % model_h2f[h],
                            "spec_exact": "0x%08x" % (halfspec.canon32(sp) if canon else sp),
                            "replay_cmd": "%s h2f %x" % (os.path.relpath(binary, lib.VERIF), h)})
                key += ":0x%04x" % h
            chk.fail("corr:%s:h2f:%s" % (name, api), key,
                     "half->float differs from the proven model in configuration %s (%s api)%s" % (name, api, tag), rep, bool(d))
    return nbad
