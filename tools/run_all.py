#!/usr/bin/env python3
"""Run every registered check (MANIFEST.json) at the given tier and seeds; print a summary table.
  run_all.py [--tier quick] [--seeds 1,2,3] [--only C01,C05] [--jobs 1]"""
import os, sys, json, subprocess, time, argparse
from concurrent.futures import ThreadPoolExecutor
V = os.path.dirname(os.path.dirname(os.path.abspath(__file__)))
ap = argparse.ArgumentParser()
ap.add_argument("--tier", default="quick"); ap.add_argument("--seeds", default="1"); ap.add_argument("--only", default=""); ap.add_argument("--jobs", type=int, default=1)
a = ap.parse_args()
man = json.load(open(os.path.join(V, "MANIFEST.json")))
ids = [c["property_id"] for c in man["checks"] if not a.only or c["property_id"] in a.only.split(",")]
def run(pid, seed):
    t = time.time()
    p = subprocess.run(["python3", "tools/check.py", pid, "--tier", a.tier, "--seed", str(seed)], cwd=V, stdout=subprocess.PIPE, stderr=subprocess.STDOUT, text=True)
    lines = p.stdout.strip().split("\n")
    v = [l for l in lines if l.startswith("VIOLATION")]
    k = [l for l in lines if l.startswith("KNOWN-FINDING")]
    return pid, seed, p.returncode, len(v), len(k), round(time.time() - t), (v[:3] if v else lines[-1:])
jobs = [(pid, int(s)) for s in a.seeds.split(",") for pid in ids]
with ThreadPoolExecutor(max_workers=a.jobs) as ex:
    for r in ex.map(lambda j: run(*j), jobs):
        print("%s seed=%d exit=%d violations=%d known=%d wall=%ds %s" % r, flush=True)
