#!/usr/bin/env python3
"""Pin, per extracted entry, WHICH numeric_limits constants / library functions its body reads (the `extra=` field of
lean/ImathVerif/Gen/index_<tag>.txt).  The emitted Lean definitions take these as POSITIONAL parameters and the theorems
quantify over every value of them, so `numeric_limits<T>::min()` silently replaced by `epsilon()` in a guard would keep every
theorem true: troute.regenerate compares the regenerated index with these pins.  Run by hand on a clean tree after adding
or changing extraction entries (never by a check):  python3 tools/pin_extras.py [tag ...]"""
import glob, json, os, sys
V = os.path.dirname(os.path.dirname(os.path.abspath(__file__)))
GEN = os.path.join(V, "lean", "ImathVerif", "Gen")
tags = sys.argv[1:]
for f in sorted(glob.glob(os.path.join(GEN, "index_*.txt"))):
    tag = os.path.basename(f)[6:-4]
    if tags and tag not in tags:
        continue
    pins = {}
    for l in open(f):
        if l.startswith("FN "):
            parts = [p.strip() for p in l[3:].split("|")]
            d = dict(p.partition("=")[::2] for p in parts[1:])
            pins[parts[0]] = d.get("extra", "")
    json.dump(pins, open(os.path.join(V, "tools", "pins", "extras_%s.json" % tag), "w"), indent=0, sort_keys=True)
    print(tag, len(pins), "entries,", sum(1 for v in pins.values() if v), "read limits/functions")
