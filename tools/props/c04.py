"""C04 — aggregates are component-wise (T-route).

Translator: harness/sym/sym_c04.cpp instantiates the real templates at T = Sym
and emits lean/ImathVerif/Gen/C04*.lean on every run; Props/C04*.lean are
re-elaborated against them, and EVERY extracted entry must have its theorem.
Translator validation compares the extracted trees with the real instantiations
at all seven element types, bit for bit (equalWith* in the promoted type, division
with zeros / inf / NaN at the floating types, conversions at four narrowing
pairs against the scalar static_cast); static layout and interop-selection
assertions are compiled against the current headers; the stream-output clause is
run end to end on the real element types."""
import os, re, struct, sys
import lib, troute
sys.path.insert(0, os.path.dirname(os.path.abspath(__file__)))
import c04_headers

IMPORTS = ["ImathVerif.Basic.Maps", "ImathVerif.Gen.C04Vec", "ImathVerif.Gen.C04Color", "ImathVerif.Gen.C04Shear",
           "ImathVerif.Gen.C04Quat", "ImathVerif.Gen.C04Mat"]
PROPS_OF_MODULE = {"C04Show": "ImathVerif.Props.C04Show", "C04Alias": "ImathVerif.Props.C04Alias"}   # every other Gen module: Props.C04
LAYOUT_PER_TYPE, YES_PER_TYPE, NO_PER_TYPE = 39, 15, 35   # static_asserts per element type in corr/c04_layout.cpp (floors; the macros count themselves)
N_ENTRIES = 456              # extraction entries when this check was last extended (floor)
CONSTEVAL_MIN = 108          # Vec2/3/4 x (2+3+4 indices) x 2 evaluation modes x 6 element types
SHOWCHECK_MIN = 720          # 10 types x 6 non-character element types x 3 stream states x 4 value variants
ELEMENT_TYPES = ["double", "float", "half", "int", "int64", "short", "uchar"]
CAST_PAIRS = ["double>float", "float>half", "double>int", "int>uchar"]


def theorem_name(entry):
    return entry.replace(".", "_")


def f32(x):
    return struct.unpack("f", struct.pack("f", x))[0]


def run(chk):
    chk.trusted = ["Lean 4.33 kernel; axioms propext/Classical.choice/Quot.sound at most",
                   "translator harness/sym (Sym operator overloads + Lean emitter), validated on every run by TV at 7 element types",
                   "g++ instantiating the real templates at T = Sym means the same as at the element types up to the scalar operators (TV checks)",
                   "harness/sym/ops_c04.h generators and the two-type evaluator of the conversion entries (slot casts only; anything else is a failure)",
                   "scalar equalWithAbsError / equalWithRelError (ImathMath.h:148-167) are NOT extracted in C04: sym.h overloads them for Sym by hand "
                   "(ABSDIFF(x1,x2) <= e [* ABS x1]); that this reading is the source is the business of C17 (Props/C17.lean gen_equalWithAbsError / "
                   "gen_equalWithRelError, extracted through the explicit-<T> call) and, inside C04, only of TV (sampled, 7 element types)",
                   "tools/props/c04_headers.py: the declaration parser and the rule table mapping header declarations to entries / named exclusions"]
    chk.assumptions = ["the scalar operators of each element type (incl. integer promotion, half's float round trip) are what 'the scalar operation' means",
                       "equalWithAbs/RelError: C++ evaluates the comparison in the promoted type (int for short/unsigned char, float for half); the "
                       "theorems' scalar type is that type there, and TV evaluates the tree in it",
                       "==, != : the theorems `Gen.X.eq a b = true <-> a = b` are over Lean equality. For the integer element types that IS the scalar ==. "
                       "For float/double/half the scalar == is not equality (NaN != NaN, +0 == -0): there the theorems establish the SHAPE (the conjunction "
                       "over every slot of the scalar comparison, no slot skipped or repeated), and what the scalar comparison does at NaN and signed zeros "
                       "is decided by TV alone (twins with NaN against itself and +0 against -0 in every slot, bitwise on the Boolean; sampled)",
                       "`*.showKeepsState` are run-time observations at T = Sym recorded as the literal `true` (four stream states), re-observed by TV at "
                       "the 7 element types and by showcheck; they are not proofs about the source text",
                       "int / int64: signed overflow is undefined, so wrap-around is not exercised; extremes are exercised wherever no intermediate "
                       "result overflows. short / unsigned char: full range incl. wrap on store",
                       "'component-wise cast' = the scalar static_cast S -> T applied to each slot; the theorems hold for any function `cast`",
                       "stream output: right adjustment, space fill, no pending width (three stream states: default, fixed/precision 3, scientific/precision 9); "
                       "a matrix element's 'own printed form' is its form under the flags the matrix operator sets (scientific unless fixed, showpoint)",
                       "not covered: operator== / != / scalar * with an operand of a DIFFERENT element type (S != T: mixed arithmetic in the common type)"]
    chk.rule = ("every registered (type, operator, spelling) entry is path-extracted from the current headers and must have a theorem named after it; "
                "TV inputs: small integers, reals, unit vectors, signed zeros, float extremes, NaN/inf (branch-free entries), full-range values for "
                "short/uchar, int/int64 extremes that do not overflow (branch-free entries, ==, !=, equalWith*); equalWith*: twins (equal / one slot differing / within or just beyond e), every leaf of every tree reached; division at "
                "double/float/half: +-0, +-inf, NaN, denormal, max in both operands; conversions: rounding ties, denormals, overflow, truncation, wrap; "
                "non-trivial = TV evaluation whose inputs are not all equal")
    bins = troute.build_extractors(chk, [dict(name="sym_c04", source="sym/sym_c04.cpp", half=True),
                                         dict(name="c04_layout", source="corr/c04_layout.cpp", half=True)])
    if bins.get("c04_layout"):
        rc, out = lib.sh([bins["c04_layout"]])
        m = re.search(r"(\d+) layout assertions, (\d+) positive and (\d+) negative interop-selection assertions", out)
        # the harness's macros count themselves (one increment per compiled static_assert); the same macros are counted in the source text
        src = open(os.path.join(lib.VERIF, "harness", "corr", "c04_layout.cpp")).read()
        body = src[src.index("static void run ()"):src.index("int main ()")]
        n_lay = len(re.findall(r"\b(?:LAY|OFF) \(", body)); n_yes = len(re.findall(r"\bYES \(", body)); n_no = len(re.findall(r"\bNO \(", body))
        got = tuple(int(x) for x in m.groups()) if m else (0, 0, 0)
        ok = (rc == 0 and m is not None and got == (7 * n_lay, 7 * n_yes, 7 * n_no)
              and n_lay >= LAYOUT_PER_TYPE and n_yes >= YES_PER_TYPE and n_no >= NO_PER_TYPE and "static_assert" not in body)
        name = ("layout: sizeof/offsetof/standard_layout for every (type, element type); interop constructors/assignments selected exactly for the "
                "right element type and count (%d layout + %d positive + %d negative static_asserts per element type, counted)" % (n_lay, n_yes, n_no))
        chk.oblige(name, "static-assert", ok, out[-300:])
        chk.extra["layout_asserts"] = {"printed": out.strip().split("\n")[-1], "macro_uses_in_source_per_element_type": [n_lay, n_yes, n_no]}
        if not ok:
            chk.fail(name, "layout:harness", "the layout harness compiled and ran, but the number of assertions it executed (%s) is not 7 x the number of "
                     "assertion macros in its source (%s), or is below the floor %s" % (got, (n_lay, n_yes, n_no), (LAYOUT_PER_TYPE, YES_PER_TYPE, NO_PER_TYPE)),
                     {"output": out[-500:]}, False)
    # build-configuration dimension: the C++23-only `if consteval` bodies of Vec2/3/4::operator[] const
    ok, cebin, celog = lib.cxx_build("c04_consteval", ["corr/c04_consteval.cpp"],
                                     lang_flags=["-std=c++23", "-O1", "-I" + os.path.join(lib.REPO, "src", "Imath"), "-I" + lib.imath_config_dir()])
    chk.oblige("build:c04_consteval (-std=c++23)", "build", ok, None if ok else celog[-800:])
    if not ok:
        chk.fail("build:c04_consteval (-std=c++23)", "build:c04_consteval", "the headers no longer compile as C++23 (or the harness is stale)",
                 {"compiler_errors": [l for l in celog.split("\n") if "error" in l][:10]}, False)
    else:
        rc, out = lib.sh([cebin])
        bad = [l for l in out.split("\n") if l.startswith("CONSTEVAL-FAIL")]
        m = re.search(r"(\d+) subscript evaluations", out)
        n_eval = int(m.group(1)) if m else 0
        name = "consteval: v[i] in constant evaluation = run-time v[i] = i-th named member (Vec2/3/4 x 6 element types, C++23; >= %d evaluations)" % CONSTEVAL_MIN
        chk.oblige(name, "correspondence", rc == 0 and not bad and n_eval >= CONSTEVAL_MIN, out[-300:])
        chk.extra["consteval"] = out.strip().split("\n")[-1]
        chk.count(n_eval, n_eval)
        if bad or rc != 0:
            chk.fail(name, "consteval:" + (bad[0].split(" index ")[0].replace("CONSTEVAL-FAIL ", "") if bad else "harness"),
                     "operator[] const evaluated in a constant expression (C++23 `if consteval` body) does not return the i-th member",
                     {"mismatches": bad[:12], "replay_cmd": "g++ -std=c++23 -O1 -I<repo>/src/Imath -I<cfg> harness/corr/c04_consteval.cpp && ./a.out"}, bool(bad))
        elif n_eval < CONSTEVAL_MIN:
            chk.fail(name, "consteval:vacuous", "the consteval harness ran %d subscript evaluations (< %d): the compiler does not define __cpp_if_consteval "
                     "or the harness lost cases, so the C++23 bodies were not exercised" % (n_eval, CONSTEVAL_MIN), {"output": out[-400:]}, False)
    if not bins.get("sym_c04"):
        return
    index, changed = troute.regenerate(chk, bins["sym_c04"], "c04")
    stats_file = os.path.join(lib.BUILD, "c04_tvstats_%d.txt" % os.getpid())
    os.environ["C04_STATS_FILE"] = stats_file
    try:
        tv_ok = troute.tv(chk, bins["sym_c04"], "c04", 400 if chk.thorough else 64)
    finally:
        os.environ.pop("C04_STATS_FILE", None)
    stats = {}
    if os.path.exists(stats_file):
        for l in open(stats_file):
            k, _, v = l.strip().partition("=")
            if v.lstrip("-").isdigit():
                stats[k] = int(v)
        os.remove(stats_file)
    chk.extra["tv_generator_hits"] = stats
    # generator reach, as obligations with hit counts
    per_type = (chk.extra.get("tv", {}).get("c04", {}) or {}).get("per_type", {})
    n_entries = len(index)
    n_cast = sum(1 for d in index if "cast" in (d.get("extra") or "").split(","))

    def reach(name, ok, detail, key, what):
        chk.oblige(name, "generator-reach", ok, detail)
        if not ok:
            chk.fail(name, key, what, {"hit_counts": detail}, False)
    got_types = dict((t, int(v)) for t, v in per_type.items())
    reach("tv-reach: every entry validated at all seven element types (conversion entries at the four narrowing pairs)",
          # (a validator stops at an entry's first failing input: the counts are only comparable when TV itself passed)
          not tv_ok or (all(got_types.get(t, 0) > 0 for t in ELEMENT_TYPES + CAST_PAIRS) and len(set(got_types.get(t, 0) for t in ("double", "float", "half", "short", "uchar"))) == 1
                        and got_types.get("int", 0) == got_types.get("int64", -1) > got_types.get("short", 0)),
          got_types, "tv-reach:element-types", "an element type is missing from translator validation or entries are validated at fewer types than others")
    eq = dict((t, (stats.get("eqerr.%s.true" % t, 0), stats.get("eqerr.%s.false" % t, 0))) for t in ELEMENT_TYPES)
    reach("tv-reach: equalWithAbs/RelError take both outcomes at each of the seven element types, every leaf of all %d trees is reached, "
          "short/uchar operands whose difference wraps in T, NaN/inf at the floating types" % stats.get("eqerr.entries", 0),
          all(a >= 50 and b >= 50 for a, b in eq.values()) and stats.get("eqerr.entries", 0) == 14
          and stats.get("eqerr.entries_with_every_leaf_reached", -1) == stats.get("eqerr.entries", 0)
          and all(stats.get("eqerr.%s.difference_wraps_in_T" % t, 0) >= 20 for t in ("short", "uchar"))
          and all(stats.get("eqerr.%s.naninf" % t, 0) >= 20 for t in ("double", "float", "half")),
          dict((k, v) for k, v in stats.items() if k.startswith("eqerr.")), "tv-reach:equalWith",
          "the equalWith* generator no longer reaches both outcomes / every leaf / the wrapping operands at every element type")
    paths = getattr(chk, "tv_paths", {}).get("c04", {})
    partial = sorted("%s %d/%d" % (k, v[0], v[1]) for k, v in paths.items() if v[0] != v[1])
    reach("tv-reach: every leaf of every branching tree (==, !=, equalWithAbs/RelError: %d trees, %d leaves) is reached by the twin generators"
          % (len(paths), sum(v[1] for v in paths.values())),
          len(paths) >= 32 and not partial and all(stats.get("eq.%s.%s" % (t, c), 0) >= 50 for t in ("double", "float", "half")
                                                   for c in ("plus_zero_vs_minus_zero", "nan_vs_itself")),
          partial[:10] or dict((k, v) for k, v in stats.items() if k.startswith("eq.")), "tv-reach:leaves",
          "some leaves of the comparison trees are no longer reached by translator validation (a translator slip there would be invisible)")
    reach("tv-reach: division entries see zero, infinite and NaN operands at double, float and half",
          all(stats.get("div.%s.%s" % (t, c), 0) >= 100 for t in ("double", "float", "half") for c in ("zero", "inf", "nan")),
          dict((k, v) for k, v in stats.items() if k.startswith("div.")), "tv-reach:division",
          "the division generator no longer feeds +-0 / inf / NaN at the floating element types")
    reach("tv-reach: every branch-free entry is also run at int and int64 on extreme operands (max, min, +-2^(bits/2), any bit pattern) that keep every "
          "intermediate result in range (checked node by node in 128-bit arithmetic); ==, != and equalWith* see integer extremes too",
          all(stats.get("intx.%s.branch_free_entries" % t, 0) >= 300
              and stats.get("intx.%s.branch_free_entries_with_extreme_inputs" % t, -1) == stats.get("intx.%s.branch_free_entries" % t, 0)
              and stats.get("eq.%s.integer_extremes" % t, 0) >= 100 and stats.get("eqerr.%s.integer_extremes" % t, 0) >= 50 for t in ("int", "int64")),
          dict((k, v) for k, v in stats.items() if k.startswith("intx.") or k.endswith("integer_extremes")), "tv-reach:integer-extremes",
          "int / int64 entries are no longer validated on extreme operands")
    reach("tv-reach: conversion entries see inputs the cast changes (rounding, truncation, wrap) at each narrowing pair",
          all(stats.get("cast.%s.with_an_inexact_slot" % p, 0) >= 100 and stats.get("cast.%s.evaluations" % p, 0) >= 32 * n_cast for p in CAST_PAIRS),
          dict((k, v) for k, v in stats.items() if k.startswith("cast.")), "tv-reach:conversions",
          "the conversion generator no longer produces inputs on which the scalar cast is not the identity")
    troute.lean_tv(chk, bins["sym_c04"], "c04", index, n=6 if chk.thorough else 2)

    # stream output, end to end on the real element types (standing check, not only after a theorem failed)
    rc, out = lib.sh([bins["sym_c04"], "showcheck", str(chk.seed)], timeout=600)
    m = re.search(r"SHOWCHECK cases=(\d+) tokens=(\d+) failures=(\d+) uchar_cases=(\d+) uchar_with_non_token_components=(\d+)", out)
    sfails = [l for l in out.split("\n") if l.startswith("SHOW-FAIL")]
    name = ("show-e2e: text printed by the real operator<< tokenises to one token per component, in order, each equal to the component's own "
            "printed form (10 types x 6 non-character element types x 3 stream states x 4 values; proper tokens; layout; stream state restored)")
    ok = rc == 0 and m is not None and int(m.group(3)) == 0 and not sfails and int(m.group(1)) >= SHOWCHECK_MIN
    chk.oblige(name, "correspondence", ok, (sfails[:3] or out[-300:]) if not ok else None)
    if m:
        chk.count(int(m.group(1)), int(m.group(1)))
        chk.extra["show_e2e"] = {"cases": int(m.group(1)), "tokens": int(m.group(2)), "failures": int(m.group(3)),
                                 "unsigned_char_cases_reported_only": int(m.group(4)),
                                 "unsigned_char_cases_with_a_component_that_is_not_a_token": int(m.group(5))}
    seen = set()
    for l in sfails:
        mm = re.match(r"SHOW-FAIL (\S+?)<(\S+?)> state=(\d) :: (.*?) :: text=(.*?) :: tokens=(.*?) :: components_printed_alone=(.*)", l)
        if not mm:
            continue
        ty, el, st, why, text, toks, alone = mm.groups()
        key = "show-e2e:%s:%s" % (ty, ["default", "fixed", "scientific"][int(st)])
        if key in seen:
            continue
        seen.add(key)
        chk.fail(name, key, "%s<%s> printed through operator<<: %s" % (ty, el, why),
                 {"type": ty, "element_type": el, "stream_state": ["default", "fixed precision 3", "scientific precision 9"][int(st)],
                  "printed_text": text, "tokens": toks, "components_printed_alone": alone,
                  "replay_cmd": ".build/bin/sym_c04 showcheck %d" % chk.seed}, True)
    if not ok and not sfails:
        chk.fail(name, "show-e2e:harness", "the end-to-end stream-output check did not run to completion or ran too few cases", {"output": out[-600:]}, False)

    # ---- theorems: one per extracted entry, required
    required = {"ImathVerif.Props.C04": [], "ImathVerif.Props.C04Show": [], "ImathVerif.Props.C04Alias": []}
    for d in index:
        required[PROPS_OF_MODULE.get(d.get("module"), "ImathVerif.Props.C04")].append(theorem_name(d["name"]))
    # lemmas that are not entries but part of what is claimed (left scalar of Quat / Matrix for a commutative scalar; bridges to |x - y|)
    required["ImathVerif.Props.C04"] += ["Quat_smul_left", "M22_smul_left", "M33_smul_left", "M44_smul_left", "sabsdiff_eq_abs", "sabs_eq_abs"]
    declared = {}
    for mod in required:
        declared[mod] = set(n for (n, _, _) in lib.theorems_in(os.path.join(lib.LEAN, *mod.split(".")) + ".lean"))
    missing = [(d["name"], PROPS_OF_MODULE.get(d.get("module"), "ImathVerif.Props.C04")) for d in index
               if theorem_name(d["name"]) not in declared[PROPS_OF_MODULE.get(d.get("module"), "ImathVerif.Props.C04")]]
    entry_names = set(theorem_name(d["name"]) for d in index)
    name = "coverage: every one of the %d extracted entries has a theorem named after it in its Props file" % len(index)
    chk.oblige(name, "coverage", not missing and len(index) >= N_ENTRIES, [m_[0] for m_ in missing][:20] or None)
    chk.extra["theorems_without_entry"] = sorted(n for mod in declared for n in declared[mod] if n not in entry_names)[:40]
    for en, mod in missing:
        chk.fail(name, "missing:" + theorem_name(en), "extracted entry %s has no theorem %s in %s" % (en, theorem_name(en), mod), {"entry": en}, False)
    if len(index) < N_ENTRIES and not missing:
        chk.fail(name, "coverage:entries", "the extraction table shrank to %d entries (%d when this check was last extended)" % (len(index), N_ENTRIES), {}, False)
    # (a missing theorem is reported by check_theorems through `required=` with key missing:<name>)
    # the theorem named after an entry must be ABOUT that entry: its statement mentions `Gen.<entry>` exactly once and nothing else from Gen
    # (the statements themselves are pinned by the generic statement-pin mechanism of lib.check_theorems)
    off = []
    for mod in required:
        stm = lib.theorem_statements(os.path.join(lib.LEAN, *mod.split(".")) + ".lean")
        for d in index:
            if PROPS_OF_MODULE.get(d.get("module"), "ImathVerif.Props.C04") != mod:
                continue
            st = stm.get(theorem_name(d["name"]))
            if st is None:
                continue
            gens = re.findall(r"Gen\.([A-Za-z0-9_]+\.[A-Za-z0-9_]+)", st)
            if gens != [d["name"]]:
                off.append((d["name"], gens))
    name = "coverage: the theorem of every entry mentions `Gen.<entry>` exactly once and no other extracted definition (no Gen-vs-Gen statement)"
    chk.oblige(name, "coverage", not off, off[:10] or None)
    for en, gens in off[:20]:
        chk.fail(name, "coverage:statement:" + theorem_name(en), "theorem %s does not state a fact about Gen.%s alone (it mentions %s)" % (theorem_name(en), en, gens),
                 {"entry": en, "mentions": gens}, False)
    # entries that were pinned (tools/pins/extras_c04.json) and are gone: an entry swapped for another keeps the count
    import json
    pp = os.path.join(lib.VERIF, "tools", "pins", "extras_c04.json")
    pinned = set(json.load(open(pp))) if os.path.exists(pp) else set()
    gone = sorted(pinned - set(d["name"] for d in index))
    name = "coverage: no pinned extraction entry has disappeared (%d pinned)" % len(pinned)
    chk.oblige(name, "coverage", not gone and len(pinned) > 0, gone[:10] or None)
    for en in gone[:20]:
        chk.fail(name, "coverage:entry-gone:" + en, "extraction entry %s is pinned in tools/pins/extras_c04.json but no longer extracted" % en, {"entry": en}, False)

    # ---- header <-> table: every declaration of the anchored class bodies / free operators maps to entries or to a named exclusion
    try:
        hd = c04_headers.check(os.path.join(lib.REPO, "src", "Imath"), set(d["name"] for d in index))
    except Exception as ex:
        hd = None
        name = "coverage-header: declarations of the anchored headers could be read"
        chk.oblige(name, "coverage", False, repr(ex))
        chk.fail(name, "coverage:header:parse", "the class bodies of the anchored headers could not be parsed (%r)" % ex, {}, False)
    if hd:
        orphans = sorted(set(d["name"] for d in index) - hd["used_entries"])
        okh = not hd["unmapped"] and not hd["missing_entries"] and not orphans and hd["declarations"] >= 542
        name = ("coverage-header: each of the %d member / constructor / operator declarations of Vec2/3/4, Color3/4, Shear6, Quat, Matrix22/33/44 and free "
                "operators of the five headers maps to extraction entries (%d) or to a named exclusion (%d); every entry is the target of a declaration"
                % (hd["declarations"], hd["mapped"], hd["excluded"]))
        chk.oblige(name, "coverage", okh, (hd["unmapped"][:8] + hd["missing_entries"][:8] + orphans[:8]) or None)
        chk.extra["header_table"] = {"declarations": hd["declarations"], "mapped_to_entries": hd["mapped"], "named_exclusions": hd["exclusions"],
                                     "if_consteval_bodies": hd["consteval"]}
        for cls, dcl in hd["unmapped"][:20]:
            chk.fail(name, "coverage:header:%s:%s" % (cls, re.sub(r"\s+", "_", dcl)[:60]),
                     "%s declares `%s`, which maps to no extraction entry and to no named exclusion (tools/props/c04_headers.py RULES): a new or changed "
                     "member is not covered by C04" % (cls, dcl), {"class": cls, "declaration": dcl}, False)
        for cls, dcl, en in hd["missing_entries"][:20]:
            chk.fail(name, "coverage:header-entry:" + en, "`%s` of %s should be exercised by extraction entry %s, which does not exist" % (dcl, cls, en),
                     {"class": cls, "declaration": dcl, "entry": en}, False)
        for en in orphans[:20]:
            chk.fail(name, "coverage:entry-without-declaration:" + en, "extraction entry %s is not the target of any header declaration in the rule table" % en, {}, False)
        if okh is False and not (hd["unmapped"] or hd["missing_entries"] or orphans):
            chk.fail(name, "coverage:header:declarations", "only %d declarations were found in the anchored headers (542 when this check was written)" % hd["declarations"], {}, False)
        cls_ok = hd["classes"] == dict((f, c) for f, c in c04_headers.CLASSES)
        ce_ok = hd["consteval"] == c04_headers.IF_CONSTEVAL
        name = "coverage-header: the anchored headers define exactly the ten aggregate classes, and exactly the 3 `if consteval` bodies the consteval harness exercises"
        chk.oblige(name, "coverage", cls_ok and ce_ok, None if (cls_ok and ce_ok) else {"classes": hd["classes"], "if_consteval": hd["consteval"]})
        if not cls_ok:
            chk.fail(name, "coverage:header:classes", "the set of aggregate classes in the anchored headers changed", {"classes": hd["classes"]}, False)
        if not ce_ok:
            chk.fail(name, "coverage:header:if-consteval", "the number of `if consteval` bodies per header changed (a constant-evaluation body that "
                     "corr/c04_consteval.cpp does not exercise)", {"found": hd["consteval"], "expected": c04_headers.IF_CONSTEVAL}, False)

    def search_cast(name_):
        # conversion theorems: replay pairwise distinct, non-float-representable numbers at double -> float and compare slot by slot
        fn = name_.replace("_", ".", 1)
        d = next((x for x in index if x["name"] == fn), None)
        if not d:
            return None
        params = [p.partition(":") for p in (d.get("params") or "").split(",") if p]
        kind = fn.split(".")[1]
        src_name = "b" if kind.startswith("narrowSet") else "a"
        vals, src_vals, k = [], [], 0
        for pn, _, sh in params:
            for _ in range(troute.ARITY[sh].count("%s")):
                k += 1
                v = k + 0.1 + k * 2.0 ** -30
                vals.append(v)
                if pn == src_name:
                    src_vals.append(v)
        rc_, o = lib.sh([bins["sym_c04"], "real", fn] + ["%r" % v for v in vals])
        mm = re.search(r"vals=([-0-9.e+ infa]*?)ints=", o)
        if not mm:
            return None
        got = [float(x) for x in mm.group(1).split()]
        exp = [f32(x) for x in src_vals]
        if fn == "V4.narrowFromV3":
            exp = exp + [1.0]
        if fn == "Shear6.narrowFromV3":
            exp = (exp + [0.0, 0.0, 0.0]) * 2
        if got == exp:
            return None
        return {"key": "theorem:" + name_, "function": fn, "element_types": "double -> float", "inputs_in_parameter_order": vals,
                "real_code_result": got, "slotwise_static_cast_of_the_source": exp, "real_code_at_double": o.strip().split("\n")[-1]}

    def search(name_):
        if "_narrow" in name_:
            return search_cast(name_)
        return troute.lean_search(chk, "ImathVerif.Props.C04", name_, IMPORTS, ["ImathVerif"], binary=bins["sym_c04"])
    chk.check_theorems("ImathVerif.Props.C04", required=required["ImathVerif.Props.C04"], search=search)

    def search_show(name_):
        # executable form of the stream-output statement: print a value with distinct components through the
        # real operator<< and tokenise on whitespace / parentheses: one token per component, in order
        ty, _, st = name_.partition("_")
        n = {"V2": 2, "V3": 3, "V4": 4, "C3": 3, "C4": 4, "Shear6": 6, "Quat": 4, "M22": 4, "M33": 9, "M44": 16}.get(ty)
        if not n:
            return None
        vals = [str(k + 1) for k in range(n)]
        rc_, o = lib.sh([bins["sym_c04"], "real", "%s.%s" % (ty, st)] + vals)
        if st == "showKeepsState":
            mm = re.search(r"ints=(\d+)", o)
            if mm and mm.group(1) == "0":
                return {"key": "theorem:" + name_, "value_components": vals, "real_code_at_double": o.strip().split("\n")[-1],
                        "what": "after `os << value` the stream's flags / precision / fill / width differ from before"}
            return None
        m_ = re.search(r"text=(.*)", o)
        if not m_:
            return None
        text = m_.group(1).replace("\\n", "\n")
        toks = [t for t in re.split(r"[\s()]+", text) if t]
        ok_ = len(toks) == n and all(abs(float(t) - (k + 1)) < 1e-9 for k, t in enumerate(toks))
        if ok_:
            return None
        return {"key": "theorem:" + name_, "value_components": vals, "printed_by_real_operator<<": m_.group(1),
                "tokens": toks, "expected_token_count": n}
    chk.check_theorems("ImathVerif.Props.C04Show", required=required["ImathVerif.Props.C04Show"], search=search_show)

    def search_alias(name_):
        return troute.lean_search(chk, "ImathVerif.Props.C04Alias", name_, ["ImathVerif.Basic.Maps", "ImathVerif.Gen.C04Alias"],
                                  ["ImathVerif"], binary=bins["sym_c04"])
    chk.check_theorems("ImathVerif.Props.C04Alias", required=required["ImathVerif.Props.C04Alias"], search=search_alias)
    per = {}
    for d in index:
        per[d["name"].split(".")[0]] = per.get(d["name"].split(".")[0], 0) + 1
    chk.extra["entries_per_type"] = per
    for d in index[:6]:
        chk.sample({"entry": d["name"], "paths": d.get("paths"), "classes": d.get("cls")})
    if chk.thorough:
        chk.leanchecker("ImathVerif.Props.C04")
        chk.leanchecker("ImathVerif.Props.C04Show")
        chk.leanchecker("ImathVerif.Props.C04Alias")
