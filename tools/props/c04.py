"""C04 — aggregates are component-wise (T-route).

Translator: harness/sym/sym_c04.cpp instantiates the real templates at T = Sym
and emits lean/ImathVerif/Gen/C04*.lean on every run; Props/C04.lean is
re-elaborated against them.  Translator validation compares the extracted
trees with the real instantiations at all seven element types, bit for bit;
static layout assertions are compiled against the current headers."""
import os
import lib, troute

IMPORTS = ["ImathVerif.Basic.Maps", "ImathVerif.Gen.C04Vec", "ImathVerif.Gen.C04Color", "ImathVerif.Gen.C04Shear",
           "ImathVerif.Gen.C04Quat", "ImathVerif.Gen.C04Mat"]


def run(chk):
    chk.trusted = ["Lean 4.33 kernel; axioms propext/Classical.choice/Quot.sound at most",
                   "translator harness/sym (Sym operator overloads + Lean emitter), validated on every run by TV at 7 element types",
                   "g++ instantiating the real templates at T = Sym means the same as at the element types up to the scalar operators (TV checks)"]
    chk.assumptions = ["the scalar operators of each element type (incl. integer promotion, half's float round trip) are what 'the scalar operation' means"]
    chk.rule = ("every registered (type, operator, spelling) entry is path-extracted from the current headers; TV inputs: small integers, "
                "reals, unit vectors, signed zeros, extremes, NaN/inf (branch-free entries), full-range values for short/uchar; "
                "non-trivial = every TV evaluation (all have non-constant inputs)")
    bins = troute.build_extractors(chk, [dict(name="sym_c04", source="sym/sym_c04.cpp", half=True),
                                         dict(name="c04_layout", source="corr/c04_layout.cpp", half=True)])
    if bins.get("c04_layout"):
        rc, out = lib.sh([bins["c04_layout"]])
        chk.oblige("layout: sizeof/offsetof/standard_layout for every (type, element type)", "static-assert", rc == 0, out[-300:])
        chk.extra["layout_asserts"] = out.strip().split("\n")[-1]
    # build-configuration dimension: the C++23-only `if consteval` bodies of Vec2/3/4::operator[] const
    ok, cebin, celog = lib.cxx_build("c04_consteval", ["corr/c04_consteval.cpp"],
                                     lang_flags=["-std=c++23", "-O1", "-I" + os.path.join(lib.REPO, "src", "Imath"), "-I" + lib.imath_config_dir()])
    chk.oblige("build:c04_consteval (-std=c++23)", "build", ok, None if ok else celog[-800:])
    if not ok:
        chk.fail("build:c04_consteval (-std=c++23)", "build:c04_consteval", "the headers no longer compile as C++23 (or the harness is stale)",
                 {"compiler_errors": [l for l in celog.split("\n") if "error" in l][:10]}, False)
    else:
        rc, out = lib.sh([cebin])
        bad = [l for l in out.split("\n") if l.startswith("CONSTEVAL-FAIL")]
        name = "consteval: v[i] in constant evaluation = run-time v[i] = i-th named member (Vec2/3/4 x 6 element types, C++23)"
        chk.oblige(name, "correspondence", rc == 0 and not bad, out[-300:])
        chk.extra["consteval"] = out.strip().split("\n")[-1]
        if bad or rc != 0:
            chk.fail(name, "consteval:" + (bad[0].split(" index ")[0].replace("CONSTEVAL-FAIL ", "") if bad else "harness"),
                     "operator[] const evaluated in a constant expression (C++23 `if consteval` body) does not return the i-th member",
                     {"mismatches": bad[:12], "replay_cmd": "g++ -std=c++23 -O1 -I<repo>/src/Imath -I<cfg> harness/corr/c04_consteval.cpp && ./a.out"}, bool(bad))
    if not bins.get("sym_c04"):
        return
    index, changed = troute.regenerate(chk, bins["sym_c04"], "c04")
    troute.tv(chk, bins["sym_c04"], "c04", 400 if chk.thorough else 64)
    troute.lean_tv(chk, bins["sym_c04"], "c04", index, n=6 if chk.thorough else 2)

    def search(name):
        return troute.lean_search(chk, "ImathVerif.Props.C04", name, IMPORTS, ["ImathVerif"], binary=bins["sym_c04"])
    chk.check_theorems("ImathVerif.Props.C04", search=search)

    def search_show(name):
        # executable form of the stream-output statement: print a value with distinct components through the
        # real operator<< and tokenise on whitespace / parentheses: one token per component, in order
        import re
        ty, _, st = name.partition("_")
        n = {"V2": 2, "V3": 3, "V4": 4, "C3": 3, "C4": 4, "Shear6": 6, "Quat": 4, "M22": 4, "M33": 9, "M44": 16}.get(ty)
        if not n:
            return None
        vals = [str(k + 1) for k in range(n)]
        rc, out = lib.sh([bins["sym_c04"], "real", "%s.%s" % (ty, st)] + vals)
        m = re.search(r"text=(.*)", out)
        if not m:
            return None
        text = m.group(1).replace("\\n", "\n")
        toks = [t for t in re.split(r"[\s()]+", text) if t]
        ok = len(toks) == n and all(abs(float(t) - (k + 1)) < 1e-9 for k, t in enumerate(toks))
        if ok:
            return None
        return {"key": "theorem:" + name, "value_components": vals, "printed_by_real_operator<<": m.group(1),
                "tokens": toks, "expected_token_count": n}
    chk.check_theorems("ImathVerif.Props.C04Show", search=search_show)

    def search_alias(name):
        return troute.lean_search(chk, "ImathVerif.Props.C04Alias", name, ["ImathVerif.Basic.Maps", "ImathVerif.Gen.C04Alias"],
                                  ["ImathVerif"], binary=bins["sym_c04"])
    chk.check_theorems("ImathVerif.Props.C04Alias", search=search_alias)
    per = {}
    for d in index:
        per[d["name"].split(".")[0]] = per.get(d["name"].split(".")[0], 0) + 1
    chk.extra["entries_per_type"] = per
    for d in index[:6]:
        chk.sample({"entry": d["name"], "paths": d.get("paths"), "classes": d.get("cls")})
    if chk.thorough:
        chk.leanchecker("ImathVerif.Props.C04")
        chk.leanchecker("ImathVerif.Props.C04Show")
        chk.leanchecker("ImathVerif.Props.C04Alias")
