"""C10 — quaternion / matrix / axis-angle consistency (T-route theorems + measured residue for interpolation and rounding)."""
import os, re
import lib, troute

IMPORTS = ["ImathVerif.Spec.MatSpec", "ImathVerif.Gen.C10Quat", "ImathVerif.Gen.C10Algo", "ImathVerif.Gen.C10Interp",
           "ImathVerif.Gen.C10Rot", "ImathVerif.Lemmas.C10Lemmas", "ImathVerif.Lemmas.C10Rot"]
REQUIRED = [
    "Quat_mul", "Quat_conj", "Quat_rotateVector_eq_mulQuat", "Quat_rotateVector_eq_mulM33", "Quat_rotate_all_agree",
    "Quat_toMatrix33_mul", "Quat_toMatrix44_mul", "Quat_mul_inverse", "Quat_mul_inverse_of_ne_zero", "Quat_invert",
    "Quat_normalize_unit", "Quat_normalize_zero", "Quat_toMatrix33_orthonormal", "Quat_toMatrix33_det",
    "Quat_toMatrix33_rotation", "extractQuat_toMatrix44", "setAxisAngle_consistent", "setAxisAngle_consistent_real",
    "slerp_eq", "slerp_unit", "slerpShortestArc_eq", "slerpShortestArc_unit", "slerp_endpoints", "slerp_endpoints_real",
    "squad_keys", "spline_eq_squad", "spline_keys", "intermediate_unit", "exp_log", "setAxisAngle_axis_angle",
    "setRotationMod_spec", "setRotationMod_carries", "rotationMatrixMod_eq",
]

# which residue checks speak about which generated function (for the failing-input search of a broken theorem)
THEOREM_TO_RESIDUE = [
    (r"rotate|mulQuat|mulM33|mulM44|multDir", ["rotate-forms-agree"]),
    (r"toMatrix33_mul|toMatrix44_mul", ["matrix-of-product"]),
    (r"inverse|invert|conj|Quat_mul|Quat_div", ["mul-inverse-identity", "matrix-of-product"]),
    (r"orthonormal|_det|rotation", ["orthonormal"]),
    (r"extractQuat", ["extractQuat"]),
    (r"setAxisAngle|axis|angle", ["setAxisAngle-quat-vs-matrix", "axis-angle-roundtrip"]),
    (r"exp|log", ["exp-log"]),
    (r"setRotation|rotationMatrix", ["setRotation-carries", "setRotation-unit", "rotationMatrix-carries"]),
    (r"slerpShortest", ["slerpShortestArc-angle"]),
    (r"slerp|normalize", ["slerp-unit", "slerp-endpoints", "slerp-angle-linear"]),
    (r"squad|spline|intermediate", ["squad-keys", "spline-keys"]),
]


def run_residue(chk, binary, n):
    rc, out = lib.sh([binary, str(chk.seed), str(n)], timeout=1800)
    m = re.search(r"RESIDUE evals=(\d+) failures=(\d+) checks=(\d+)", out)
    stats, hits, fails = {}, {}, []
    for l in out.split("\n"):
        s = re.match(r"RESIDUE-STAT (\S+) n=(\d+) worst=(\S+) bound=(\S+) worst-at: (.*)", l)
        if s:
            stats[s.group(1)] = {"n": int(s.group(2)), "worst_err_over_eps_scale": s.group(3), "bound": float(s.group(4)), "worst_at": s.group(5)[:200]}
        h = re.match(r"RESIDUE-HIT (.*) (\d+)$", l)
        if h:
            hits[h.group(1)] = int(h.group(2))
        f = re.match(r"RESIDUE-FAIL (\S+) key=(\S+) (.*)", l)
        if f:
            fails.append((f.group(1), f.group(2), f.group(3)))
    return rc, out, m, stats, hits, fails


def residue(chk, binary, n):
    rc, out, m, stats, hits, fails = run_residue(chk, binary, n)
    ok = rc == 0 and m is not None and int(m.group(2)) == 0
    chk.oblige("residue: real float/double code vs exact formulas in long double, every check <= c*eps*scale "
               "(rotation forms, product rule, inverse, orthonormality, extractQuat, axis-angle, exp/log, setRotation incl. "
               "opposite directions, slerp linear angle / shortest arc, squad / spline keys and tangent continuity)", "residue", ok)
    if m:
        chk.count(int(m.group(1)), int(m.group(1)))
    chk.residues["C10"] = {"checks": stats, "bound": "c * eps * scale per check (harness/corr/c10_residue.cpp BOUNDS)"}
    chk.extra["c10_hits"] = hits
    # constant generators are visible: every class / branch must have been hit
    need = ["extractQuat-branch:trace>0", "extractQuat-branch:largest[0][0]", "extractQuat-branch:largest[1][1]", "extractQuat-branch:largest[2][2]",
            "setRotation-path:<=90", "setRotation-path:split-at-halfway", "setRotation-path:antipodal-fallback",
            "slerpShortestArc:dot<0(negates)", "slerpShortestArc:dot>=0", "quat-class:w-near-0", "quat-class:w-near-+1", "quat-class:w-near--1",
            "direction-pair:angle=180-1e-k", "direction-pair:exactly-opposite", "spline-tangent:joints-checked"]
    missing = [k for k in need if not hits.get(k)]
    chk.oblige("residue: every input class and code branch exercised (hit counts in evidence)", "residue", not missing, missing or None)
    seen = set()
    for what, key, rest in fails:
        k = "residue:" + (key if ":" in key else what.split(":")[0])
        if k in seen:
            continue
        seen.add(k)
        chk.fail("residue:" + what, k, "the real code violates the measured bound of C10: " + what + " " + rest[:400],
                 {"check": what, "line": rest[:600], "replay": "%s %d %d" % (os.path.basename(binary), chk.seed, n)}, True)
    if not ok and not fails:
        chk.fail("residue", "residue:run", "residue harness failed to run", {"output": out[-2000:]}, False)
    return stats


def run(chk):
    chk.trusted = ["Lean 4.33 kernel; axioms propext/Classical.choice/Quot.sound at most", "Mathlib (Matrix, Real.sqrt/sin/cos/arccos, Complex.arg)",
                   "translator harness/sym, validated each run by TV (bitwise at float and double) and by the Lean-side TV at Rat",
                   "long double (64-bit significand) + glibc sinl/cosl/acosl/atan2l as the oracle of the measured residue"]
    chk.assumptions = ["rounding: NOT proved; measured against exact formulas with per-check bounds c*eps*scale (partial)",
                       "slerp constant angular velocity, slerpShortestArc shortest way, squad/spline interior behaviour and tangent continuity: MEASURED only (partial)",
                       "sqrt/sin/cos/acos/atan2 enter the algebraic theorems as parameters with explicit hypotheses (each instantiated by the real functions in an example/theorem)"]
    chk.rule = ("theorems: all quaternions / vectors over any (ordered) field with an explicit unit-norm hypothesis; analytic ones over R. "
                "residue: unit quaternions (uniform, w near 0, w = 0, w near +-1, axis aligned, +-identity), direction pairs with angle in "
                "{0, 1e-k, <90, 90-+1e-k, >90, 180-1e-k, 180, exactly opposite (random and integer lattice x exact multiples)}, slerp pairs with "
                "theta in {0, 1e-k, <90, 90+-1e-k, >90, 180-1e-k}, t in {0, 1, .5, random, 1e-3, 1-1e-3, -0.1, -1e-3, 1+1e-3, 1.1}; float and double")
    leaf_index = os.path.join(troute.GEN, "index_leaf.txt")
    bins = troute.build_extractors(chk, [dict(name="sym_leaf", source="sym/sym_leaf.cpp"),
                                         dict(name="sym_c10", source="sym/sym_c10.cpp"),
                                         dict(name="sym_c10b", source="sym/sym_c10b.cpp"),
                                         dict(name="sym_c10c", source="sym/sym_c10c.cpp"),
                                         dict(name="c10_residue", source="corr/c10_residue.cpp")])
    res_n = 12000 if chk.thorough else 1500
    if bins.get("sym_leaf") and bins.get("sym_c10"):
        troute.regenerate(chk, bins["sym_leaf"], "leaf")
        index, changed = troute.regenerate(chk, bins["sym_c10"], "c10", idx_deps=[leaf_index])
        troute.tv(chk, bins["sym_c10"], "c10", 400 if chk.thorough else 64, idx_deps=[leaf_index])
        troute.lean_tv(chk, bins["sym_c10"], "c10", index, n=8 if chk.thorough else 3, idx_deps=[leaf_index])
        c10_index = os.path.join(troute.GEN, "index_c10.txt")
        if bins.get("sym_c10b"):
            indexb, _ = troute.regenerate(chk, bins["sym_c10b"], "c10b", idx_deps=[leaf_index, c10_index])
            troute.tv(chk, bins["sym_c10b"], "c10b", 400 if chk.thorough else 64, idx_deps=[leaf_index, c10_index])
            index = index + indexb
        if bins.get("sym_c10c"):
            indexc, _ = troute.regenerate(chk, bins["sym_c10c"], "c10c", idx_deps=[leaf_index, c10_index])
            troute.tv(chk, bins["sym_c10c"], "c10c", 2000 if chk.thorough else 400, idx_deps=[leaf_index, c10_index])
            index = index + indexc

        cache = {}

        def search(name):
            # 1. statements without hypotheses: evaluate at Rat on random inputs + replay on the real code
            rep = troute.lean_search(chk, "ImathVerif.Props.C10", name, IMPORTS, ["ImathVerif", "ImathVerif.C10", "Matrix"],
                                     binary=bins["sym_c10"], idx_deps=[leaf_index])
            if rep:
                return rep
            # 2. hypothesis-carrying theorems: the residue harness compares the REAL code with the exact formulas
            if not bins.get("c10_residue"):
                return None
            if "r" not in cache:
                cache["r"] = run_residue(chk, bins["c10_residue"], res_n)
            _, _, _, _, _, fails = cache["r"]
            wanted = [w for pat, ws in THEOREM_TO_RESIDUE if re.search(pat, name) for w in ws]
            for what, key, rest in fails:
                if what.split(":")[0] in wanted:
                    return {"key": "theorem:" + name, "residue_check": what, "failing_input": rest[:500],
                            "found_by": "c10_residue: real code vs exact formula"}
            return None
        chk.check_theorems("ImathVerif.Props.C10", required=REQUIRED, search=search)
        for d in index[:6]:
            chk.sample({"entry": d["name"], "paths": d.get("paths")})
        chk.extra["c10_paths"] = {d["name"]: d.get("paths") for d in index if int(d.get("paths", 1)) > 1}
    if bins.get("c10_residue"):
        residue(chk, bins["c10_residue"], res_n)
    if chk.thorough:
        chk.leanchecker("ImathVerif.Props.C10")
