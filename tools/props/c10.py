"""C10 — quaternion / matrix / axis-angle consistency (T-route theorems + measured residue for interpolation and rounding)."""
import os, re
import lib, troute

IMPORTS = ["ImathVerif.Spec.MatSpec", "ImathVerif.Gen.C10Quat", "ImathVerif.Gen.C10Algo", "ImathVerif.Gen.C10Interp",
           "ImathVerif.Gen.C10Rot", "ImathVerif.Lemmas.C10Lemmas", "ImathVerif.Lemmas.C10Rot"]
# every theorem of Props/C10.lean is required (deleting one is a violation, not a silent loss)
REQUIRED = [
    "Quat_mul", "Quat_conj", "Quat_neg", "Quat_conj_mul", "Quat_mul_conj", "Quat_dot4", "Quat_normSq_mul",
    "Quat_rotateVector_def", "Quat_rotateVector_eq_mulQuat", "V3_mulQuat_eq_mulM33", "Quat_rotateVector_eq_mulM33", "V3_mulM33",
    "Quat_rotateVector_vecMul", "Quat_toMatrix44_block", "V3_mulM44_toMatrix44", "M44_multDirMatrix_toMatrix44", "Quat_rotate_all_agree",
    "Quat_toMatrix33_mul", "M33_mul", "M44_mul", "M33_mulQuat", "Quat_mulM33", "Quat_toMatrix33_mul_toMat", "Quat_toMatrix44_mul",
    "Quat_toMatrix33_mul_other_order_false", "Quat_mul_unit", "Quat_rotateVector_mul",
    "Quat_inverse", "Quat_invert", "Quat_invertRet", "Quat_mul_inverse", "normSq_ne_zero_iff", "Quat_mul_inverse_of_ne_zero",
    "Quat_inverse_unit", "Quat_div", "Quat_divAssign", "Quat_length", "Quat_normalized", "Quat_normalize_unit", "Quat_normalize_zero",
    "Quat_normalize_of_unit", "Quat_toMatrix33_orthonormal", "Quat_toMatrix33_det", "M33_transposed", "M33_determinant",
    "Quat_toMatrix33_rotation", "extractQuat_toMatrix44", "setAxisAngle_consistent", "real_half_angle", "real_sqrt_spec",
    "setAxisAngle_consistent_real", "Quat_setAxisAngle_unit",
    "slerp_eq", "Quat_normalize_always_unit", "slerp_unit", "slerp_span", "slerpShortestArc_eq", "slerpShortestArc_unit", "intermediate_unit",
    "Quat_normalize_of_unit_simp", "slerp_endpoints", "squad_keys", "slerp_endpoints_real",
    "slerp_angle_linear", "slerp_angle_linear_real", "slerpShortestArc_angle_real",
    "squad_keys_real", "spline_eq_squad", "spline_keys", "spline_keys_real", "exp_log", "setAxisAngle_axis_angle",
    "intermediate_eq", "exp_real", "log_exp", "Quat_inverse_mul_cancel", "log_r", "interP_r", "intermediate_defining", "interP_example",
    "intermediate_identity",
    "setRotationMod_spec", "setRotationMod_carries", "rotationMatrixMod_eq", "rotationMatrixMod_carries",
    # aliasing: one object on both sides of the compound operators / passed twice
    "Quat_mulAssign", "Quat_mulAssignSelf", "Quat_mulSelf", "Quat_mulAssignInverseSelf", "Quat_mulAssignConjSelf", "Quat_divAssignSelf",
    "Quat_divSelf", "Quat_setAxisAngleAliasV", "Quat_rotateVectorAliasV", "Quat_slerpSame", "Quat_setRotationModAliasV", "Quat_div_self",
    "slerp_same",
    # r2: the tiny-angle branch of sinx_over_x; non-degenerate witness for spline_keys_real
    "sinx_over_x_tiny", "sinx_over_x_tiny_real", "guard_small", "log_i", "log_neg_i", "log_one", "interP_11i", "interP_1ii",
    "spline_witness_intermediates", "mul_sin_abs_div_abs", "slerp_exp_form", "sinx_over_x_big", "sinx_over_x_angle4D_ne_zero",
]

# which residue checks speak about which generated function (for the failing-input search of a broken theorem)
THEOREM_TO_RESIDUE = [
    (r"rotate|mulQuat|mulM33|mulM44|multDir", ["rotate-forms-agree"]),
    (r"toMatrix33_mul|toMatrix44_mul", ["matrix-of-product"]),
    (r"mulAssign|mulSelf|divAssignSelf|divSelf|div_self|AliasV", ["alias-product", "alias-quotient", "alias-vector-part"]),
    (r"inverse|invert|conj|Quat_mul|Quat_div", ["mul-inverse-identity", "matrix-of-product"]),
    (r"orthonormal|_det|rotation", ["orthonormal"]),
    (r"extractQuat", ["extractQuat"]),
    (r"setAxisAngle|axis|angle", ["setAxisAngle-quat-vs-matrix", "setAxisAngle-exact", "axis-angle-roundtrip"]),
    (r"exp|log", ["exp-log", "exp-log-closed-form"]),
    (r"setRotation|rotationMatrix", ["setRotation-carries", "setRotation-unit", "rotationMatrix-carries", "setRotation-path-decision", "setRotation-guard-sweep"]),
    (r"slerpShortest", ["slerpShortestArc-angle"]),
    (r"slerp|normalize", ["slerp-unit", "slerp-endpoints", "slerp-angle-linear", "slerp-in-plane", "slerp-near-antipodal"]),
    (r"squad|spline|intermediate|interP", ["spline-tangent", "squad-keys", "spline-keys"]),
]


MIN_HITS = 20
# ~2 x the largest maximum seen on the clean tree (seeds 1-3 quick, seeds 1-3 at n = 12000), in the units of each check (eps * scale).
# Checks whose bound is structural (the 8 eps fallback distance: setRotation-carries, rotationMatrix-carries, guard sweep) and the
# rounding-dominated float tangent probe have no ceiling.
DRIFT_CEIL = {"alias-product": 3, "alias-quotient": 4.5, "alias-vector-part": 4.5, "axis-angle-roundtrip": 4.5, "exp-log": 10, "exp-log-closed-form": 11,
              "extractQuat": 4.5, "matrix-of-product": 8.5, "mul-inverse-identity": 4.5, "orthonormal": 9.5, "rotate-forms-agree": 7,
              "setAxisAngle-exact": 11, "setAxisAngle-quat-vs-matrix": 12, "setRotation-axis": 3.5, "setRotation-opposite-lattice": 2.5,
              "setRotation-unit": 6.5, "slerp-angle-linear": 5.5, "slerp-endpoints": 3, "slerp-in-plane": 2.5, "slerp-near-antipodal": 2.5,
              "slerp-unit": 2.5, "slerpShortestArc-angle": 2.5, "spline-keys": 2, "squad-keys": 2, "spline-tangent:double": 0.3}


def run_residue(chk, binary, n):
    rc, out = lib.sh([binary, str(chk.seed), str(n)], timeout=1800)
    m = re.search(r"RESIDUE evals=(\d+) failures=(\d+) checks=(\d+)", out)
    stats, hits, fails = {}, {}, []
    for l in out.split("\n"):
        s = re.match(r"RESIDUE-STAT (\S+) n=(\d+) worst=(\S+) bound=(\S+) worst-at: (.*)", l)
        if s:
            stats[s.group(1)] = {"n": int(s.group(2)), "worst_err_over_eps_scale": s.group(3), "bound": float(s.group(4)), "worst_at": s.group(5)[:200]}
        h = re.match(r"RESIDUE-HIT (.*) (\d+)$", l)
        if h:
            hits[h.group(1)] = int(h.group(2))
        f = re.match(r"RESIDUE-FAIL (\S+) key=(\S+) (.*)", l)
        if f:
            fails.append((f.group(1), f.group(2), f.group(3)))
    return rc, out, m, stats, hits, fails


def residue(chk, binary, n):
    rc, out, m, stats, hits, fails = run_residue(chk, binary, n)
    ok = rc == 0 and m is not None and int(m.group(2)) == 0
    chk.oblige("residue: real float/double code vs exact formulas in long double, every check <= c*eps*scale "
               "(rotation forms, product rule, inverse, orthonormality, extractQuat, axis-angle, exp/log, setRotation incl. "
               "opposite directions, slerp linear angle / shortest arc, squad / spline keys and tangent continuity)", "residue", ok)
    if m:
        chk.count(int(m.group(1)), int(m.group(1)))
    chk.residues["C10"] = {"checks": stats, "bound": "c * eps * scale per check (harness/corr/c10_residue.cpp BOUNDS)"}
    chk.extra["c10_hits"] = hits
    # constant generators are visible: every class / branch must have been hit
    need = ["extractQuat-branch:trace>0", "extractQuat-branch:largest[0][0]", "extractQuat-branch:largest[1][1]", "extractQuat-branch:largest[2][2]",
            # the path classifier mirrors the code's current guard |f0+t0|^2 > (8 eps)^2; both kinds of fallback must occur
            "setRotation-path:<=90", "setRotation-path:split-at-halfway", "setRotation-path:fallback:h0-exactly-zero",
            "setRotation-path:fallback:threshold(h0!=0)",
            # guard sweep: |f0+t0| (as the code computes it) just below / just above 8 eps, and at ~4 / ~16 eps, each decided as the guard says
            "guard-sweep:(0,6]eps:fallback:threshold(h0!=0)", "guard-sweep:(6,8]eps:just-below:fallback:threshold(h0!=0)",
            "guard-sweep:(8,10]eps:just-above:split-at-halfway", "guard-sweep:(10,24]eps:split-at-halfway",
            "slerpShortestArc:dot<0(negates)", "slerpShortestArc:dot>=0", "quat-class:w-near-0", "quat-class:w-near-+1", "quat-class:w-near--1",
            "direction-pair:angle=180-1e-k", "direction-pair:exactly-opposite",
            "slerp-pair:theta=180-1e-k(k=7..15)", "slerp-pair:bitwise-antipodal(q2=-q1)",
            "exp-log:real-part-in(-1+64eps,-0.9)", "exp-log:real-part-in(-1+64eps,-0.999)", "axis-class:tiny(length2-underflows)",
            "alias-class:q*=q,q=q*q,q*=~q,q/=q,q=q/q,q*=q.inverse()", "alias-class:q.setAxisAngle(q.v,a),q.v=q.rotateVector(q.v)",
            # tiny-angle branches (mirrors of the code's tests)
            "sinx_over_x(a):tiny-branch", "sinx_over_x(a):sin(x)/x", "sinx_over_x(t*a):tiny-branch", "sinx_over_x(t*a):sin(x)/x",
            "sinx_over_x:mixed(a-not-tiny,s*a-or-t*a-tiny)", "log-branch:theta==0", "log-branch:theta/sin(theta)",
            "exp-branch:guard(k=1,theta==0)", "exp-branch:sin(theta)/theta",
            "spline-tangent:joints-checked:one-hemisphere", "spline-tangent:joints-checked:hemisphere-change", "spline-tangent:joints-checked:repeated-key"]
    # a guard-sweep pair decided differently from the documented guard shows up as a hit of an unexpected (bucket, path) combination as well
    unexpected = [k for k in hits if k.startswith("guard-sweep:") and (
        (("(0,6]" in k or "(6,8]" in k) and "split" in k) or (("(8,10]" in k or "(10,24]" in k or ">24" in k) and "fallback" in k))]
    # a class counts as exercised from MIN_HITS cases on (quick-tier counts on the clean tree are 100 .. 30000), not from one
    missing = ["%s (%d < %d)" % (k, hits.get(k, 0), MIN_HITS) for k in need if hits.get(k, 0) < MIN_HITS] + ["UNEXPECTED " + k for k in unexpected]
    chk.oblige("residue: every input class and code branch exercised at least %d times (%d obligatory classes, hit counts in evidence)" % (
        MIN_HITS, len(need)), "residue", not missing, missing or None)
    # drift: the bounds are 2-10 x the clean-tree maxima (they are the property's tolerance); a maximum that moves well away from what
    # was measured at calibration is reported under its own key even though it is still inside the bound
    drift = []
    for name, st in stats.items():
        base = name.split(":")[0]
        ceil = DRIFT_CEIL.get(name, DRIFT_CEIL.get(base))
        if ceil is not None and not (float(st["worst_err_over_eps_scale"]) <= ceil):
            drift.append("%s worst=%s > drift ceiling %g (bound %g)" % (name, st["worst_err_over_eps_scale"], ceil, st["bound"]))
    chk.oblige("residue-drift: every measured maximum within ~2x of the clean-tree maximum recorded at calibration (%d ceilings)" % len(DRIFT_CEIL),
               "residue", not drift, drift or None)
    for d in drift[:6]:
        chk.fail("residue-drift", "residue-drift:" + d.split()[0], "measured rounding maximum drifted away from its calibration value (still inside "
                 "the property bound): " + d, {"line": d, "worst_at": stats[d.split()[0]]["worst_at"]}, True)
    seen = set()
    for what, key, rest in fails:
        k = "residue:" + (key if ":" in key else what.split(":")[0])
        if k in seen:
            continue
        seen.add(k)
        chk.fail("residue:" + what, k, "the real code violates the measured bound of C10: " + what + " " + rest[:400],
                 {"check": what, "line": rest[:600], "replay": "%s %d %d" % (os.path.basename(binary), chk.seed, n)}, True)
    if not ok and not fails:
        chk.fail("residue", "residue:run", "residue harness failed to run", {"output": out[-2000:]}, False)
    return stats


# leaves of the 13-path setRotation trees that an input can reach: one step, split, and four of the five fallback leaves
# (`fx² ≤ fy² ∧ ¬ fx² ≤ fz² ∧ fy² ≤ fz²` is contradictory; `normalized (h0) = 0` after `|h0|² > (8 eps)²` and `0*0+0*0+0*0 ≠ 0` cannot happen)
REACHABLE_SETROTATION_LEAVES = 6


# Leaf floors of the directed TV of tag c10 (sym_c10 tvdir): the number of leaves the directed inputs reach, measured on the clean tree at
# seeds 1-30 (n = 1500 per element type).  slerp: all 8 combinations of the three `x*x < epsilon` tests with a non-zero combination, plus the
# zero-length combination in the three combinations where it can occur (q1 = q2 = 0; q2 = -q1 at t = 1/2; q1 = 0 at t = 0) -- the other five
# leaves need a zero combination together with a mixed tiny / non-tiny pattern.  log: its overflow guard needs sin(theta) = 0 with theta != 0
# (no float).  intermediate: 3 x 3 log leaves x 3 exp leaves, less the combinations in which P = 0 exactly without both logs being 0.
C10_LEAF_FLOORS = {"C10.Quat.slerp": 11, "C10.Quat.slerpShortestArc": 15, "C10.Quat.slerpSame": 2, "C10.Quat.intermediate": 24,
                   "C10.Quat.log": 3, "C10.Quat.exp": 3, "C10.Quat.normalize": 2, "C10.Quat.normalized": 2, "C10.Quat.axis": 2}
C10C_LEAF_FLOORS = {"C10.Quat.setRotationMod": REACHABLE_SETROTATION_LEAVES, "C10.rotationMatrixMod": REACHABLE_SETROTATION_LEAVES}


def tv_directed(chk, binary, tag, n, idx_deps, floors, what):
    """`<binary> tvdir`: tree vs real code, bitwise, on inputs built for the leaves the generic TV inputs do not reach (audit W8, r2 N4);
    the number of leaves reached per tree is an obligation (floors measured on the clean tree, see above)."""
    cmd = [binary, "tvdir", str(chk.seed), str(n)]
    for d in idx_deps:
        cmd += ["--idx", d]
    rc, out = lib.sh(cmd, timeout=900)
    rows = dict((m.group(1), [int(m.group(i)) for i in (2, 3, 4, 5)]) for m in
                re.finditer(r"TVDIR (\S+) evals=(\d+) failures=(\d+) leaves_hit=(\d+) paths=(\d+)", out))
    fails = [l for l in out.split("\n") if l.startswith("TVFAIL")]
    ok = rc == 0 and set(rows) == set(floors) and all(r[1] == 0 for r in rows.values())
    chk.oblige("tv-directed:%s: %s" % (tag, what), "translation-validation", ok, None if ok else (fails[:5] or out[-500:]))
    short = dict((k, "%d < %d of %d" % (rows[k][2], f, rows[k][3])) for k, f in floors.items() if k in rows and rows[k][2] < f)
    reach = set(rows) == set(floors) and not short
    chk.oblige("tv-directed:%s: leaves compared with the real code reach the floor of every tree (%s)" % (
        tag, ", ".join("%s %d" % (k.split(".")[-1], f) for k, f in sorted(floors.items()))),
        "translation-validation", reach, None if reach else (short or rows))
    chk.count(sum(r[0] for r in rows.values()), sum(r[0] for r in rows.values()))
    chk.extra.setdefault("tv", {})[tag + "-directed"] = dict((k, {"evaluations": v[0], "failures": v[1], "leaves_hit": v[2], "paths": v[3],
                                                                   "floor": floors.get(k)}) for k, v in rows.items())
    for l in fails[:10]:
        mm = re.match(r"TVFAIL (\S+) (\S+) :: (.*?) :: in=(.*)", l)
        if mm:
            ty, fn, detail, inp = mm.groups()
            chk.fail("tv-directed:" + tag, "tv:%s:%s" % (fn, ty),
                     "extracted model of %s disagrees with the real instantiation at %s on a directed input" % (fn, ty),
                     {"function": fn, "element_type": ty, "detail": detail, "input": inp.split()}, True)
    if not ok and not fails:
        chk.fail("tv-directed:" + tag, "tv:%s-directed" % tag, "directed translator validation did not run to completion", {"output": out[-1500:]}, False)


def _lean_tv_covers(chk, tag, fns):
    """lean_tv silently skips an entry whose cases all overflow / whose callee has no exact-fraction evaluator: make coverage an obligation."""
    info = chk.extra.get("lean_tv", {}).get(tag, {})
    ok = info.get("functions", 0) >= len(fns) and info.get("skipped_external_calls", 1) == 0 and info.get("cases", 0) >= 2 * len(fns)
    chk.oblige("lean-tv:%s: every entry (%s) has Lean-side cases (at least 2 per entry on average), none skipped for its opaque calls" % (
        tag, ", ".join(fns) if len(fns) <= 4 else "%d entries" % len(fns)),
               "translation-validation", ok, None if ok else info)


def run(chk):
    chk.trusted = ["Lean 4.33 kernel; axioms propext/Classical.choice/Quot.sound at most", "Mathlib (Matrix, Real.sqrt/sin/cos/arccos, Complex.arg)",
                   "translator harness/sym, validated each run by TV (bitwise at float and double) and by the Lean-side TV at Rat "
                   "(c10, c10b, c10c; opaque callees evaluated by the REAL templates at an exact-fraction element type, harness/sym/c10frac.h)",
                   "long double (64-bit significand) + glibc sinl/cosl/acosl/atan2l as the oracle of the measured residue"]
    chk.assumptions = ["rounding: NOT proved; measured against exact formulas with per-check bounds c*eps*scale (partial)",
                       "squad/spline interior behaviour, tangent continuity of consecutive spline segments, the tiny-angle branches of sinx_over_x / log / exp, "
                       "and slerp at / next to q1 = -q2 (finite and unit only): MEASURED only (partial)",
                       "slerp_angle_linear / slerpShortestArc_angle_real / intermediate_defining exclude the tiny-angle branches by hypothesis (stated with the code's own tests); "
                       "about the tiny branch of sinx_over_x only its value (1) and its distance from sin x / x (< eps/6) are proved",
                       "tangent continuity: the double-precision Richardson probe (5e-9 relative) carries the clause; the float probe excludes only relative errors above 3e-2",
                       "sqrt/sin/cos/acos/atan2 enter the algebraic theorems as parameters with explicit hypotheses (each instantiated by the real functions in an example/theorem)"]
    chk.rule = ("theorems: all quaternions / vectors over any (ordered) field with an explicit unit-norm hypothesis; analytic ones over R. "
                "residue: unit quaternions (uniform, w near 0, w = 0, w near +-1, axis aligned, +-identity), direction pairs with angle in "
                "{0, 1e-k, <90, 90-+1e-k, >90, 180-1e-k, 180, exactly opposite (random and integer lattice x exact multiples)} plus a guard sweep "
                "|f0+t0| in {4, 7.x, 8.x, 16} eps whose path decision is compared with the documented guard; slerp pairs with "
                "theta in {0, 1e-k, <90, 90+-1e-k, >90, 180-1e-k (k<=6), 180-1e-k (k=7..15), bitwise antipodal}, t in {0, 1, .5, random, 1e-3, 1-1e-3, "
                "-0.1, -1e-3, 1+1e-3, 1.1}; axis-angle with ordinary and tiny (length2 underflows) axes, Quat vs Matrix44 vs exact; spline joints with keys "
                "in one hemisphere / across hemispheres / repeated, Richardson-extrapolated one-sided differences at two step sizes; float and double")
    leaf_index = os.path.join(troute.GEN, "index_leaf.txt")
    bins = troute.build_extractors(chk, [dict(name="sym_leaf", source="sym/sym_leaf.cpp"),
                                         dict(name="sym_c10", source="sym/sym_c10.cpp"),
                                         dict(name="sym_c10b", source="sym/sym_c10b.cpp"),
                                         dict(name="sym_c10c", source="sym/sym_c10c.cpp"),
                                         dict(name="c10_residue", source="corr/c10_residue.cpp")])
    res_n = 12000 if chk.thorough else 1500
    if bins.get("sym_leaf") and bins.get("sym_c10"):
        troute.regenerate(chk, bins["sym_leaf"], "leaf")
        index, changed = troute.regenerate(chk, bins["sym_c10"], "c10", idx_deps=[leaf_index])
        troute.tv(chk, bins["sym_c10"], "c10", 400 if chk.thorough else 64, idx_deps=[leaf_index])
        troute.lean_tv(chk, bins["sym_c10"], "c10", index, n=8 if chk.thorough else 3, idx_deps=[leaf_index])
        _lean_tv_covers(chk, "c10", [d["name"] for d in index])
        tv_directed(chk, bins["sym_c10"], "c10", 6000 if chk.thorough else 1500, [leaf_index], C10_LEAF_FLOORS,
                    "slerp / slerpShortestArc / intermediate / log / exp / normalize trees = real code, bitwise, on theta in {0, 1e-12 .. ~pi, "
                    "around sqrt(eps)}, t in {0, 1e-9, 1/2, 1, 2, +-1e5 ...}, equal / antipodal / zero arguments, r = 1, denormal |v|")
        c10_index = os.path.join(troute.GEN, "index_c10.txt")
        if bins.get("sym_c10b"):
            indexb, _ = troute.regenerate(chk, bins["sym_c10b"], "c10b", idx_deps=[leaf_index, c10_index])
            troute.tv(chk, bins["sym_c10b"], "c10b", 400 if chk.thorough else 64, idx_deps=[leaf_index, c10_index])
            # emitted text of squad / spline at Rat; slerp / intermediate are the real templates at exact fractions (sym_c10b.cpp)
            troute.lean_tv(chk, bins["sym_c10b"], "c10b", indexb, n=24 if chk.thorough else 8, idx_deps=[leaf_index, c10_index])
            _lean_tv_covers(chk, "c10b", ["C10.Quat.squad", "C10.Quat.spline"])
            index = index + indexb
        if bins.get("sym_c10c"):
            indexc, _ = troute.regenerate(chk, bins["sym_c10c"], "c10c", idx_deps=[leaf_index, c10_index])
            troute.tv(chk, bins["sym_c10c"], "c10c", 2000 if chk.thorough else 400, idx_deps=[leaf_index, c10_index])
            # emitted text of setRotationMod / rotationMatrixMod at Rat; normalized / setRotationInternal are the real templates at exact fractions
            troute.lean_tv(chk, bins["sym_c10c"], "c10c", indexc, n=24 if chk.thorough else 8, idx_deps=[leaf_index, c10_index])
            _lean_tv_covers(chk, "c10c", ["C10.Quat.setRotationMod", "C10.rotationMatrixMod", "C10.Quat.setRotationModAliasV"])
            tv_directed(chk, bins["sym_c10c"], "c10c", 3000 if chk.thorough else 600, [leaf_index, c10_index], C10C_LEAF_FLOORS,
                        "setRotation / rotationMatrix trees = real code, bitwise, on exactly opposite, within-a-few-eps, nearly opposite and "
                        "same-side direction pairs")
            index = index + indexc

        cache = {}

        def search(name):
            # 1. statements without hypotheses: evaluate at Rat on random inputs + replay on the real code
            rep = troute.lean_search(chk, "ImathVerif.Props.C10", name, IMPORTS, ["ImathVerif", "ImathVerif.C10", "Matrix"],
                                     binary=bins["sym_c10"], idx_deps=[leaf_index])
            if rep:
                return rep
            # 2. hypothesis-carrying theorems: the residue harness compares the REAL code with the exact formulas
            if not bins.get("c10_residue"):
                return None
            if "r" not in cache:
                cache["r"] = run_residue(chk, bins["c10_residue"], res_n)
            _, _, _, _, _, fails = cache["r"]
            wanted = [w for pat, ws in THEOREM_TO_RESIDUE if re.search(pat, name) for w in ws]
            for what, key, rest in fails:
                if what.split(":")[0] in wanted:
                    return {"key": "theorem:" + name, "residue_check": what, "failing_input": rest[:500],
                            "found_by": "c10_residue: real code vs exact formula"}
            return None
        chk.check_theorems("ImathVerif.Props.C10", required=REQUIRED, search=search)
        for d in index[:6]:
            chk.sample({"entry": d["name"], "paths": d.get("paths")})
        chk.extra["c10_paths"] = {d["name"]: d.get("paths") for d in index if int(d.get("paths", 1)) > 1}
    if bins.get("c10_residue"):
        residue(chk, bins["c10_residue"], res_n)
    if chk.thorough:
        chk.leanchecker("ImathVerif.Props.C10")
