"""C06 — matrix inversion returns a true inverse, or a clean singular outcome.

T-route: Matrix22/33/44::inverse()/invert() regenerated from the headers (gjInverse opaque inside Matrix44::inverse),
theorems in Props/C06.lean against Mathlib's det/adjugate.  H-route: Gauss-Jordan hand model (Model/GaussJordan.lean),
theorems for every dimension, tied to the real gjInverse bit for bit (drv_gj at Float/Float32 vs harness/corr/c06_inv.cpp).
3x3 Gauss-Jordan additionally: exhaustive small-integer families, three-way (real code / model at Float and over Rat / exact det^-1*adjugate).
Residue (measured, partial): error vs a 113-bit inverse in units of cond*eps*|X| per code path; the overflow guard of the
determinant forms against an independent quad specification (identity results are judged, not dropped)."""
import os, re, random
from fractions import Fraction
import lib, troute

LEVEL = "proof"
MODULE = "ImathVerif.Props.C06"
IDX_GJ = os.path.join(lib.VERIF, "harness", "sym", "index_gj.txt")
DRV = os.path.join(lib.LEAN, ".lake", "build", "bin", "drv_gj")
CBOUND = 8          # calibrated: conforming paths measure <= 0.99 at seeds 1-5 (n = 40000 rounds each), <= 0.82 at the quick size
REQUIRED = ["M22_inverse_spec", "M22_inverse_mul", "M22_inverse_singular", "M22_invert_eq_inverse",
            "M33_inverse_spec", "M33_inverse_affine_spec", "M33_affine_eq_general", "M33_inverse_mul", "M33_inverse_singular",
            "M33_invert_eq_inverse", "M44_inverse_affine_spec", "M44_affine_eq_general", "M44_inverse_nonaffine",
            "M44_inverse_mul", "M44_inverse_singular", "M44_invert_eq_inverse",
            "gj_forward_invariant", "gj_backward_invariant", "gj_some", "gj_exit_iff_det_zero", "gj_zero_pivot_column",
            "M33_gjInverse_spec", "M33_gjInverse_singular", "M44_gjInverse_spec", "M44_gjInverse_singular",
            "M33_gjInverseExc_spec", "M44_gjInverseExc_spec",
            # what det != 0 gives (true inverse <=> |det| >= 1 or all entries of the exact inverse of the guarded block < 1/tmin)
            "M22_inverse_true_iff", "M33_inverse_true_iff", "M33_inverse_affine_true_iff", "M44_inverse_affine_true_iff",
            # when the affine arm and the general arm DECIDE differently
            "M33_general_guard_iff", "M33_arms_disagree_iff", "M33_arms_disagree_entry", "M44_affine_vs_gj", "M44_arms_disagree",
            "M33_general_guard_imp_affine_guard",
            # ... tied to the extracted code (both arms of Gen.M33.inverse in one statement)
            "M33_adjugate_row2_of_cols", "M33_fast_path_accepts_general_refuses_iff", "M33_jump_of_translation_cofactor",
            # auxiliaries the above cite
            "M33_det_affine", "M44_det_affine", "M33_inverse_of_one_le_abs_det", "M33_gjInverse_eq_adjugate", "M44_gjInverse_eq_adjugate"]
# the three recorded findings (KNOWN_FINDINGS.jsonl): cofactor arms lose cond^2*eps
COFACTOR_PATHS = ("M33.inverse:cofactor-general-arm", "M44.inverse:cofactor-affine-arm")
# ... which must not absorb a NEW defect: ceilings under keys that are NOT known findings (harness: C2, WELLCOND)
C2 = 1              # err <= C2*cond^2*eps*|X| where cond^2*eps <= 1/16; clean-tree maximum 0.43 (seeds 1-5, thorough size); jump: 2*C2, maximum 0.25
WELLCOND = 100      # for cond <= WELLCOND the cofactor arms DO meet 8*cond*eps*|X| (clean-tree maximum 0.79): violation otherwise
# drift ceilings of the conforming paths: clean-tree maxima over seeds 1-5 at the thorough size + ~0.4 (the property's bound CBOUND is 8 / 16)
DRIFT = {"M22.inverse": (1.10, 1.5), "M33.gjInverse": (0.64, 1.0), "M33.inverse:affine-arm": (0.43, 0.8), "M44.gjInverse": (0.41, 0.8),
         "M44.inverse:nonaffine-arm": (0.41, 0.8), "affine-jump:M33.inverse": (0.69, 1.1)}


# ---------------------------------------------------------------------------------------------------------------
# executable spec in exact rationals (independent of the model), used to find a failing input for a broken theorem

def _det(m):
    n = len(m)
    if n == 1:
        return m[0][0]
    return sum(((-1) ** j) * m[0][j] * _det([r[:j] + r[j + 1:] for r in m[1:]]) for j in range(n))


def _adj(m):
    n = len(m)
    return [[((-1) ** (i + j)) * _det([r[:i] + r[i + 1:] for k, r in enumerate(m) if k != j]) for j in range(n)] for i in range(n)]


def spec_inverse(m, tmin):
    """what the property says inverse() returns, in exact arithmetic"""
    n = len(m)
    ident = [[Fraction(int(i == j)) for j in range(n)] for i in range(n)]
    affine = n > 2 and all(m[i][n - 1] == 0 for i in range(n - 1)) and m[n - 1][n - 1] == 1
    r = _det(m)
    if n == 4 and not affine:           # Gauss-Jordan arm: exact inverse, identity iff singular
        return [[x / r for x in row] for row in _adj(m)] if r != 0 else ident
    cof = [x for row in (_adj([row[:n - 1] for row in m[:n - 1]]) if affine else _adj(m)) for x in row]
    if abs(r) >= 1 or all(abs(s) < abs(r) / tmin for s in cof):
        return [[x / r for x in row] for row in _adj(m)]
    return ident


def inverse_search(chk, binary, theorem):
    mm = re.match(r"M(22|33|44)_", theorem)
    if not mm or "gj" in theorem or not binary:
        return None
    n = int(mm.group(1)[0])
    rng = random.Random(chk.seed * 104729 + n)
    tmin = Fraction(1, 2 ** 1022)
    fns = ["M%d%d.invert" % (n, n)] if "invert" in theorem else ["M%d%d.inverse" % (n, n), "M%d%d.invert" % (n, n)]
    vals = [0, 0, 1, -1, 2, -2, 3, Fraction(1, 2), Fraction(-1, 2), Fraction(1, 4), 5]
    for trial in range(280):
        kind = trial % 7
        m = [[Fraction(rng.choice(vals)) for _ in range(n)] for _ in range(n)]
        if kind == 6:
            # the overflow guard itself: row k of the guarded block (whole matrix; linear block of an affine matrix) scaled so that
            # |det|/tmin lies between the two largest cofactors that do not contain row k: exactly one guard fails
            K = n if (n == 2 or (n == 3 and trial % 14 == 6)) else n - 1
            A = [[Fraction(rng.choice([1, -1, 2, -2, 3, -3, 5, 7])) for _ in range(K)] for _ in range(K)]
            d = _det(A)
            if d == 0:
                continue
            k = rng.randrange(K)
            cs = sorted(set(abs(row[k]) for row in _adj(A)), reverse=True)
            thr = (cs[0] + cs[1]) / 2 if len(cs) > 1 else cs[0] / 2
            A[k] = [x * thr * tmin / abs(d) for x in A[k]]
            m = [[Fraction(int(i == j)) for j in range(n)] for i in range(n)]
            for i in range(K):
                for j in range(K):
                    m[i][j] = Fraction(float(A[i][j]))          # what the real code will be given
            if K == n and n > 2 and all(m[i][n - 1] == 0 for i in range(n - 1)) and m[n - 1][n - 1] == 1:
                continue
        elif kind == 0:                                   # affine last column
            for i in range(n):
                m[i][n - 1] = Fraction(int(i == n - 1))
        elif kind == 1:                                 # last column from {0,1}: near-affine patterns
            for i in range(n):
                m[i][n - 1] = Fraction(rng.choice([0, 1]))
        elif kind == 2:                                 # singular: a repeated / zero row
            m[rng.randrange(n)] = [Fraction(0)] * n if trial % 12 == 2 else list(m[(rng.randrange(n))])
            if trial % 24 == 2:
                m = [[Fraction(0)] * n for _ in range(n)]
        elif kind == 3:                                 # small determinant (guarded branch)
            m = [[x / 4 for x in row] for row in m]
        want = spec_inverse(m, tmin)
        flat = [x for row in m for x in row]
        for fn in fns:
            rc, out = lib.sh([binary, "real", fn] + ["%r" % float(x) for x in flat] + ["--idx", IDX_GJ], timeout=60)
            mo = re.search(r"REAL \S+ exc=(\S+) vals=(.*?) ints=", out)
            if not mo:
                continue
            got = mo.group(2).split()
            bad = mo.group(1) != "-" or len(got) != n * n
            if not bad:
                for g, w in zip(got, [x for row in want for x in row]):
                    gf = float(g)
                    if gf != gf or abs(gf) == float("inf") or abs(Fraction(gf) - w) > Fraction(1, 10 ** 9) * max(1, abs(w)):
                        bad = True
                        break
            if bad:
                return {"key": "theorem:" + theorem, "function": fn, "input_row_major": [str(x) for x in flat],
                        "real_code_at_double": out.strip().split("\n")[-1],
                        "expected_exact (adj/det when |det|>=1 or the guards pass, identity otherwise; 4x4 non-affine: exact inverse or identity)":
                            [str(x) for row in want for x in row],
                        "replay_cmd": ".build/bin/sym_c06 real %s %s --idx harness/sym/index_gj.txt" % (fn, " ".join("%r" % float(x) for x in flat))}
    return None


# ---------------------------------------------------------------------------------------------------------------
# Gauss-Jordan correspondence: real gjInverse (double, float) vs the Lean model at Float / Float32, bit for bit

def correspondence(chk, binary, n):
    rc, out = lib.sh([binary, "corr", str(chk.seed), str(n)], timeout=1800)
    lines = out.split("\n")
    cases = [l for l in lines if " => " in l]
    selffails = [l for l in lines if l.startswith("SELF-FAIL")]
    summ = re.search(r"CORR cases=(\d+) self=(\d+) selffail=(\d+) classes=(\S*)", out)
    if not summ or not cases:
        chk.oblige("correspondence:gjInverse: harness ran", "correspondence", False, out[-500:])
        chk.fail("correspondence:gjInverse", "corr:run", "correspondence harness did not run", {"output": out[-2000:]}, False)
        return
    ins = "\n".join(l.split(" => ")[0] for l in cases) + "\n"
    rc2, mout = lib.sh([DRV], stdin=ins, timeout=1800)
    model = {}
    for l in mout.split("\n"):
        ws = l.split(" ", 1)
        if len(ws) == 2:
            model[ws[0]] = ws[1]
    mism, perclass, reach, wrong_stage = [], {}, {}, []
    for l in cases:
        inp, exp = l.split(" => ")
        tag = inp.split()[0]
        cls = re.sub(r"\d+$", "", tag).rstrip("-") + ":" + exp.split()[0]
        st = perclass.setdefault(cls, {"cases": 0, "exact_in_Rat": 0, "singular_exit": 0, "exits": {}})
        st["cases"] += 1
        got = model.get(tag, "")
        body, _, rest = got.partition(" qeq=")
        f = dict(kv.split("=", 1) for kv in ("qeq=" + rest).split() if "=" in kv)
        st["exact_in_Rat"] += f.get("qeq") == "1"
        st["singular_exit"] += "exc=invalidArgument" in exp
        if body != exp.strip():
            mism.append((cls, inp, exp.strip(), body))
            continue
        # which loop iteration left through a zero pivot / where rows were exchanged: read off the model's run, which has
        # just been found bit-identical to the real code on this input
        ex, sw = f.get("exit", "?"), f.get("swap", "?")
        st["exits"][ex] = st["exits"].get(ex, 0) + 1
        nt = exp.split()[0]
        r = reach.setdefault(nt, {"exits": {}, "swaps": {}})
        r["exits"][ex] = r["exits"].get(ex, 0) + 1
        for ch in (sw if sw not in ("-", "?") else ""):
            r["swaps"][ch] = r["swaps"].get(ch, 0) + 1
        mc = re.match(r"(zerocol|ex-stage)(\d)", cls)
        if mc and "nan" not in exp:
            n_, c_ = int(nt[0]), int(mc.group(2))
            want = "f%d" % c_ if c_ < n_ - 1 else "b%d" % (n_ - 1)
            if ex != want:
                wrong_stage.append((cls, inp, ex, want))
    ok = not mism and rc2 == 0
    chk.oblige("correspondence:gjInverse: Matrix33/44<double,float>::gjInverse(), gjInverse(true) == Lean model at Float/Float32, bit for bit (%d cases)" % len(cases),
               "correspondence", ok, None if ok else [m[0] for m in mism[:5]])
    chk.count(len(cases), sum(1 for l in cases if "exc=ok" in l))
    seen = set()
    for cls, inp, exp, got in mism:
        if cls in seen:
            continue
        seen.add(cls)
        ws = inp.split()
        chk.fail("correspondence:gjInverse", "corr:gjInverse:" + cls,
                 "the real gjInverse and the hand model (Model/GaussJordan.lean) disagree on a %s matrix" % cls,
                 {"input_bits_row_major": ws[3:], "dimension": ws[1], "type": "double" if ws[2] == "d" else "float",
                  "real_code": exp, "lean_model": got,
                  "replay_cmd": "echo '%s' | lean/.lake/build/bin/drv_gj   # and: .build/bin/c06_inv corr %d %d | grep '^%s '" % (inp, chk.seed, n, ws[0])}, True)
    # exact classes: the same model in exact rational arithmetic gives the very same numbers (no operation rounded)
    ex = {k: v for k, v in perclass.items() if k.startswith("ex-")}
    exn, exq = sum(v["cases"] for v in ex.values()), sum(v["exact_in_Rat"] for v in ex.values())
    # per class and type: the classes exact BY CONSTRUCTION (signed scaled permutations; L*U with power-of-two pivots and a zero pivot at
    # stage c) must be exact in every case; singular dyadic >= 98 % (clean tree: 1 inexact in 8,000); general dyadic products (pivots
    # chosen by partial pivoting need not be powers of two) >= 88 % (clean tree: 91.3 - 98.7 %)
    def floor_of(cls):
        return 1.0 if cls.startswith(("ex-perm", "ex-stage")) else 0.98 if cls.startswith("ex-singular") else 0.88
    low = {k: "%d of %d" % (v["exact_in_Rat"], v["cases"]) for k, v in ex.items() if v["exact_in_Rat"] < floor_of(k) * v["cases"]}
    okx = exn > 0 and not low and all(v["cases"] > 0 for v in ex.values())
    chk.oblige("correspondence:exact: real result == model evaluated over Rat (no operation rounded): ALL ex-perm / ex-stage cases, >= 98 %% of ex-singular, "
               ">= 88 %% of ex-dyadic, per dimension and type (%d of %d overall)" % (exq, exn),
               "correspondence", okx, None if okx else low)
    if not okx:
        chk.fail("correspondence:exact", "corr:exact-classes", "real gjInverse differs from exact rational arithmetic on dyadic matrices more often than on the calibrated tree", {"below_floor": low, "all": ex}, False)
    oks = int(summ.group(3)) == 0 and not selffails
    chk.oblige("correspondence:spellings: in-place forms: gjInvert()/gjInvert(true)/invert() leave what gjInverse()/inverse() return; gjInverse(true)/(false), inverse(true)/(false), invert(false) values = the noexcept forms; "
               "M44.inverse() non-affine = gjInverse()  (%s in-process checks)" % summ.group(2), "correspondence", oks, selffails[:3] or None)
    chk.count(int(summ.group(2)), int(summ.group(2)))
    for l in selffails[:5]:
        what = l.split()[1]
        chk.fail("correspondence:spellings", "self:" + what, "spellings of the same operation disagree: " + what, {"line": l[:600]}, True)
    sing = {k: v["singular_exit"] for k, v in perclass.items() if v["singular_exit"]}
    # generator reach (audit W5/S5): REQUIRED, not only recorded
    miss = []
    for nt in ("3d", "3f", "4d", "4f"):
        n_ = int(nt[0])
        r = reach.get(nt, {"exits": {}, "swaps": {}})
        for ex in ["f%d" % i for i in range(n_ - 1)] + ["b%d" % (n_ - 1), "-"]:
            if not r["exits"].get(ex):
                miss.append("%s: no case leaves at %s" % (nt, ex))
        for i in range(n_ - 1):
            if not r["swaps"].get(str(i)):
                miss.append("%s: no row exchange at forward stage %d" % (nt, i))
        for c_ in range(n_):
            for fam in ("zerocol%d" % c_, "zerorow%d" % c_, "ex-stage%d" % c_):
                if not perclass.get(fam + ":" + nt, {}).get("singular_exit"):
                    miss.append("%s: class %s has no zero-pivot exit" % (nt, fam))
        for fam in ("ex-perm", "ex-dyadic", "rankdef", "affine", "nearsing", "special"):
            if not perclass.get(fam + ":" + nt, {}).get("cases"):
                miss.append("%s: class %s is empty" % (nt, fam))
    okr = not miss and not wrong_stage and not mism
    chk.oblige("correspondence:reach: zero-pivot exit at EVERY forward stage and at the last backward stage, a row exchange at every forward stage, "
               "every zerocol/zerorow/ex-stage class exits, zerocol<c>/ex-stage<c> leave exactly at stage c; 3x3, 4x4, double, float",
               "correspondence", okr, None if okr else (miss + ["%s left at %s, expected %s" % (w[0], w[2], w[3]) for w in wrong_stage])[:8])
    if (miss or wrong_stage) and not mism:
        chk.fail("correspondence:reach", "corr:reach", "the correspondence generator no longer reaches every exit / row exchange of gjInverse "
                 "(or a matrix whose first zero pivot is at stage c leaves elsewhere)", {"missing": miss[:20],
                 "wrong_stage": [{"class": w[0], "input": w[1], "left_at": w[2], "expected": w[3]} for w in wrong_stage[:5]]}, bool(wrong_stage))
    chk.extra["gj_correspondence"] = {"cases": len(cases), "mismatches": len(mism), "classes": perclass,
                                      "zero_pivot_exits_by_class": sing, "reach": reach}
    for l in cases[:3]:
        chk.sample({"case": l[:400]})


# ---------------------------------------------------------------------------------------------------------------
# exhaustive small-integer 3x3 families: real gjInverse == model at Float (bit for bit), model at Rat == det^-1 * adjugate
# (exact integers, computed by the harness), real code within 8 eps of it; every exit / pivot pattern occurs

def exhaustive(chk, binary):
    from concurrent.futures import ThreadPoolExecutor
    stride = 1 if chk.thorough else 4
    rc, out = lib.sh([binary, "exh33", str(stride), str(chk.seed % stride)], timeout=1800)
    lines = out.split("\n")
    cases = [l for l in lines if " => " in l]
    summ = re.search(r"EXH cases=(\d+) singular=(\d+) fails=(\d+) self=(\d+) selffail=(\d+)", out)
    name = ("exhaustive:gjInverse33: %s 3x3 matrices over {-1,0,1,2} (%s) and all 8000 with first column in {-2..2}^3, other entries in {0,1} "
            "(double and float): real gjInverse()/(true)/(false)/gjInvert == model at Float bit for bit; model over Rat == det^-1*adjugate "
            "in exact integers; throws <=> det = 0 <=> identity" % ("ALL 262144" if stride == 1 else "65536 of the 262144", "every index" if stride == 1 else "hash(index) = seed mod 4"))
    if not summ or not cases:
        chk.oblige(name, "correspondence", False, out[-500:])
        chk.fail("exhaustive:gjInverse33", "exh33:run", "exhaustive harness did not run", {"output": out[-2000:]}, False)
        return
    ins = [l.split(" => ")[0] for l in cases]
    nchunk = min(8, lib.NCPU if hasattr(lib, "NCPU") else 4)
    chunks = [ins[i::nchunk] for i in range(nchunk)]
    with ThreadPoolExecutor(max_workers=nchunk) as ex:
        outs = list(ex.map(lambda c: lib.sh([DRV], stdin="\n".join(c) + "\n", timeout=1800), chunks))
    model = {}
    for rc2, mout in outs:
        for l in mout.split("\n"):
            ws = l.split(" ", 1)
            if len(ws) == 2:
                model[ws[0]] = ws[1]
    bad, patterns, exact_float = [], {}, 0
    ident = "1,0,0,0,1,0,0,0,1"
    for l in cases:
        inp, rest = l.split(" => ")
        exp, _, spec = rest.partition(" ## ")
        tag = inp.split()[0]
        got = model.get(tag, "")
        body, _, tail = got.partition(" qeq=")
        f = dict(kv.split("=", 1) for kv in ("qeq=" + tail).split() if "=" in kv)
        sp = dict(kv.split("=", 1) for kv in spec.split())
        why = None
        if body != exp.strip():
            why = "real code != model at Float/Float32"
        else:
            rexc, _, rvals = f.get("rat", ":").partition(":")
            if sp.get("det") == "0":
                if rexc != "invalidArgument" or rvals != ident or "exc=invalidArgument" not in exp:
                    why = "det = 0 but the model over Rat / the real code does not take the singular exit"
            elif rexc != "ok" or rvals != sp.get("q") or "exc=ok" not in exp:
                why = "model over Rat != det^-1 * adjugate (exact)"
        if why:
            bad.append((why, inp, exp.strip(), got, spec))
            continue
        exact_float += f.get("qeq") == "1"
        k = "%s exit=%s swap=%s" % (exp.split()[0], f.get("exit"), f.get("swap"))
        patterns[k] = patterns.get(k, 0) + 1
    # all 4 exits x all 4 exchange patterns that can precede them (3x3): -,0,1,01 with no exit or the backward exit; -,0 before f1; - before f0
    want = ["%s exit=%s swap=%s" % (nt, e, w) for nt in ("3d", "3f")
            for e, ws in (("-", ("-", "0", "1", "01")), ("b2", ("-", "0", "1", "01")), ("f1", ("-", "0")), ("f0", ("-",))) for w in ws]
    missing = [w for w in want if patterns.get(w, 0) < 20]          # a floor, not `> 0` (smallest clean-tree count: 64)
    efail = [l for l in lines if l.startswith("EXH-FAIL") or l.startswith("SELF-FAIL")]
    ok = not bad and not missing and not efail and int(summ.group(3)) == 0 and int(summ.group(5)) == 0 and len(model) == len(cases)
    chk.oblige(name, "correspondence", ok, None if ok else ([b[0] for b in bad[:3]] + missing[:3] + efail[:3]))
    chk.count(len(cases) * 3, len(cases) - int(summ.group(2)))
    seen = set()
    for why, inp, exp, got, spec in bad:
        if why in seen:
            continue
        seen.add(why)
        ws = inp.split()
        chk.fail("exhaustive:gjInverse33", "exh33:gjInverse33:" + ("model-vs-real" if "real code !=" in why else "model-vs-spec"),
                 "3x3 small-integer matrix: " + why,
                 {"input_bits_row_major": ws[3:], "type": "double" if ws[2] == "d" else "float", "real_code": exp, "lean_model": got,
                  "exact_spec (det, det^-1*adjugate)": spec, "replay_cmd": "echo '%s' | lean/.lake/build/bin/drv_gj" % inp}, True)
    for l in efail[:3]:
        chk.fail("exhaustive:gjInverse33", "exh33:gjInverse33:real-vs-spec:" + l.split()[1], "real gjInverse on a small-integer 3x3 matrix: " + l.split()[1],
                 {"line": l[:600]}, True)
    if missing and not bad:
        chk.fail("exhaustive:gjInverse33", "exh33:reach", "an exit / row-exchange pattern of the 3x3 Gauss-Jordan is no longer reached", {"missing": missing}, False)
    chk.extra["gj33_exhaustive"] = {"cases": len(cases), "stride": stride, "singular": int(summ.group(2)), "in_process_spelling_checks": int(summ.group(4)),
                                    "float_result_equals_model_over_Rat (no rounding at all)": exact_float, "exit_and_exchange_patterns": patterns}


# ---------------------------------------------------------------------------------------------------------------
# residue

def residue(chk, binary, n):
    rc, out = lib.sh([binary, "residue", str(chk.seed), str(n), str(CBOUND)], timeout=3600)
    summ = re.search(r"RESIDUE evals=(\d+) failures=(\d+) bound=(\S+) det_ge1=(\d+) det_lt1=(\d+) guard_identity=(\d+) finite_checked=(\d+) lattice_checked=(\d+) dynamic_range_excluded_from_finiteness=(\d+) "
                     r"outside_range_checked=(\d+) outside_range_nonfinite=(\d+)", out)
    if not summ:
        chk.oblige("residue", "residue", False, out[-500:])
        chk.fail("residue", "residue:run", "residue harness failed to run", {"output": out[-2000:]}, False)
        return
    chk.count(int(summ.group(1)), int(summ.group(1)))
    paths = {}
    for m in re.finditer(r"RPATH (\S+) (d|f) n=(\d+) judged=(\d+) worst=(\S+) worst_at_cond=(\S+) fails=(\d+) nonfinite=(\d+)", out):
        p = paths.setdefault(m.group(1), {"cases": 0, "judged": 0, "fails": 0, "nonfinite": 0})
        p["cases"] += int(m.group(3)); p["judged"] += int(m.group(4)); p["fails"] += int(m.group(7)); p["nonfinite"] += int(m.group(8))
        p["worst_" + ("double" if m.group(2) == "d" else "float")] = float(m.group(5))
        p["worst_at_cond_" + ("double" if m.group(2) == "d" else "float")] = float(m.group(6))
    fails = {}
    for l in out.split("\n"):
        if l.startswith("RESIDUE-FAIL "):
            fails.setdefault(l.split()[1], []).append(l)
    # obligation names start with the key of the failures that can break them (lib.finish ties them by prefix)
    for name, p in sorted(paths.items()):
        if name.startswith("lattice:"):
            text = "residue:%s: integer lattice, every entry produced by one division is the correctly rounded adj/det (%d matrices)" % (name, p["judged"])
        elif name.startswith("affine-jump:"):
            text = "residue:%s: inverse of an affine matrix vs the same with one last-column entry moved by one ulp agree to %g*cond*eps*|X| (%d pairs)" % (name, 2 * CBOUND, p["judged"])
        elif name.startswith("affine-jump2:"):
            text = ("residue:%s: CEILING (not a known finding): the two inverses agree to %g*cond^2*eps*|X| wherever cond^2*eps <= 1/16 (%d of %d pairs)"
                    % (name, 2 * C2, p["judged"], p["cases"]))
        elif name.startswith("accuracy2:"):
            text = ("residue:%s: CEILING on the recorded cofactor-arm finding (not itself a known finding): error <= %g*cond^2*eps*|X| wherever cond^2*eps <= 1/16 "
                    "(%d of %d judged)" % (name, C2, p["judged"], p["cases"]))
        elif name.startswith("accuracy-wellcond:"):
            text = "residue:%s: the cofactor arm meets the property's %g*cond*eps*|X| for cond <= %g (%d judged; not a known finding)" % (name, CBOUND, WELLCOND, p["judged"])
        else:
            text = "residue:accuracy:%s: error <= %g*cond*eps*|X| up to cond 1/eps, finite below 1/eps^2 (%d judged)" % (name, CBOUND, p["judged"])
        chk.oblige(text, "residue", p["fails"] == 0 and p["nonfinite"] == 0 and p["cases"] > 0 and (p["judged"] >= 100 or not name.startswith("acc")),
                   None if p["fails"] == 0 else {"failures": p["fails"], "worst": {k: v for k, v in p.items() if k.startswith("worst")}})
    for arm in COFACTOR_PATHS:
        for fam in ("accuracy2:", "accuracy-wellcond:"):
            if fam + arm not in paths:
                chk.oblige("residue:%s%s: judged" % (fam, arm), "residue", False, "no RPATH line")
                chk.fail("residue:" + fam + arm, "residue:" + fam + arm + ":missing", "the ceiling on the cofactor arm was not judged", {}, False)
    # drift: the conforming paths have ~10x headroom to the property's bound; a regression costing a few x is held by these
    # ceilings (clean-tree maximum + ~0.4), under their own keys
    for name, (cal, ceil) in sorted(DRIFT.items()):
        p = paths.get(name, {})
        w = max(p.get("worst_double", 0), p.get("worst_float", 0))
        ok = bool(p) and w <= ceil
        chk.oblige("residue:drift:%s: worst measured %.3g <= %g (clean-tree maximum %.2g over seeds 1-5 at the thorough size; the property's bound is %g)"
                   % (name, w, ceil, cal, 2 * CBOUND if name.startswith("affine-jump") else CBOUND), "residue", ok, None if ok else p)
        if not ok:
            chk.fail("residue:drift:" + name, "residue:drift:" + name, "%s: measured worst error %.3g (units of cond*eps*|X|) is above the drift ceiling %g although below the "
                     "property's bound: the path has become less accurate than on the calibrated tree" % (name, w, ceil), p, False)
    # the overflow guard against its independent float-level specification (harness: guardSpec); identity results are
    # accepted only where that spec asks for them or cannot decide
    guards = {}
    for m in re.finditer(r"RGUARD (\S+) (d|f) n=(\d+) must_divide=(\d+) must_identity=(\d+) band=(\d+) ties=(\d+) unique_fail_positions=(\d+)/(\d+) fails=(\d+) edge_cases=(\d+) edge_band=(\d+)", out):
        g = guards.setdefault(m.group(1), {"cases": 0, "spec_says_divide": 0, "spec_says_identity": 0, "undecided_band": 0, "exact_ties": 0, "fails": 0, "by_type": {}})
        for k, i in (("cases", 3), ("spec_says_divide", 4), ("spec_says_identity", 5), ("undecided_band", 6), ("exact_ties", 7), ("fails", 10)):
            g[k] += int(m.group(i))
        g["by_type"][m.group(2)] = {"divide": int(m.group(4)), "identity": int(m.group(5)), "ties": int(m.group(7)),
                                    "positions_hit_as_the_only_failing_cofactor": int(m.group(8)), "positions": int(m.group(9)),
                                    "guard_edge_cases_built_to_be_decided": int(m.group(11)), "of_which_in_the_band": int(m.group(12))}
    for name in ("M22.inverse", "M33.inverse:affine-arm", "M33.inverse:cofactor-general-arm", "M44.inverse:cofactor-affine-arm"):
        g = guards.get(name, {"cases": 0, "fails": 1, "by_type": {}, "spec_says_divide": 0, "spec_says_identity": 0})
        bt = g["by_type"]
        # floors, not `> 0`: per type at least 200 decided guard-edge cases, at least 100 of each verdict, at most 2 % of the guard-edge
        # cases built to be decided may end in the band (clean tree: 0 - 0.09 %)
        reach = all(bt.get(t, {}).get("divide", 0) >= 100 and bt.get(t, {}).get("identity", 0) >= 100 and bt.get(t, {}).get("ties", 0) > 0
                    and bt.get(t, {}).get("positions", 0) > 0 and bt[t]["positions_hit_as_the_only_failing_cofactor"] == bt[t]["positions"]
                    and bt[t]["guard_edge_cases_built_to_be_decided"] >= 200
                    and bt[t]["of_which_in_the_band"] * 50 <= bt[t]["guard_edge_cases_built_to_be_decided"] for t in ("d", "f"))
        ok = g["fails"] == 0 and reach
        chk.oblige("residue:guard:%s: identity <=> |det| < 1 and |det|/min() <= some |cofactor| (quad spec with rounding band; %d must-divide, %d must-be-identity, "
                   "every cofactor position hit as the only failing one, exact ties, <= 2 %% of the decided guard-edge classes in the band)" % (name, g["spec_says_divide"], g["spec_says_identity"]),
                   "residue", ok, None if ok else g)
        if g["fails"] == 0 and not reach:
            chk.fail("residue:guard:" + name, "residue:guard-reach:" + name, "the guard-edge generator no longer reaches both verdicts / every cofactor position for " + name, g, False)
    for name in ("M33.gjInverse", "M44.gjInverse", "M44.inverse:nonaffine-arm"):
        g = guards.get(name, {"fails": 0})
        chk.oblige("residue:guard:%s: no zero-pivot exit (identity) for cond < 1/(64 eps)" % name, "residue", g["fails"] == 0 and paths.get(name, {}).get("judged", 0) > 0,
                   None if g["fails"] == 0 else g)
    jumps = {}
    for m in re.finditer(r"RJUMP affine-jump:(\S+) (d|f) pairs=(\d+) one_side_identity=(\d+) arms_disagree_as_in_theorem=(\d+) perturbation_crossed_threshold=(\d+) band=(\d+) unexplained=(\d+) within_cond_1/eps=(\d+)", out):
        j = jumps.setdefault(m.group(1), {"pairs": 0, "one_side_identity": 0, "arms_disagree_as_in_theorem": 0, "perturbation_crossed_threshold": 0, "band": 0, "unexplained": 0, "within_cond_1/eps": 0})
        for k, i in zip(list(j.keys()), range(3, 10)):
            j[k] += int(m.group(i))
    for fn, thm in (("M33.inverse", "M33_arms_disagree_iff"), ("M44.inverse", "M44_affine_vs_gj")):
        j = jumps.get(fn, {"one_side_identity": 0, "unexplained": 1, "within_cond_1/eps": 0, "arms_disagree_as_in_theorem": 0})
        ok = j["unexplained"] == 0 and j["within_cond_1/eps"] == 0 and j["arms_disagree_as_in_theorem"] >= 100
        chk.oblige("residue:affine-jump-identity:%s: pairs with the identity on ONE side only are counted, not skipped (%d): each side is what the spec of its arm decides "
                   "(%d are the arms disagreeing on the affine matrix itself as characterised by %s, %d the perturbation crossing the threshold, %d in the rounding band), "
                   "none with cond <= 1/eps" % (fn, j["one_side_identity"], j["arms_disagree_as_in_theorem"], thm, j.get("perturbation_crossed_threshold", 0), j.get("band", 0)),
                   "residue", ok, None if ok else j)
        if j["unexplained"] == 0 and j["within_cond_1/eps"] == 0 and not ok:
            chk.fail("residue:affine-jump-identity:" + fn, "residue:jump-reach:" + fn, "no pair exhibits the exact-arithmetic disagreement of the two arms any more", j, False)
    # inputs OUTSIDE the property's dynamic-range quantifier (a non-zero entry below eps^2*max|entry|) with cond < 1/eps^2 are not
    # claimed finite; they are still run against the weaker statement "finite unless the exact inverse is not representable" and
    # the share of exceptions is bounded, so that a new inf/NaN source on e.g. denormal-perturbed affine matrices is visible
    # (clean tree: 0 of ~12,000 quick; 3 of ~800,000 at the thorough size over seeds 1-5, all float Gauss-Jordan with entries ~1e-36)
    oc, on = int(summ.group(10)), int(summ.group(11))
    oko = oc > 0 and on <= max(3, oc // 1000)
    chk.oblige("residue:nonfinite-outside-range: beyond the property's dynamic range (not claimed): result finite unless the exact inverse has an entry above max()/4, "
               "exceptions %d of %d <= max(3, 0.1 %%)" % (on, oc), "residue", oko, None if oko else {"checked": oc, "nonfinite": on})
    if not oko:
        chk.fail("residue:nonfinite-outside-range", "residue:nonfinite-outside-range", "inf/NaN results on matrices with a tiny entry (outside the property's "
                 "dynamic range, cond < 1/eps^2, exact inverse representable) have become frequent: %d of %d" % (on, oc),
                 {"examples": [l[:900] for l in out.split("\n") if l.startswith("ROUTSIDE ")][:3]}, on > 0)
    resid = {}
    for m in re.finditer(r"RRESIDUAL (\S+) (d|f) worst=(\S+)", out):
        resid.setdefault(m.group(1), {})["double" if m.group(2) == "d" else "float"] = float(m.group(3))
    for key, ls in fails.items():
        l = ls[0]                        # the fixed (unseeded) witnesses are judged first: canonical replay per key
        f = dict(re.findall(r"(\w[\w/()*|'-]*)=(\S+)", l))
        dec = re.search(r" dec=(\S+)", l)
        kind = key.split(":")[1] if key.count(":") >= 1 else key
        path = key.split(":", 2)[2] if key.count(":") >= 2 else key
        if kind == "accuracy":
            what = "measured error of %s exceeds the property's bound %g*cond*eps*|X|" % (path, CBOUND)
            if path in COFACTOR_PATHS:
                what += " (cofactor arm: adjugate/det loses eps*|M|^3/|det| ~ cond^2*eps when two singular values are small)"
        elif kind == "affine-jump":
            what = "%s jumps by more than %g*cond*eps*|X| when one last-column entry of an affine matrix moves by one ulp (fast path vs general path)" % (path, 2 * CBOUND)
        elif kind == "nonfinite":
            what = "%s returns inf/nan for a matrix with cond < 1/eps^2" % path
        elif kind == "spelling":
            what = "%s: the `bool singExc` body called with false returns something else than the noexcept body (duplicated code diverged)" % path
        elif kind == "accuracy2":
            what = ("%s: error above the CEILING %g*cond^2*eps*|X| that the recorded cofactor-arm finding itself obeys on the calibrated tree "
                    "(a new numerical defect, not the known cond^2*eps loss)" % (path, C2))
        elif kind == "accuracy-wellcond":
            what = "%s: error above the property's %g*cond*eps*|X| on a matrix with cond <= %g, where the cofactor arm conforms on the calibrated tree" % (path, CBOUND, WELLCOND)
        elif kind == "affine-jump2":
            what = "%s: fast path and general path differ by more than the ceiling %g*cond^2*eps*|X| (above the recorded jump finding)" % (path, 2 * C2)
        elif kind == "guard":
            what = ("%s: the float code and the independent quad specification of the overflow guard disagree on whether the identity must be returned "
                    "(|det| >= 1 or |det|/numeric_limits<T>::min() above EVERY cofactor of the block => adj/det; |det| < 1 and at or below one => identity)" % path)
        elif kind == "affine-jump-identity":
            what = "%s: an affine matrix and its one-ulp perturbation with cond <= 1/eps: one side returns the identity, the other does not" % path
        elif kind == "residual":
            what = "%s: M*X or X*M further from the identity than %g*N*cond^2*eps" % (path, CBOUND)
        elif kind == "lattice":
            what = ("%s on a small-integer matrix: an entry that is ONE division of exact quantities is not the correctly rounded adj/det "
                    "(or a singular integer matrix did not give the identity)" % path)
        else:
            what = "residue failure " + key
        chk.fail(key.replace("residue:nonfinite:", "residue:accuracy:").replace("residue:residual:", "residue:accuracy:"), key, what + ": " + l[14 + len(key):260],
                 {"line": l[:1500], "matrix_row_major_decimal": dec.group(1).split(",") if dec else None,
                  "element_type": "double" if " d " in l[:120] else "float", "ratio_and_cond": {k: v for k, v in f.items() if k in ("cond", "bound", "class")},
                  "replay_cmd": ".build/bin/c06_inv residue %d %d %g | grep '%s'" % (chk.seed, n, CBOUND, key)}, True)
    chk.residues["C06"] = {
        "unit": "max |X_impl - X_113bit| / (cond_inf(M) * eps * |X|_inf); bound c = %g (affine jump: 2c)" % CBOUND,
        "per_code_path": paths, "evaluations": int(summ.group(1)),
        "guard_vs_independent_quad_spec": guards, "affine_jump_pairs_with_identity_on_one_side": jumps,
        "worst max(|MX-I|,|XM-I|)/(N*cond^2*eps) per path (bound %g; implied by the entrywise bound)" % CBOUND: resid,
        "branch_hits": {"|det|>=1": int(summ.group(4)), "|det|<1 (guarded)": int(summ.group(5)), "identity accepted as clean singular outcome among cond <= 1/eps (spec asks for it or cannot decide)": int(summ.group(6))},
        "finite_results_checked_below_cond_1/eps^2": int(summ.group(7)), "integer_lattice_matrices": int(summ.group(8)),
        "excluded_from_the_finiteness_claim (a non-zero entry below eps^2*max|entry|, e.g. the denormal one-ulp perturbation of a 0)": int(summ.group(9)),
        "outside_that_range_with_cond<1/eps^2: checked for `finite unless the exact inverse has an entry above max()/4`": int(summ.group(10)),
        "outside_that_range: non-finite although the exact inverse is representable (NOT a failure of the property; share bounded)": int(summ.group(11)),
        "outside_that_range_examples": [l[:700] for l in out.split("\n") if l.startswith("ROUTSIDE ")][:3],
        "classes": dict(kv.split("=") for kv in (re.search(r"RCLASSES (.*)", out).group(1).split() if re.search(r"RCLASSES (.*)", out) else []))}


def run(chk):
    chk.trusted = ["Lean 4.33 kernel; axioms propext/Classical.choice/Quot.sound at most", "Mathlib's Matrix.det/adjugate/mul",
                   "translator harness/sym (TV each run, bitwise at float and double; emitted Lean text re-evaluated at Rat)",
                   "hand model Model/GaussJordan.lean, tied to ImathMatrix.h gjInverse (4 bodies) by bitwise correspondence at double and float "
                   "(Lean Float/Float32 = the same SSE2 operations as g++ -O1 -ffp-contract=off)",
                   "__float128 full-pivoting Gauss-Jordan as the oracle of the measured residue",
                   "harness/corr/c06_inv.cpp guardSpec: determinant and cofactors in __float128 with rounding/underflow intervals (16 eps * sum|products| "
                   "+ 16 denorm_min) as the float-level specification of the overflow guard; exact 64-bit integer det/adjugate for the exhaustive 3x3 families"]
    chk.assumptions = ["rounding: NOT proved; the accuracy clause (c*cond*eps*|X|, finiteness below 1/eps^2, no jump at the affine test) is MEASURED "
                       "per code path against a 113-bit inverse (partial)",
                       "theorems are over an arbitrary ordered field with tmin = numeric_limits<T>::min() a parameter; WHICH constant the code reads is "
                       "pinned at extraction (tools/pins) and measured by the guard specification (min() hard-wired there)",
                       "the guard specification decides only outside its rounding band (band sizes are in the evidence; of the guard-edge classes "
                       "built to be decided at most 2 % may fall into it); Gauss-Jordan: an identity result is a failure only for cond < 1/(64 eps)",
                       "finiteness: 'bounded dynamic range' = max|entry| / min non-zero |entry| <= 1/eps^2 (the largest condition number in the clause); "
                       "inputs beyond it are excluded from the claim, counted, and held to a weaker statement with a bounded share of exceptions",
                       "the three known findings are path-wide keys; the same paths are held to a cond^2*eps ceiling (where cond^2*eps <= 1/16) and to "
                       "8*cond*eps for cond <= 100 under separate keys; beyond cond^2*eps = 1/16 the cofactor arms are covered by the finding only",
                       "drift ceilings and class floors are calibrated on the clean tree (seeds 1-5, thorough size) and could in principle be "
                       "exceeded by an unlucky seed without any change of the source"]
    chk.rule = ("theorems: all matrices. correspondence: dyadic matrices with power-of-two pivots (exact), signed scaled permutations (swap at every "
                "stage), random / integer / graded, zero column or row at each position, LU products with a zero pivot first met at each stage, "
                "rank-deficient, affine, nearly singular, signed zeros/denormals/huge/inf/nan; 3x3 and 4x4, double and float. residue: well "
                "conditioned, U*diag(sigma)*V with three singular-value profiles and cond up to 1/eps (and up to 1/eps^2 for finiteness), "
                "row-scaled dyadic, |det| within a few ulps of 1, affine with one-ulp perturbation of the last column, integer lattice; "
                "guard-edge: one row of a well-conditioned block scaled so that |det|/min() is above all / between the two largest / below / within "
                "ulps of the cofactors (general and affine arms, every cofactor position), exact ties of the guard; fixed witnesses first. "
                "exhaustive: all 3x3 matrices over {-1,0,1,2} (quick: a hashed quarter) + first column {-2..2}^3 x {0,1}^6")
    bins = troute.build_extractors(chk, [dict(name="sym_c06", source="sym/sym_c06.cpp"), dict(name="c06_inv", source="corr/c06_inv.cpp")])
    rcd, outd = lib.lake_build(["drv_gj"])
    chk.oblige("build:drv_gj", "build", rcd == 0, None if rcd == 0 else outd[-800:])
    if bins.get("sym_c06"):
        index, changed = troute.regenerate(chk, bins["sym_c06"], "c06", idx_deps=[IDX_GJ])
        troute.tv(chk, bins["sym_c06"], "c06", 600 if chk.thorough else 96, idx_deps=[IDX_GJ])
        if hasattr(troute, "lean_tv"):
            troute.lean_tv(chk, bins["sym_c06"], "c06", index, n=8 if chk.thorough else 3, idx_deps=[IDX_GJ])
            # M44.inverse / M44.invert call the opaque hand model: sym_c06.cpp gives the callee at exact fractions (the exact inverse /
            # identity, which is what M44.gjInverse is PROVED to be over Rat), so these two entries are validated too
            sk = chk.extra.get("lean_tv", {}).get("c06", {}).get("skipped_external_calls")
            chk.oblige("lean-tv:c06: no entry skipped (M44.inverse/invert: emitted call of M44.gjInverse at Rat vs the exact inverse computed by the extractor)",
                       "translation-validation", sk == 0, {"skipped": sk})
            if sk:
                chk.fail("lean-tv:c06", "lean-tv:c06:skipped", "entries with opaque calls were skipped by the Lean-side validation", {"skipped": sk}, False)
        for d in index:
            chk.sample({"entry": d["name"], "paths": d.get("paths")})
    chk.check_theorems(MODULE, required=REQUIRED, search=lambda name: inverse_search(chk, bins.get("sym_c06"), name))
    ths = [t[0] for t in lib.theorems_in(os.path.join(lib.LEAN, *MODULE.split(".")) + ".lean")]
    notreq = [t for t in ths if t not in REQUIRED]
    chk.oblige("theorems: REQUIRED lists every theorem of Props/C06.lean (%d)" % len(ths), "theorem", not notreq and len(ths) == len(REQUIRED), notreq or None)
    if notreq:
        chk.fail("theorems: REQUIRED", "required:unlisted", "Props/C06.lean has theorems that the check does not require (deleting them would be silent)", {"unlisted": notreq}, False)
    if bins.get("c06_inv"):
        if rcd == 0:
            correspondence(chk, bins["c06_inv"], 2000 if chk.thorough else 150)
        else:
            chk.fail("build:drv_gj", "build:drv_gj", "model driver does not build", {"output": outd[-3000:]}, False)
        if rcd == 0:
            exhaustive(chk, bins["c06_inv"])
        residue(chk, bins["c06_inv"], 40000 if chk.thorough else 3000)
    if chk.thorough:
        chk.leanchecker(MODULE)
