"""C18 — random generators are deterministic, range-correct and rand48-compatible.

Theorems: lean/ImathVerif/Props/C18.lean over the hand model Model/Rand48.lean
(all states / seeds / call sequences, nothing enumerated).
Tie: harness/corr/rand48_corr.cpp (the real ImathRandom.cpp / ImathRandom.h, rebuilt
from the current tree) against lean/Driver/Rand48.lean on the same line protocol:
boundary states, >= 10^6 (quick) / 10^7 (thorough) states derived from the seed,
mixed call sequences; the real code is compared with glibc's rand48 family on
the same inputs inside the harness.
Sphere samplers: ONE loop iteration of solidSphereRand / hollowSphereRand and the body of
gaussSphereRand are regenerated from ImathRandom.h on every run (T-route, harness/sym/ops_c18.h:
the real templates instantiated with a scripted generator); Props/C18Samplers.lean proves that
the hand loop models iterate those generated steps.  gaussRand (float-typed, not extractable)
and the same templates at float/double are run with a scripted generator on lattices of
candidates against an exact integer specification and against the hand model evaluated in Lean.
nextf(a,b): bit-equality with a*(1-f)+b*f computed from a COPY of the generator (all 2^23 values
of f for special float pairs).
Residue (measured, not proved): floating-point rounding of nextf(a,b) and
finiteness / ball / sphere membership of the samplers in float and double."""
import os, re, struct
import lib, troute

REQUIRED = ["next_is_lcg", "nrand48_spec", "sub_one_exact_dbl", "erand48_spec", "srand48_spec", "static_forms",
            "run_refines", "run_counts", "rand48_class", "rand32_next", "rand32_nexti", "rand32_nextb",
            "sub_one_exact_flt", "rand32_nextf", "rand32_low32_only", "run32_low32_only", "rand32_seq_function_of_seed",
            "step_streams_independent", "user_stream_independent_of_static", "static_stream_independent_of_user",
            "rand48_seq_function_of_seed", "r48Init_limb_duplicated",
            "nextf_range_convex", "length2_nonneg", "solidSphereRand_exit", "hollowSphereRand_exit", "gaussRandLoop_exit",
            "gaussSphereRand_length2", "gaussRand_real", "gaussRand_real_bound", "gaussRand_bound_of_float",
            "gaussRand_bound_rand32", "gaussRand_bound_rand48", "object_stream_independent_of_other_object"]
PROPS_S = "ImathVerif.Props.C18Samplers"
REQUIRED_S = ["loopGen_exit"] + [t % n for n in (2, 3, 4) for t in (
    "solidSphere%d_iter_eq", "solidSphereRand_is_gen%d", "solidSphere%d_loop_exit", "hollowSphere%d_iter_eq",
    "hollowSphereRand_is_gen%d", "hollowSphere%d_loop_exit", "gaussSphere%d_body_eq", "gaussSphere%d_body_norm")]

DRV = os.path.join(lib.LEAN, ".lake", "build", "bin", "drv_rand48")
M48 = (1 << 48) - 1
M64 = (1 << 64) - 1
A, C = 0x5DEECE66D, 0xB
AINV = pow(A, -1, 1 << 48)

# ---------------------------------------------------------------------------
# independent executable form of the specification (POSIX), used by `search`


def lcg(x):
    return (A * x + C) & M48


def spec_nrand(x):
    return lcg(x) >> 17


def spec_erand_bits(x):
    x1 = lcg(x)
    m = 16 * x1 + (x1 >> 44)
    return struct.unpack("<Q", struct.pack("<d", m / 4503599627370496.0))[0]  # m < 2^52: exact


def spec_srand(seed):
    return ((seed & 0xffffffff) << 16) | 0x330E


def spec_r32(seed, ops):
    st = (((seed * 0xa5a573a5) & M64) ^ 0x5a5a5a5a) & 0xffffffff
    out = []
    for o in ops:
        st = (1664525 * st + 1013904223) & 0xffffffff
        if o == "i":
            out.append("i %x" % st)
        elif o == "b":
            out.append("b %d" % (st >> 31))
        elif o == "f":
            m = st & 0x7fffff
            out.append("f %x" % struct.unpack("<I", struct.pack("<f", m / 8388608.0))[0])
    return out


def limbs(x):
    return (x & 0xffff, (x >> 16) & 0xffff, (x >> 32) & 0xffff)


def wline(x, ops):
    a, b, c = limbs(x)
    return "W %x %x %x %s" % (a, b, c, " ".join(ops))


# ---------------------------------------------------------------------------
# input generation

LIMBS = [0, 1, 0x7fff, 0x8000, 0xffff, 0xfffe, 0x330e, 0x00ff, 0xff00]
SUCC = [0, 1, M48, M48 - 1, 1 << 47, (1 << 47) - 1, (1 << 44) - 1, 1 << 44, (1 << 17) - 1, 1 << 17, (1 << 16) - 1, 1 << 16,
        (1 << 32) - 1, 1 << 32, 0xffff0000ffff, 0x0000ffff0000, 0xffffffff0000, 0xffff00000000, 0x00000000ffff,
        0x7fffffffffff, 0x800000000000, 0xfffffffe0000, 0x00000001ffff, 0xf00000000000, 0x0fffffffffff]
SEEDS = [0, 1, 2, 0x7fffffff, 0x80000000, 0xffffffff, 0x100000000, 0xffff, 0x10000, 0x330e, 1 << 63, M64, M64 - 1,
         (1 << 63) - 1, 0xffffffff00000000, 0x00000000ffff0000, 0xa5a573a5, 0x5a5a5a5a, 0x123456789abcdef0,
         (-1) & M64, (-65536) & M64, (-0x80000000) & M64]


def carry_states():
    """states on which `a*x + c` carries out of a partial product when the 64-bit multiply is written with 32x32 (or 16x16)
    partial products: the low word xl with (0xdeece66d * xl) mod 2^32 >= 2^32 - 0xb (adding c = 0xb carries into bit 32;
    a is odd, so there are exactly 11 such words, computed analytically), their two non-carrying neighbours (products
    2^32-12, 2^32-13) and xl = 0, each under several high limbs; the same for the low 16-bit limb (0xe66d * x0 mod 2^16)."""
    st = []
    a_lo, a0 = A & 0xffffffff, A & 0xffff
    inv32, inv16 = pow(a_lo, -1, 1 << 32), pow(a0, -1, 1 << 16)
    for k in range(0, 14):
        xl = ((1 << 32) - k) * inv32 & 0xffffffff
        assert (a_lo * xl) & 0xffffffff == ((1 << 32) - k) & 0xffffffff
        st += [xl | (xh << 32) for xh in (0, 1, 0x8000, 0xffff, 0x1234)]
        x0 = ((1 << 16) - k) * inv16 & 0xffff
        st += [x0 | (hi << 16) for hi in (0, 1, 0xffffffff, 0x80000000, 0x0000ffff, 0xffff0000, 0x12345678, 0x7fff8000, 0xfffe0001)]
    return st


CARRY_LOW_WORDS = 11


def boundary_states():
    st = [a | (b << 16) | (c << 32) for a in LIMBS for b in LIMBS for c in LIMBS]
    st += [((x - C) * AINV) & M48 for x in SUCC]      # states whose SUCCESSOR is a boundary value
    st += carry_states()
    return st


def gen_lines(chk, nseq, nr32):
    rng = chk.rng
    lines = ["W 0 0 0 l d l d"]                        # static state before any srand48: {0,0,0}
    nb = 0
    for x in boundary_states():
        for op in ("n", "e", "b", "i", "f"):
            lines.append(wline(x, [op]))
            nb += 1
    for sd in SEEDS:                                    # seeding entry points on boundary seeds
        lines.append(wline(rng.getrandbits(48), ["S%x" % sd, "l", "d", "l", "I%x" % sd, "i", "b", "f", "n", "e"]))
        lines.append("R %x i b f i i b f" % sd)
    alphabet = ["n", "e", "l", "d", "b", "i", "f"]
    for _ in range(nseq):
        x = rng.choice(boundary_states()) if rng.random() < 0.1 else rng.getrandbits(48)
        ops = []
        for _ in range(rng.randint(1, 50)):
            r = rng.random()
            if r < 0.06:
                ops.append("S%x" % (rng.choice(SEEDS) if rng.random() < 0.3 else rng.getrandbits(64)))
            elif r < 0.10:
                ops.append("I%x" % (rng.choice(SEEDS) if rng.random() < 0.3 else rng.getrandbits(64)))
            else:
                ops.append(rng.choice(alphabet))
        lines.append(wline(x, ops))
    for _ in range(nr32):
        sd = rng.choice(SEEDS) if rng.random() < 0.1 else rng.getrandbits(rng.choice([8, 32, 64]))
        ops = []
        for _ in range(rng.randint(1, 50)):
            ops.append("I%x" % rng.getrandbits(64) if rng.random() < 0.03 else rng.choice(["b", "i", "f"]))
        lines.append("R %x %s" % (sd, " ".join(ops)))
    return lines, nb


def nout(line):
    """number of output lines one input line produces"""
    t = line.split()
    return len(t) - (4 if t[0] == "W" else 2) + 1


def parse_glibc(out):
    m = re.search(r"^#glibc calls=(\d+) int_mismatch=(\d+) succ_mismatch=(\d+) dbl_out_of_tol=(\d+) dbl_negative=(\d+) max_diff_2\^-52=(\d+)",
                  out, re.M)
    mism = re.findall(r"^#glibc-mismatch (.*)$", out, re.M)
    return (tuple(int(x) for x in m.groups()) if m else None), mism


def split_out(out):
    return [l for l in out.split("\n") if l and not l.startswith("#")]


def glibc_obligation(chk, name, out, stats):
    g, mism = parse_glibc(out)
    # g[4] = results BELOW glibc's: erand48_spec proves 16 X' <= m, i.e. Imath >= POSIX always
    ok = g is not None and g[1] == 0 and g[2] == 0 and g[3] == 0 and g[4] == 0 and g[5] < 16
    chk.oblige("glibc:" + name, "reference-comparison", ok, None if ok else (mism[:3] or ("summary %r" % (g,))))
    if g:
        stats["glibc_calls"] = stats.get("glibc_calls", 0) + g[0]
        stats["glibc_max_diff_units_2^-52"] = max(stats.get("glibc_max_diff_units_2^-52", 0), g[5])
        stats["glibc_results_below_posix"] = stats.get("glibc_results_below_posix", 0) + g[4]
    if not ok:
        first = mism[0] if mism else "no-summary"
        d = dict(kv.split("=", 1) for kv in first.split() if "=" in kv)
        key = "C18:glibc:%s:%s:%s" % (d.get("call", "?"), d.get("kind", "?"), d.get("state", "?"))
        chk.fail("glibc:" + name, key,
                 "Imath %s disagrees with glibc (POSIX reference) beyond the allowed tolerance" % d.get("call", "rand48 entry point"),
                 {"first_mismatches": mism[:5], "summary": g, "state_hex_48bit": d.get("state"), "call": d.get("call"),
                  "imath": d.get("imath"), "glibc": d.get("glibc"),
                  "replay_cmd": "printf 'W %s %s\\n' | .build/bin/rand48_corr seq  (limbs s0 s1 s2 of the state, op letter)"},
                 found_input=bool(mism))
    return ok


def run_seq(chk, binary, lines, name, stats):
    text = "\n".join(lines) + "\n"
    rc1, o1 = lib.sh([binary, "seq"], stdin=text, timeout=1200)
    rc2, o2 = lib.sh([DRV, "seq"], stdin=text, timeout=1200)
    impl, model = split_out(o1), split_out(o2)
    expect = sum(nout(l) for l in lines)
    ok = rc1 == 0 and rc2 == 0 and impl == model and len(impl) == expect
    chk.oblige("corr:seq:" + name, "correspondence", ok, {"lines": len(lines), "outputs": expect})
    calls = expect - len(lines)
    chk.count(calls, calls)
    if not ok:
        # locate the first differing output and the input line / call that produced it
        idx = next((i for i, (a, b) in enumerate(zip(impl, model)) if a != b), min(len(impl), len(model)))
        pos, src, k = 0, None, 0
        for l in lines:
            n = nout(l)
            if idx < pos + n:
                src, k = l, idx - pos
                break
            pos += n
        toks = (src or "").split()
        opi = (toks[4:] if toks and toks[0] == "W" else toks[2:])
        call = opi[k] if k < len(opi) else "final-state"
        key = "C18:corr:%s:%s" % (" ".join(toks[:4]) if toks and toks[0] == "W" else " ".join(toks[:2]), call)
        chk.fail("corr:seq:" + name, key,
                 "the real code and the proven model disagree on a call sequence (call #%d: %s)" % (k, call),
                 {"input_line": src, "call_index": k, "call": call,
                  "implementation": impl[idx] if idx < len(impl) else None, "model": model[idx] if idx < len(model) else None,
                  "note": "static state persists across lines: replay the whole prefix for l/d calls",
                  "replay_cmd": "printf '%s\\n' | .build/bin/rand48_corr seq   vs   | lean/.lake/build/bin/drv_rand48 seq" % src},
                 found_input=src is not None)
    glibc_obligation(chk, "seq:" + name, o1, stats)
    return ok


def run_sweep(chk, binary, cmd, dumpcmd, seed, nblocks, stats):
    rc1, o1 = lib.sh([binary, cmd, str(seed), str(nblocks)], timeout=1800)
    rc2, o2 = lib.sh([DRV, cmd, str(seed), str(nblocks)], timeout=1800)
    impl, model = split_out(o1), split_out(o2)
    ok = rc1 == 0 and rc2 == 0 and impl == model and len(impl) == nblocks
    n = nblocks * 65536
    chk.oblige("corr:%s:%d-states" % (cmd, n), "correspondence", ok)
    per = 2 if cmd == "sweep" else 8
    chk.count(n * per, n * per)
    if not ok:
        bad = [i for i in range(min(len(impl), len(model))) if impl[i] != model[i]]
        rep = {"cmd": cmd, "seed": seed, "mismatching_blocks": len(bad), "first_blocks": bad[:8]}
        key, found = "C18:corr:%s" % cmd, False
        if bad:
            lo, hi = bad[0] * 65536, (bad[0] + 1) * 65536
            _, a = lib.sh([binary, dumpcmd, str(seed), str(lo), str(hi)], timeout=600)
            _, b = lib.sh([DRV, dumpcmd, str(seed), str(lo), str(hi)], timeout=600)
            for x, y in zip(split_out(a), split_out(b)):
                if x != y:
                    t = x.split()
                    if cmd == "sweep":
                        ty = y.split()
                        call = "nrand48" if t[4:7] != ty[4:7] else "erand48"
                        rep.update({"state_limbs_s0_s1_s2": t[1:4], "call": call, "implementation": x, "model": y,
                                    "format": "index s0 s1 s2 n <nrand48> <successor> e <erand48 bits> <successor>",
                                    "replay_cmd": "printf 'W %s %s %s n e\\n' | .build/bin/rand48_corr seq" % tuple(t[1:4])})
                        key = "C18:corr:%s:%s" % (call, "".join(reversed([z.zfill(4) for z in t[1:4]])))
                    else:
                        rep.update({"seed_hex": t[1], "implementation": x, "model": y,
                                    "format": "index seed Rand48{nexti nextb nextf nexti} Rand32{nexti nextb nextf nexti}",
                                    "replay_cmd": "printf 'W 0 0 0 I%s i b f i\\nR %s i b f i\\n' | .build/bin/rand48_corr seq" % (t[1], t[1])})
                        key = "C18:corr:class:%s" % t[1]
                    found = True
                    break
        chk.fail("corr:%s" % cmd, key, "the real code and the proven model disagree on a sampled state / seed", rep, found)
    if cmd == "sweep":
        glibc_obligation(chk, "sweep", o1, stats)
    return ok


def run_residue(chk, binary, draws, nseeds):
    rc, out = lib.sh([binary, "residue", str(chk.seed), str(draws), str(nseeds)], timeout=1800)
    res = {"what": "floating-point evaluation on the real code; NOT covered by the theorems"}
    allok = rc == 0
    for l in out.split("\n"):
        t = l.split()
        if not t:
            continue
        kv = dict(x.split("=", 1) for x in t[2:] if "=" in x) if t[0] in ("range", "sampler") else \
            dict(x.split("=", 1) for x in t[1:] if "=" in x)
        if t[0] == "range":
            ok = int(kv["nonfinite"]) == 0 and float(kv["max_exc_ulp"]) <= 1.0
            res["nextf(a,b) " + t[1]] = {"evaluations": int(kv["n"]), "nonfinite": int(kv["nonfinite"]),
                                         "results_outside_closed_interval": int(kv["outside"]),
                                         "max_excursion_in_ulp_of_larger_endpoint": float(kv["max_exc_ulp"]),
                                         "worst_a_b_result_bits": [kv["worst_a"], kv["worst_b"], kv["worst_r"]]}
            chk.oblige("residue:nextf(a,b):%s within one ulp of [min,max], finite" % t[1], "residue-measurement", ok)
            chk.count(int(kv["n"]), int(kv["n"]))
            if not ok:
                allok = False
                nf = int(kv["nonfinite"]) > 0
                a, b, r = (kv["nf_a"], kv["nf_b"], kv["nf_r"]) if nf else (kv["worst_a"], kv["worst_b"], kv["worst_r"])
                chk.fail("residue:nextf(a,b):" + t[1], "C18:nextf-range:%s:%s:%s" % (t[1], a, b),
                         "%s::nextf(a,b) left the interval between a and b by more than one rounding%s" % (t[1], " (non-finite)" if nf else ""),
                         {"class": t[1], "rangeMin_bits": a, "rangeMax_bits": b, "result_bits": r, "measured": kv,
                          "replay_cmd": ".build/bin/rand48_corr residue %d %d %d" % (chk.seed, draws, nseeds)}, True)
        elif t[0] == "unit":
            ok = int(kv["bad"]) == 0
            res["nextf()/nexti() ranges"] = {"evaluations": int(kv["n"]), "out_of_range": int(kv["bad"]),
                                             "max_float_bits": kv["fmax"], "max_double_bits": kv["dmax"]}
            chk.oblige("residue:nextf() in [0,1), nexti in range (real objects)", "residue-measurement", ok)
            chk.count(int(kv["n"]), int(kv["n"]))
            if not ok:
                allok = False
                chk.fail("residue:unit", "C18:unit-range", "nextf()/nexti() outside the documented range", {"measured": kv}, True)
        elif t[0] == "sampler":
            bad = sum(int(kv[k]) for k in ("solid_nonfinite", "solid_outside", "hollow_nonfinite", "hollow_off",
                                           "gauss_nonfinite", "gsphere_nonfinite"))
            # Props/C18.lean gaussRand_bound_rand32 / _rand48: |deviate| <= 8 / 12 for what the generator can reach; the two hypotheses of
            # those theorems (length2 >= 2^-46 / 2^-102, x^2 <= (1+2^-22) length2) are re-measured on every accepted candidate
            # (gauss_hyp_bad), and the returned value is BIT-EQUAL to the harness's evaluation from a copied generator
            gbound = 8.0 if t[1].endswith("Rand32") else 12.0
            if float(kv["gauss_max_abs"]) > gbound:
                bad += 1
            bad += sum(int(kv[k]) for k in ("gauss_value_mismatch", "gauss_state_mismatch", "gauss_hyp_bad"))
            res["samplers " + t[1]] = {"draws_each": int(kv["n"]), "violations": bad,
                                       "solid_max_length2": float(kv["solid_max_length2"]),
                                       "hollow_max_|length-1|_in_eps": float(kv["hollow_max_dev_eps"]),
                                       "gauss_max_abs": float(kv["gauss_max_abs"]), "gaussSphere_max_length": float(kv["gsphere_max_len"]),
                                       "gauss_retries": int(kv["gauss_retries"]), "gauss_min_length2_log2": int(kv["gauss_min_length2_log2"])}
            chk.oblige("residue:samplers:%s finite, in ball, on sphere to 4 eps of the element type; gaussRand bit-equal to the harness's "
                       "evaluation from a copied generator, hypotheses of gaussRand_bound_%s hold, |gaussRand| <= %d" % (
                           t[1], "rand32" if t[1].endswith("Rand32") else "rand48", 8 if t[1].endswith("Rand32") else 12),
                       "residue-measurement", bad == 0)
            chk.count(4 * int(kv["n"]), 4 * int(kv["n"]))
            if bad:
                allok = False
                chk.fail("residue:samplers:" + t[1], "C18:sampler:%s:seed=%s" % (t[1], kv["bad_seed"]),
                         "a sphere/gauss sampler returned a non-finite point or one off the ball/sphere",
                         {"types": t[1], "generator_seed_hex": kv["bad_seed"], "measured": kv,
                          "replay_cmd": ".build/bin/rand48_corr residue %d %d %d" % (chk.seed, draws, nseeds)}, True)
    if rc != 0 or len(res) < 15:
        allok = False
        chk.oblige("residue:harness-ran", "residue-measurement", False, out[-400:])
        chk.fail("residue:harness", "C18:residue-harness", "the residue harness failed to run", {"output": out[-1500:]}, False)
    chk.residues.update(res)
    return allok



def kvs(line):
    """key=value tokens of a harness line; bracketed values ([...]) may contain spaces"""
    d = {}
    for m in re.finditer(r"(\w+)=(\[[^\]]*\]|\S+)", line):
        v = m.group(2)
        d[m.group(1)] = v[1:-1] if v.startswith("[") else v
    return d


def run_range_exact(chk, binary, draws, sweep_pairs):
    """nextf(a,b) of the real classes against the property's formula evaluated on a COPY of the generator"""
    rc, out = lib.sh([binary, "rangeExact", str(chk.seed), str(draws), str(sweep_pairs)], timeout=1800)
    per = {"Rand32": [], "Rand48": []}
    for l in out.split("\n"):
        t = l.split()
        if len(t) > 2 and t[0] == "exact" and t[1] in per:
            per[t[1]].append(kvs(l))
    res = {}
    for cls, rows in per.items():
        n = sum(int(r["n"]) for r in rows)
        vm = sum(int(r["value_mismatch"]) for r in rows)
        sm = sum(int(r["state_mismatch"]) for r in rows)
        nf = sum(int(r["nonfinite"]) for r in rows)
        mx = max([float(r["max_exc_endpoint_ulp"]) for r in rows] or [99.0])
        okc = rc == 0 and bool(rows) and vm == 0 and sm == 0
        chk.oblige("corr:nextf(a,b):%s bit-equal to a*(1-f)+b*f with f = nextf() of a copied generator; both generators end in the same state"
                   % cls, "correspondence", okc, {"evaluations": n, "classes": len(rows)})
        chk.count(n, n)
        if not okc:
            bad = next((r for r in rows if int(r["value_mismatch"]) or int(r["state_mismatch"])), None)
            d = kvs(bad["first_bad"]) if bad else {}
            chk.fail("corr:nextf(a,b):" + cls, "rand48_corr:%s::nextf(a,b):%s" % (cls, "value" if vm else "state" if sm else "harness"),
                     "%s::nextf(rangeMin, rangeMax) is not rangeMin*(1-f)+rangeMax*f for f = the generator's next nextf()%s" % (
                         cls, "" if vm else " (or consumes a different number of draws)"),
                     {"class": cls, "endpoint_class": bad["class"] if bad else None, "first_bad": bad["first_bad"] if bad else out[-600:],
                      "rangeMin_bits": d.get("a"), "rangeMax_bits": d.get("b"), "f_bits": d.get("f"), "member_result_bits": d.get("member"),
                      "formula_result_bits": d.get("formula"), "value_mismatches": vm, "state_mismatches": sm,
                      "replay_cmd": ".build/bin/rand48_corr rangeExact %d %d %d" % (chk.seed, draws, sweep_pairs)}, bad is not None)
        okr = rc == 0 and bool(rows) and nf == 0 and mx <= 1.0
        chk.oblige("residue:nextf(a,b):%s finite and within one ulp of [min,max] on adjacent / equal / symmetric / extreme endpoint "
                   "classes%s" % (cls, " and for ALL 2^23 values of f on %d special pairs" % sweep_pairs if cls == "Rand32" else
                                  " and at boundary values of f"), "residue-measurement", okr)
        if not okr:
            bad = next((r for r in rows if int(r["nonfinite"]) or float(r["max_exc_endpoint_ulp"]) > 1.0), None)
            d = kvs((bad["first_bad"] if int(bad["nonfinite"]) else bad["worst"])) if bad else {}
            chk.fail("residue:nextf(a,b):" + cls, "C18:nextf-range:%s:%s:%s" % (cls, d.get("a"), d.get("b")),
                     "%s::nextf(a,b) left the interval between a and b by more than one rounding%s" % (cls, " (non-finite)" if nf else ""),
                     {"class": cls, "endpoint_class": bad["class"] if bad else None, "rangeMin_bits": d.get("a"), "rangeMax_bits": d.get("b"),
                      "f_bits": d.get("f"), "result_bits": d.get("r") or d.get("nonfinite"), "measured": bad,
                      "replay_cmd": ".build/bin/rand48_corr rangeExact %d %d %d" % (chk.seed, draws, sweep_pairs)}, bad is not None)
        res[cls] = {r["class"]: {"evaluations": int(r["n"]), "outside_closed_interval": int(r["outside"]),
                                 "max_excursion_ulp_of_larger_endpoint": float(r["max_exc_endpoint_ulp"]),
                                 "max_excursion_ulp_of_result": float(r["max_exc_result_ulp"]),
                                 "max_excursion_over_interval_width": float(r["max_exc_over_width"]), "worst": r["worst"] or None}
                    for r in rows}
    chk.residues["nextf(a,b) by endpoint class (bound 1 ulp of the larger endpoint = 'one rounding'; ATTAINED when a = b: "
                 "a*(1-f)+a*f rounds to a +- 1 ulp; 0 observed outside the interval for adjacent endpoints)"] = res


def run_range_contracted(chk, draws, sweep_pairs):
    """N8: the library's default build on FMA targets contracts a*(1-f)+b*f into fma(a, 1-f, b*f); the harness is rebuilt with
    -O2 -ffp-contract=fast -mfma (the members are inline, so they are compiled with these flags) and the INTERVAL residue is measured
    again; bit-equality with the uncontracted formula is not expected there and not required."""
    try:
        has_fma = " fma " in open("/proc/cpuinfo").read()
    except OSError:
        has_fma = False
    if not has_fma:
        chk.extra.setdefault("C18_notes", []).append("CPU without FMA: contracted build of nextf(a,b) not measured")
        return
    ok, binary, o = lib.cxx_build("rand48_corr_fma", ["corr/rand48_corr.cpp", os.path.join(lib.REPO, "src/Imath/ImathRandom.cpp")],
                                  extra=["-fno-lifetime-dse", "-O2", "-ffp-contract=fast", "-mfma"])
    chk.oblige("build:rand48_corr_fma", "build", ok, None if ok else o[-800:])
    if not ok:
        chk.fail("build:rand48_corr_fma", "build:rand48_corr_fma", "harness does not compile with -O2 -ffp-contract=fast -mfma", {"compiler_output": o[-2000:]}, False)
        return
    rc, out = lib.sh([binary, "rangeExact", str(chk.seed), str(draws), str(sweep_pairs)], timeout=1800)
    rows = [kvs(l) for l in out.split("\n") if l.startswith("exact ")]
    names = [l.split()[1] for l in out.split("\n") if l.startswith("exact ")]
    res = {}
    for cls in ("Rand32", "Rand48"):
        rs = [r for r, nm in zip(rows, names) if nm == cls]
        nf = sum(int(r["nonfinite"]) for r in rs)
        mx = max([float(r["max_exc_endpoint_ulp"]) for r in rs] or [99.0])
        n = sum(int(r["n"]) for r in rs)
        okr = rc == 0 and bool(rs) and nf == 0 and mx <= 1.0
        chk.oblige("residue:nextf(a,b):%s with FMA contraction (-O2 -ffp-contract=fast -mfma): finite and within one ulp of [min,max] "
                   "(measured excursion %.4f ulp)" % (cls, mx), "residue-measurement", okr)
        chk.count(n, n)
        res[cls] = {"evaluations": n, "nonfinite": nf, "max_excursion_ulp_of_larger_endpoint": mx,
                    "results_differing_from_the_uncontracted_formula": sum(int(r["value_mismatch"]) for r in rs),
                    "outside_closed_interval": sum(int(r["outside"]) for r in rs)}
        if not okr:
            bad = next((r for r in rs if int(r["nonfinite"]) or float(r["max_exc_endpoint_ulp"]) > 1.0), None)
            d = kvs(bad["first_bad"] if bad and int(bad["nonfinite"]) else (bad or {}).get("worst", "")) if bad else {}
            chk.fail("residue:nextf(a,b):%s:fma" % cls, "C18:nextf-range-fma:%s:%s:%s" % (cls, d.get("a"), d.get("b")),
                     "%s::nextf(a,b) compiled with FMA contraction left the interval between a and b by more than one rounding" % cls,
                     {"class": cls, "measured": bad, "replay_cmd": ".build/bin/rand48_corr_fma rangeExact %d %d %d" % (chk.seed, draws, sweep_pairs)},
                     bad is not None)
    chk.residues["nextf(a,b) compiled with FMA contraction (the members are inline; a*(1-f)+b*f becomes fma): interval residue only"] = res


def run_determinism(chk, binary, nseeds):
    rc, out = lib.sh([binary, "determinism", str(chk.seed), str(nseeds)], timeout=600)
    seen = 0
    for l in out.split("\n"):
        t = l.split()
        if len(t) < 2 or t[0] != "determinism":
            continue
        seen += 1
        kv = kvs(l)
        ok = rc == 0 and int(kv["bad"]) == 0 and int(kv["default_ctor_bad"]) == 0
        chk.oblige("determinism:%s object bytes and 6 outputs after init(seed)/constructor are the same for 6 prior contents of the "
                   "storage x {init on overwritten object, constructor in filled storage, re-init after use}; default argument = seed 0"
                   % t[1], "correspondence", ok, {"cases": int(kv["n"])})
        chk.count(int(kv["n"]), int(kv["n"]))
        if not ok:
            d = kvs(kv["first"])
            chk.fail("determinism:" + t[1], "rand48_corr:%s::init:%s" % (t[1], d.get("how", "default-constructor")),
                     "the sequence produced by %s after init(seed) / construction depends on what the object's storage held before "
                     "(or the default-constructed object differs from seed 0): it is not a function of the seed alone" % t[1],
                     {"class": t[1], "first": kv["first"], "measured": kv,
                      "replay_cmd": ".build/bin/rand48_corr determinism %d %d" % (chk.seed, nseeds)}, True)
    if seen != 2:
        chk.oblige("determinism:harness-ran", "correspondence", False, out[-400:])
        chk.fail("determinism", "rand48_corr:determinism:harness", "determinism harness failed to run", {"output": out[-1500:]}, False)


_script_cache = {}


def script_lines(binary):
    if "out" not in _script_cache:
        _script_cache["out"] = lib.sh([binary, "script"], timeout=600)
    return _script_cache["out"]


def run_script(chk, binary, stats):
    """the real sampler templates with a scripted generator as the template argument `Rand`"""
    rc, out = script_lines(binary)
    rows = [l for l in out.split("\n") if l.startswith("script ")]
    order = {}
    for l in rows:
        t = l.split()
        fn, ty, kv = t[1], t[2], kvs(l)
        n, bad = int(kv["n"]), int(kv["bad"])
        if fn == "gaussSphereRand":
            ok = rc == 0 and bad == 0 and n > 0
            order[ty] = {"hollow_draws_first": int(kv["hollow_draws_first"]), "gauss_draws_first": int(kv["gauss_draws_first"])}
            chk.oblige("script:gaussSphereRand<%s> = hollowSphereRand(rand) * gaussRand(rand) bitwise (either draw order)" % ty, "correspondence", ok)
        else:
            reach = all(int(kv[k]) > 0 for k in ("accepted", "rejected", "zero_candidates", "unit_length_candidates"))
            if fn != "gaussRand":                      # two rejections in a row before the accepted fallback (3 iterations)
                reach = reach and int(kv["three_iterations"]) >= 10
            ok = rc == 0 and bad == 0 and reach
            chk.oblige("script:%s<%s> loop decision, draws consumed and returned bits on every lattice candidate (accepted %s, retried %s, "
                       "zero vector %s, length exactly 1: %s, two rejections in a row: %s)" % (
                           fn, ty, kv["accepted"], kv["rejected"], kv["zero_candidates"], kv["unit_length_candidates"],
                           kv.get("three_iterations", "-")), "correspondence", ok)
            if fn == "gaussRand":
                stats["gaussRand_lattice_max_abs"] = max(stats.get("gaussRand_lattice_max_abs", 0.0), float(kv["max_abs"]))
        chk.count(n, n)
        if bad:
            chk.fail("script:%s<%s>" % (fn, ty), "rand48_corr:%s:%s" % (fn, "scripted-candidate"),
                     "%s<%s> run with a scripted generator disagrees with the exact specification of its loop (accept iff the candidate "
                     "satisfies the documented condition; result = candidate [/ length])" % (fn, ty),
                     {"function": fn, "types": ty, "first_failing_candidate": kv["first"], "failures": bad,
                      "replay_cmd": ".build/bin/rand48_corr script"}, True)
    if rc != 0 or len(rows) != 20:
        chk.oblige("script:harness-ran", "correspondence", False, out[-400:])
        chk.fail("script", "rand48_corr:script:harness", "scripted-generator harness failed to run", {"output": out[-1500:]}, False)
    stats["gaussSphereRand_operand_draw_order (unspecified in C++: `hollowSphereRand (rand) * gaussRand (rand)`)"] = order


GAUSS_LEAN = """import ImathVerif.Spec.Rand48Field
import Mathlib.Algebra.Order.Field.Rat
open ImathVerif.Rand48.Field
def drawOf (c : ℚ × ℚ) : Nat → (ℚ × ℚ) × Nat := fun s => (if s = 0 then c else (1 / 2, 1 / 4), s + 1)
def iters (kx ky : Int) : Nat :=
  match gaussRandLoop (drawOf ((kx : ℚ) / 8, (ky : ℚ) / 8)) 3 0 with
  | some r => r.2
  | none => 0
def main : IO Unit := do
  for i in List.range 19 do
    for j in List.range 19 do
      let kx : Int := (i : Int) - 9
      let ky : Int := (j : Int) - 9
      IO.println s!"G {kx} {ky} {iters kx ky}"
#eval main
"""


def run_gauss_lattice(chk, binary):
    """gaussRand is float-typed (not extractable): its hand loop model Field.gaussRandLoop, evaluated in Lean at Rat, against the
    real template run with a scripted generator, on every candidate of the lattice (k/8)^2, k in [-9, 9]"""
    rc1, o1 = lib.sh([binary, "gaussLattice"], timeout=300)
    rc2, o2 = lib.lean_run_file(GAUSS_LEAN, timeout=900, name="c18gauss")
    impl = [l for l in o1.split("\n") if l.startswith("G ")]
    model = [l for l in o2.split("\n") if l.startswith("G ")]
    ok = rc1 == 0 and impl == model and len(impl) == 361
    chk.oblige("corr:gaussRand loop: iterations of the real template (scripted generator) = hand model Field.gaussRandLoop at Rat on the "
               "361 candidates (k/8, j/8)", "correspondence", ok, None if ok else (o2[-300:] if len(model) != 361 else None))
    chk.count(361, 361)
    if not ok:
        bad = next(((a, b) for a, b in zip(impl, model) if a != b), None)
        chk.fail("corr:gaussRand loop", "rand48_corr:gaussRand:%s" % ("lattice-candidate" if bad else "harness"),
                 "gaussRand's accept/retry decision differs from the hand model Field.gaussRandLoop (accept iff 0 < x^2+y^2 < 1)",
                 {"implementation_line (G kx ky iterations, candidate (kx/8, ky/8))": bad[0] if bad else None, "model_line": bad[1] if bad else None,
                  "lean_output_tail": None if bad else o2[-800:], "replay_cmd": ".build/bin/rand48_corr gaussLattice"}, bad is not None)


def run_gauss_sweep(chk, binary, stats):
    """gaussRand's returned VALUE (float-typed, not regenerated): scripted generator over x = +-2^-k m/8, y = +-2^-j n/8, k, j <= 75
    (length2 from the subnormal range to next to 1): bit-equal to the harness's evaluation of the documented expression and within
    2 float ulps of the long-double formula; plus the granularity of the draws of the real generators"""
    rc, out = lib.sh([binary, "gaussSweep", "75"], timeout=900)
    rows = [l for l in out.split("\n") if l.startswith("gaussSweep ")]
    for l in rows:
        ty, kv = l.split()[1], kvs(l)
        n, bad = int(kv["n"]), int(kv["bad"])
        reach = all(int(kv[k]) >= 1000 for k in ("accepted", "rejected", "length2_below_1_64", "length2_subnormal", "length2_at_least_half"))
        ok = rc == 0 and bad == 0 and reach and int(kv["rounding_hyp_bad"]) == 0
        chk.oblige("script:gaussRand value<%s> bit-equal to float(x*sqrt(-2*log(double(l))/l)) and within 2 float ulps of the long-double "
                   "formula on %s candidates (length2 < 1/64: %s, subnormal: %s, >= 1/2: %s, rejected: %s)" % (
                       ty, kv["n"], kv["length2_below_1_64"], kv["length2_subnormal"], kv["length2_at_least_half"], kv["rejected"]),
                   "correspondence", ok)
        chk.count(n, n)
        stats["gaussRand_sweep_" + ty] = {"max_abs_over_all_candidates (exceeds 15 in the subnormal range: gaussRand_real_bound is exact-arithmetic only)":
                                          float(kv["max_abs"]), "at": kv["max_abs_at"], "max_abs_with_normal_length2": float(kv["max_abs_normal_length2"]),
                                          "rounding_hypothesis_checked": int(kv["rounding_hyp_checked"])}
        if bad or int(kv["rounding_hyp_bad"]):
            chk.fail("script:gaussRand value<%s>" % ty, "rand48_corr:gaussRand:value",
                     "gaussRand run with a scripted generator does not return float(x * sqrt(-2 * log(double(length2)) / length2)) of the "
                     "accepted candidate (or consumes a different number of draws)",
                     {"draw_type": ty, "first_failing_candidate": kv["first"], "failures": bad, "value_mismatches": int(kv["value_mismatch"]),
                      "beyond_2ulp_of_long_double": int(kv["beyond_2ulp"]), "nonfinite": int(kv["nonfinite"]),
                      "replay_cmd": ".build/bin/rand48_corr gaussSweep 75"}, True)
    grows = [l for l in out.split("\n") if l.startswith("granularity ")]
    for l in grows:
        cls, kv = l.split()[1], kvs(l)
        need = -22 if cls == "Rand32" else -51
        ok = rc == 0 and int(kv["bad"]) == 0 and int(kv["min_nonzero_log2"]) >= need
        chk.oblige("granularity:%s::nextf(-1,1) = 2f-1 exactly, zero or at least 2^%d in magnitude (%s; hypothesis of gaussRand_bound_%s)" % (
            cls, need, "ALL 2^23 values of f" if cls == "Rand32" else "boundary f + %s sampled states" % kv["n"], cls.lower()),
            "correspondence", ok, kv)
        chk.count(int(kv["n"]), int(kv["n"]))
        if not ok:
            chk.fail("granularity:" + cls, "rand48_corr:%s::nextf(-1,1):granularity" % cls,
                     "%s::nextf(-1,1) is not 2f-1 on the grid the gaussRand bound assumes" % cls, {"measured": kv,
                     "replay_cmd": ".build/bin/rand48_corr gaussSweep 75"}, True)
    if rc != 0 or len(rows) != 2 or len(grows) != 2:
        chk.oblige("gaussSweep:harness-ran", "correspondence", False, out[-400:])
        chk.fail("gaussSweep", "rand48_corr:gaussSweep:harness", "gaussSweep harness failed to run", {"output": out[-1500:]}, False)


def run_two_objects(chk, binary, rounds):
    """several LIVE generator objects with interleaved calls (a function-local static or a shared buffer in a member would show)"""
    rc, out = lib.sh([binary, "twoObjects", str(chk.seed), str(rounds)], timeout=600)
    row = next((l for l in out.split("\n") if l.startswith("twoObjects ")), None)
    kv = kvs(row) if row else {}
    ok = rc == 0 and row is not None and int(kv["glibc_bad"]) == 0 and int(kv["lone_replay_bad"]) == 0 and int(kv["calls"]) > 0
    chk.oblige("twoObjects: two live Rand48, two live Rand32, two arrays and the static state, 120 interleaved calls x %d rounds: every call = "
               "glibc on a private copy, every object's stream = the same calls on a lone object" % rounds, "correspondence", ok)
    if row:
        chk.count(int(kv["calls"]), int(kv["calls"]))
    if not ok:
        chk.fail("twoObjects", "rand48_corr:twoObjects:%s" % ("lone-replay" if row and int(kv["lone_replay_bad"]) else "glibc" if row else "harness"),
                 "calls on one generator object are affected by calls on another live object (or on the static state): hidden shared state",
                 {"first": kv.get("first"), "measured": kv, "replay_cmd": ".build/bin/rand48_corr twoObjects %d %d" % (chk.seed, rounds)}, row is not None)


def make_sampler_search(chk, binary):
    def search(name):
        """a theorem about a regenerated sampler step stopped elaborating: look for a lattice candidate on which the REAL template,
        run with a scripted generator, disagrees with the exact specification of the loop"""
        if not binary:
            return None
        m = re.match(r"(solidSphere|hollowSphere|gaussSphere)(Rand_is_gen)?(\d)", name)
        if not m:
            return None
        fn = m.group(1) + "Rand"
        rc, out = script_lines(binary)
        for l in out.split("\n"):
            t = l.split()
            if len(t) > 3 and t[0] == "script" and t[1] in (fn, "hollowSphereRand" if fn == "gaussSphereRand" else fn) and t[2].startswith("V" + m.group(3)):
                kv = kvs(l)
                if int(kv["bad"]):
                    return {"key": "theorem:" + name, "real_code_function": t[1], "types": t[2], "first_failing_candidate": kv["first"],
                            "failures": int(kv["bad"]), "replay_cmd": ".build/bin/rand48_corr script",
                            "spec": "exact integer arithmetic on the lattice: accept iff length2 <= 1 (solid) / 0 < length <= 1 (hollow); "
                                    "result bit-equal to candidate resp. candidate / candidate.length ()"}
        return None
    return search


def make_search(chk):
    """executable form of the universally quantified theorems: the MODEL (driver) against the
    independent Python transcription of the POSIX specification, on boundary + random states"""
    def search(name):
        if not os.path.exists(DRV):
            return None
        rng = chk.rng
        states = boundary_states() + [rng.getrandbits(48) for _ in range(20000)]
        if name in ("next_is_lcg", "nrand48_spec", "erand48_spec", "sub_one_exact_dbl", "run_refines", "run_counts", "rand48_class"):
            lines = [wline(x, ["n"]) for x in states] + [wline(x, ["e"]) for x in states]
            _, out = lib.sh([DRV, "seq"], stdin="\n".join(lines) + "\n", timeout=600)
            o = split_out(out)
            for j, x in enumerate(states + states):
                isn = j < len(states)
                want = ["i %x" % spec_nrand(x)] if isn else ["d %x" % spec_erand_bits(x)]
                want.append("= %x %x %x" % limbs(lcg(x)))
                got = o[2 * j:2 * j + 2]
                if got != want:
                    call = "nrand48" if isn else "erand48"
                    return {"key": "C18:model-vs-posix:%s:%012x" % (call, x), "state_hex_48bit": "%012x" % x, "call": call,
                            "model": got, "posix_spec": want}
        if name == "srand48_spec":
            for sd in SEEDS + [rng.getrandbits(64) for _ in range(2000)]:
                _, out = lib.sh([DRV, "seq"], stdin="W 0 0 0 S%x l\n" % sd, timeout=60)
                want = "i %x" % spec_nrand(spec_srand(sd))
                o = split_out(out)
                if len(o) < 2 or o[1] != want:
                    return {"key": "C18:model-vs-posix:srand48:%x" % sd, "seed_hex": "%x" % sd, "model": o[:3], "posix_spec": want}
        if name in ("rand48_seq_function_of_seed", "rand32_seq_function_of_seed", "user_stream_independent_of_static",
                    "static_stream_independent_of_user", "step_streams_independent", "r48Init_limb_duplicated",
                    "object_stream_independent_of_other_object"):
            # executable form on the REAL objects: same outputs / object bytes for different prior storage contents
            hb = os.path.join(lib.BUILD, "bin", "rand48_corr")
            if os.path.exists(hb):
                _, out = lib.sh([hb, "determinism", str(chk.seed), "200"], timeout=300)
                for l in out.split("\n"):
                    kv = kvs(l)
                    if l.startswith("determinism") and (int(kv.get("bad", 0)) or int(kv.get("default_ctor_bad", 0))):
                        return {"key": "theorem:" + name, "real_code_class": l.split()[1], "first": kv.get("first"),
                                "replay_cmd": ".build/bin/rand48_corr determinism %d 200" % chk.seed}
        if name.startswith("rand32") or name.startswith("run32") or name == "sub_one_exact_flt":
            seeds = SEEDS + [rng.getrandbits(64) for _ in range(3000)]
            ops = ["i", "b", "f", "i", "f", "b"]
            _, out = lib.sh([DRV, "seq"], stdin="".join("R %x %s\n" % (sd, " ".join(ops)) for sd in seeds), timeout=600)
            o = split_out(out)
            for j, sd in enumerate(seeds):
                got, want = o[7 * j:7 * j + 6], spec_r32(sd, ops)
                if got != want:
                    return {"key": "C18:model-vs-spec:Rand32:%x" % sd, "seed_hex": "%x" % sd, "ops": ops, "model": got, "spec": want}
        return None
    return search


def run(chk):
    chk.trusted = ["Lean 4.33 kernel; axioms propext, Classical.choice, Quot.sound at most (Mathlib tactics in Props only)",
                   "hand model Model/Rand48.lean (core Lean), tied by correspondence with harness/corr/rand48_corr.cpp "
                   "which links the current /repo/src/Imath/ImathRandom.cpp and includes ImathRandom.h",
                   "translator harness/sym (the sampler templates of ImathRandom.h instantiated with the scripted generator of "
                   "harness/sym/ops_c18.h at T = Sym; Vec::length() is the generated Gen.V?.length), validated each run by TV (bitwise at "
                   "float and double; gaussSphereRand at float) and by evaluating the emitted Lean text of all 9 entries at Rat",
                   "splitmix64 input generator duplicated in driver and harness (a discrepancy would show as a mismatch)",
                   "glibc nrand48/erand48/lrand48/drand48/srand48 as the executable POSIX reference",
                   "g++ -O1 -ffp-contract=off -fno-lifetime-dse and the CPU executing the harness (IEEE double/float arithmetic; the harness's "
                   "own evaluation of a*(1-f)+b*f through volatile temporaries is the reference for nextf(a,b) and of gaussRand's expression); "
                   "a second build with -O2 -ffp-contract=fast -mfma measures the nextf(a,b) interval residue under FMA contraction"]
    chk.assumptions = ["LP64: unsigned long / long are 64 bits, unsigned short 16 bits (static_assert in the harness); run32_low32_only proves "
                       "that Rand32's outputs depend on the low 32 state bits only, nothing is compiled with 32-bit long",
                       "Spec/Rand48Spec.lean states the POSIX recurrence, the 31-bit / [0,1) outputs and the srand48 seeding rule correctly",
                       "dblVal1074 / fltVal149 state the IEEE-754 binary64 / binary32 denotation of finite patterns correctly",
                       "floating-point rounding in nextf(a,b) and the samplers is measured, not proved (see coverage.residues); the sampler "
                       "theorems are about exact arithmetic over an ordered field; loop termination is not claimed",
                       "gaussRand is float-typed for every vector type and is not regenerated: its loop model Field.gaussRandLoop is tied by "
                       "the scripted-generator lattice (361 candidates), its returned value by bit-equality with the harness's own evaluation "
                       "(scripted sweep + real generators); no theorem is about that C++ expression; in gaussSphereRand it is a parameter `g`",
                       "gaussRand_bound_rand32/_rand48 assume the granularity of the two real generators (measured: nextf(-1,1) = 2f-1 exactly) "
                       "and IEEE relative error 2^-24 per float operation in the normal range (both hypotheses re-measured per accepted "
                       "candidate); gaussRand_real_bound is exact arithmetic only and is NOT used as a bound on the code",
                       "lean_tv (emitted text at Rat) evaluates Vec::length() with the fixed rational stubs of harness/sym/c10frac.h (not a real "
                       "square root): it validates the emitter (call/argument order, branch structure), not the arithmetic meaning"]
    chk.rule = ("(1) every combination of limbs in {0,1,0x7fff,0x8000,0xfffe,0xffff,0x330e,0xff,0xff00}^3, the preimages of 25 boundary "
                "successor values (all-zero, all-ones, 2^47, 2^44, 2^17, limb borders) and the analytically computed carry states (the 11 low "
                "words xl with 0xdeece66d*xl mod 2^32 >= 2^32-11, their non-carrying neighbours, same for the low 16-bit limb) x each entry "
                "point; (2) states = low 48 bits of "
                "splitmix64(seed, i), hashed per block of 65,536 with bisection on mismatch; (3) random call sequences of length 1..50 "
                "over nrand48/erand48/lrand48/drand48/srand48/Rand48::{init,nextb,nexti,nextf} with the static state carried across "
                "sequences, and Rand32 member sequences, seeds boundary + random; every call is non-trivial (state changes); "
                "(4) nextf(a,b): 24x24 grid + adjacent floats (a, a+-1ulp, a+2ulp) over 18 magnitudes x both signs, a = b, (-x, x), "
                "(lowest,max) ... x draws, Rand32 additionally ALL 2^23 f on special pairs, Rand48 at 15 boundary f; (5) determinism: "
                "6 prior storage contents x 3 ways of (re)initialising x boundary + random seeds; two live Rand48 + two live Rand32 + two arrays + "
                "the static state with 120 randomly interleaved calls per round; (6) scripted generator: every candidate "
                "of the lattices (k/8)^2, (k/4)^3, (k/4)^4 incl. the zero vector, length exactly 1 and length2 just above 1, every 7th point "
                "after an extra rejected candidate; (7) gaussRand value: x = +-2^-k m/8, y = +-2^-j n/8, k, j <= 75, m, n in 1..8, float and "
                "double draws, plus candidates next to length2 = 1")
    stats = {}
    rc, out = lib.lake_build(["drv_rand48"])
    okd = rc == 0
    chk.oblige("build:drv_rand48", "build", okd, None if okd else out[-800:])
    ok, binary, o = lib.cxx_build("rand48_corr", ["corr/rand48_corr.cpp", os.path.join(lib.REPO, "src/Imath/ImathRandom.cpp")],
                                  extra=["-fno-lifetime-dse"])
    chk.oblige("build:rand48_corr", "build", ok, None if ok else o[-800:])
    if not ok:
        chk.fail("build:rand48_corr", "build:rand48_corr", "correspondence harness does not compile against the current tree",
                 {"compiler_output": o[-3000:]}, False)
        binary = None
    # T-route: one loop iteration of the sphere samplers, regenerated from the current ImathRandom.h
    bins = troute.build_extractors(chk, [dict(name="sym_leaf", source="sym/sym_leaf.cpp"), dict(name="sym_c18", source="sym/sym_c18.cpp")])
    leaf_idx = os.path.join(troute.GEN, "index_leaf.txt")
    if bins.get("sym_leaf"):
        troute.regenerate(chk, bins["sym_leaf"], "leaf")
    if bins.get("sym_c18") and bins.get("sym_leaf"):
        index, _ = troute.regenerate(chk, bins["sym_c18"], "c18", idx_deps=[leaf_idx])
        paths = {d["name"]: int(d.get("paths", 0)) for d in index}
        want = {"C18.solidSphere%d_iter": 2, "C18.hollowSphere%d_iter": 3, "C18.gaussSphere%d_body": 3}
        okp = all(paths.get(k % n) == v for k, v in want.items() for n in (2, 3, 4))
        chk.oblige("extract:c18: each sampler step has exactly the expected decision paths (solid: accept/retry; hollow, gaussSphere: "
                   "retry on length > 1, retry on length == 0, accept)", "translator", okp, None if okp else paths)
        if not okp:
            chk.fail("extract:c18:paths", "extract:c18:paths", "a sampler loop body has a different number of decision paths than the documented "
                     "loop (a test was added or dropped)", {"paths": paths, "expected": {k % 3: v for k, v in want.items()}}, False)
        troute.tv(chk, bins["sym_c18"], "c18", 2000 if chk.thorough else 400, idx_deps=[leaf_idx])
        # emitted Lean text at Rat vs trees at exact fractions; Vec::length at exact fractions through c10frac.h, so all 9 entries are
        # covered.  Candidates k/4, k in [-5,5] (`rattv --den 4`: the default integers in [-4,4] are almost always rejected); the number
        # of cases per entry is raised (240, 480, ...) until every entry has at least MIN_ACCEPTED accepted candidates as well as
        # rejected ones (counted from the same rattv run; an obligation).
        MIN_ACCEPTED = 10
        acc, rej, ncase = {}, {}, 240
        for ncase in (240, 480, 960, 1920):
            _, rat = lib.sh([bins["sym_c18"], "rattv", str(chk.seed), str(ncase), "--den", "4", "--idx", leaf_idx], timeout=600)
            acc = {d["name"]: 0 for d in index}
            rej = {d["name"]: 0 for d in index}
            for l in rat.split("\n"):
                t = l.split()
                if len(t) > 2 and t[0] == "RATCASE" and t[1] in acc:
                    (acc if " OUT exc=- " in l else rej)[t[1]] += 1
            if acc and min(acc.values()) >= MIN_ACCEPTED and min(rej.values()) >= MIN_ACCEPTED:
                break
        troute.lean_tv(chk, bins["sym_c18"], "c18", index, n=ncase, idx_deps=[leaf_idx], extra_args=["--den", "4"])
        okacc = bool(acc) and min(acc.values()) >= MIN_ACCEPTED and min(rej.values()) >= MIN_ACCEPTED
        chk.oblige("lean-tv:c18: every entry is exercised on at least %d accepted and %d rejected candidates" % (MIN_ACCEPTED, MIN_ACCEPTED),
                   "translation-validation", okacc, {"cases_per_entry": ncase, "accepted": acc, "rejected": rej})
        chk.extra.setdefault("lean_tv", {}).setdefault("c18", {})["accepted_candidate_cases"] = dict(acc, cases_per_entry=ncase)
        for d in index:
            chk.sample({"entry": d["name"], "paths": d.get("paths"), "reads": d.get("extra")})
    chk.check_theorems("ImathVerif.Props.C18", required=REQUIRED, search=make_search(chk))
    chk.check_theorems(PROPS_S, required=REQUIRED_S, search=make_sampler_search(chk, binary))
    if chk.thorough:
        chk.leanchecker("ImathVerif.Props.C18")
        chk.leanchecker(PROPS_S)
    if not binary:
        return
    if not okd:
        chk.fail("build:drv_rand48", "build:drv_rand48", "the model driver does not build", {"output": out[-3000:]}, False)
        return
    lines, nb = gen_lines(chk, 20000 if chk.thorough else 2500, 4000 if chk.thorough else 600)
    stats["boundary_state_calls"] = nb
    stats["carry_boundary_states (32x32 / 16x16 partial products of a*x+c)"] = len(carry_states())
    stats["sequence_lines"] = len(lines)
    run_seq(chk, binary, lines, "boundary+mixed", stats)
    nblocks = 153 if chk.thorough else 16
    run_sweep(chk, binary, "sweep", "dump", chk.seed, nblocks, stats)
    stats["sampled_states"] = nblocks * 65536
    nbc = 32 if chk.thorough else 4
    run_sweep(chk, binary, "sweepc", "dumpc", chk.seed, nbc, stats)
    stats["sampled_class_seeds"] = nbc * 65536
    run_determinism(chk, binary, 2000 if chk.thorough else 200)
    run_range_exact(chk, binary, 2000 if chk.thorough else 150, 11 if chk.thorough else 4)
    run_range_contracted(chk, 2000 if chk.thorough else 150, 11 if chk.thorough else 2)
    run_two_objects(chk, binary, 2000 if chk.thorough else 200)
    run_script(chk, binary, stats)
    run_gauss_lattice(chk, binary)
    run_gauss_sweep(chk, binary, stats)
    run_residue(chk, binary, 20000 if chk.thorough else 1500, 2000 if chk.thorough else 300)
    stats["observation: Rand48::init stores state[2] = state[0] (theorem r48Init_limb_duplicated)"] = (
        "ImathRandom.h Rand48::init: `_state[2] = (unsigned short int) (seed & 0xFFFF)` is the same expression as `_state[0]`; only 2^32 of "
        "the 2^48 states are reachable by seeding. C18's wording (sequence = pure function of the seed) does not exclude it.")
    chk.extra["C18"] = stats
    chk.sample({"state": "000000000000", "nrand48": "0x%x" % spec_nrand(0), "erand48_bits": "0x%x" % spec_erand_bits(0),
                "note": "all-zero state"})
    chk.sample({"state": "ffffffffffff", "nrand48": "0x%x" % spec_nrand(M48), "erand48_bits": "0x%x" % spec_erand_bits(M48),
                "note": "all-ones state"})
    x = ((M48 - C) * AINV) & M48
    chk.sample({"state": "%012x" % x, "nrand48": "0x%x" % spec_nrand(x), "erand48_bits": "0x%x" % spec_erand_bits(x),
                "note": "successor = 2^48-1: largest outputs (0x7fffffff, 1-2^-52)"})
