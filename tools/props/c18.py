"""C18 — random generators are deterministic, range-correct and rand48-compatible.

Theorems: lean/ImathVerif/Props/C18.lean over the hand model Model/Rand48.lean
(all states / seeds / call sequences, nothing enumerated).
Tie: harness/corr/rand48_corr.cpp (the real ImathRandom.cpp / ImathRandom.h, rebuilt
from the current tree) against lean/Driver/Rand48.lean on the same line protocol:
boundary states, >= 10^6 (quick) / 10^7 (thorough) states derived from the seed,
mixed call sequences; the real code is compared with glibc's rand48 family on
the same inputs inside the harness.
Residue (measured, not proved): floating-point rounding of nextf(a,b) and
finiteness / ball / sphere membership of the samplers in float and double."""
import os, re, struct
import lib

REQUIRED = ["next_is_lcg", "nrand48_spec", "sub_one_exact_dbl", "erand48_spec", "srand48_spec", "static_forms",
            "run_refines", "run_counts", "rand48_class", "rand32_next", "rand32_nexti", "rand32_nextb",
            "sub_one_exact_flt", "rand32_nextf", "rand32_low32_only", "rand32_deterministic", "rand48_deterministic",
            "nextf_range_convex", "solidSphereRand_exit", "hollowSphereRand_exit", "gaussRandLoop_exit",
            "gaussSphereRand_length2", "gaussRand_real"]

DRV = os.path.join(lib.LEAN, ".lake", "build", "bin", "drv_rand48")
M48 = (1 << 48) - 1
M64 = (1 << 64) - 1
A, C = 0x5DEECE66D, 0xB
AINV = pow(A, -1, 1 << 48)

# ---------------------------------------------------------------------------
# independent executable form of the specification (POSIX), used by `search`


def lcg(x):
    return (A * x + C) & M48


def spec_nrand(x):
    return lcg(x) >> 17


def spec_erand_bits(x):
    x1 = lcg(x)
    m = 16 * x1 + (x1 >> 44)
    return struct.unpack("<Q", struct.pack("<d", m / 4503599627370496.0))[0]  # m < 2^52: exact


def spec_srand(seed):
    return ((seed & 0xffffffff) << 16) | 0x330E


def spec_r32(seed, ops):
    st = (((seed * 0xa5a573a5) & M64) ^ 0x5a5a5a5a) & 0xffffffff
    out = []
    for o in ops:
        st = (1664525 * st + 1013904223) & 0xffffffff
        if o == "i":
            out.append("i %x" % st)
        elif o == "b":
            out.append("b %d" % (st >> 31))
        elif o == "f":
            m = st & 0x7fffff
            out.append("f %x" % struct.unpack("<I", struct.pack("<f", m / 8388608.0))[0])
    return out


def limbs(x):
    return (x & 0xffff, (x >> 16) & 0xffff, (x >> 32) & 0xffff)


def wline(x, ops):
    a, b, c = limbs(x)
    return "W %x %x %x %s" % (a, b, c, " ".join(ops))


# ---------------------------------------------------------------------------
# input generation

LIMBS = [0, 1, 0x7fff, 0x8000, 0xffff, 0xfffe, 0x330e, 0x00ff, 0xff00]
SUCC = [0, 1, M48, M48 - 1, 1 << 47, (1 << 47) - 1, (1 << 44) - 1, 1 << 44, (1 << 17) - 1, 1 << 17, (1 << 16) - 1, 1 << 16,
        (1 << 32) - 1, 1 << 32, 0xffff0000ffff, 0x0000ffff0000, 0xffffffff0000, 0xffff00000000, 0x00000000ffff,
        0x7fffffffffff, 0x800000000000, 0xfffffffe0000, 0x00000001ffff, 0xf00000000000, 0x0fffffffffff]
SEEDS = [0, 1, 2, 0x7fffffff, 0x80000000, 0xffffffff, 0x100000000, 0xffff, 0x10000, 0x330e, 1 << 63, M64, M64 - 1,
         (1 << 63) - 1, 0xffffffff00000000, 0x00000000ffff0000, 0xa5a573a5, 0x5a5a5a5a, 0x123456789abcdef0,
         (-1) & M64, (-65536) & M64, (-0x80000000) & M64]


def boundary_states():
    st = [a | (b << 16) | (c << 32) for a in LIMBS for b in LIMBS for c in LIMBS]
    st += [((x - C) * AINV) & M48 for x in SUCC]      # states whose SUCCESSOR is a boundary value
    return st


def gen_lines(chk, nseq, nr32):
    rng = chk.rng
    lines = ["W 0 0 0 l d l d"]                        # static state before any srand48: {0,0,0}
    nb = 0
    for x in boundary_states():
        for op in ("n", "e", "b", "i", "f"):
            lines.append(wline(x, [op]))
            nb += 1
    for sd in SEEDS:                                    # seeding entry points on boundary seeds
        lines.append(wline(rng.getrandbits(48), ["S%x" % sd, "l", "d", "l", "I%x" % sd, "i", "b", "f", "n", "e"]))
        lines.append("R %x i b f i i b f" % sd)
    alphabet = ["n", "e", "l", "d", "b", "i", "f"]
    for _ in range(nseq):
        x = rng.choice(boundary_states()) if rng.random() < 0.1 else rng.getrandbits(48)
        ops = []
        for _ in range(rng.randint(1, 50)):
            r = rng.random()
            if r < 0.06:
                ops.append("S%x" % (rng.choice(SEEDS) if rng.random() < 0.3 else rng.getrandbits(64)))
            elif r < 0.10:
                ops.append("I%x" % (rng.choice(SEEDS) if rng.random() < 0.3 else rng.getrandbits(64)))
            else:
                ops.append(rng.choice(alphabet))
        lines.append(wline(x, ops))
    for _ in range(nr32):
        sd = rng.choice(SEEDS) if rng.random() < 0.1 else rng.getrandbits(rng.choice([8, 32, 64]))
        ops = []
        for _ in range(rng.randint(1, 50)):
            ops.append("I%x" % rng.getrandbits(64) if rng.random() < 0.03 else rng.choice(["b", "i", "f"]))
        lines.append("R %x %s" % (sd, " ".join(ops)))
    return lines, nb


def nout(line):
    """number of output lines one input line produces"""
    t = line.split()
    return len(t) - (4 if t[0] == "W" else 2) + 1


def parse_glibc(out):
    m = re.search(r"^#glibc calls=(\d+) int_mismatch=(\d+) succ_mismatch=(\d+) dbl_out_of_tol=(\d+) dbl_negative=(\d+) max_diff_2\^-52=(\d+)",
                  out, re.M)
    mism = re.findall(r"^#glibc-mismatch (.*)$", out, re.M)
    return (tuple(int(x) for x in m.groups()) if m else None), mism


def split_out(out):
    return [l for l in out.split("\n") if l and not l.startswith("#")]


def glibc_obligation(chk, name, out, stats):
    g, mism = parse_glibc(out)
    ok = g is not None and g[1] == 0 and g[2] == 0 and g[3] == 0 and g[5] < 16
    chk.oblige("glibc:" + name, "reference-comparison", ok, None if ok else (mism[:3] or "no summary line"))
    if g:
        stats["glibc_calls"] = stats.get("glibc_calls", 0) + g[0]
        stats["glibc_max_diff_units_2^-52"] = max(stats.get("glibc_max_diff_units_2^-52", 0), g[5])
    if not ok:
        first = mism[0] if mism else "no-summary"
        d = dict(kv.split("=", 1) for kv in first.split() if "=" in kv)
        key = "C18:glibc:%s:%s:%s" % (d.get("call", "?"), d.get("kind", "?"), d.get("state", "?"))
        chk.fail("glibc:" + name, key,
                 "Imath %s disagrees with glibc (POSIX reference) beyond the allowed tolerance" % d.get("call", "rand48 entry point"),
                 {"first_mismatches": mism[:5], "summary": g, "state_hex_48bit": d.get("state"), "call": d.get("call"),
                  "imath": d.get("imath"), "glibc": d.get("glibc"),
                  "replay_cmd": "printf 'W %s %s\\n' | .build/bin/rand48_corr seq  (limbs s0 s1 s2 of the state, op letter)"},
                 found_input=bool(mism))
    return ok


def run_seq(chk, binary, lines, name, stats):
    text = "\n".join(lines) + "\n"
    rc1, o1 = lib.sh([binary, "seq"], stdin=text, timeout=1200)
    rc2, o2 = lib.sh([DRV, "seq"], stdin=text, timeout=1200)
    impl, model = split_out(o1), split_out(o2)
    expect = sum(nout(l) for l in lines)
    ok = rc1 == 0 and rc2 == 0 and impl == model and len(impl) == expect
    chk.oblige("corr:seq:" + name, "correspondence", ok, {"lines": len(lines), "outputs": expect})
    calls = expect - len(lines)
    chk.count(calls, calls)
    if not ok:
        # locate the first differing output and the input line / call that produced it
        idx = next((i for i, (a, b) in enumerate(zip(impl, model)) if a != b), min(len(impl), len(model)))
        pos, src, k = 0, None, 0
        for l in lines:
            n = nout(l)
            if idx < pos + n:
                src, k = l, idx - pos
                break
            pos += n
        toks = (src or "").split()
        opi = (toks[4:] if toks and toks[0] == "W" else toks[2:])
        call = opi[k] if k < len(opi) else "final-state"
        key = "C18:corr:%s:%s" % (" ".join(toks[:4]) if toks and toks[0] == "W" else " ".join(toks[:2]), call)
        chk.fail("corr:seq:" + name, key,
                 "the real code and the proven model disagree on a call sequence (call #%d: %s)" % (k, call),
                 {"input_line": src, "call_index": k, "call": call,
                  "implementation": impl[idx] if idx < len(impl) else None, "model": model[idx] if idx < len(model) else None,
                  "note": "static state persists across lines: replay the whole prefix for l/d calls",
                  "replay_cmd": "printf '%s\\n' | .build/bin/rand48_corr seq   vs   | lean/.lake/build/bin/drv_rand48 seq" % src},
                 found_input=src is not None)
    glibc_obligation(chk, "seq:" + name, o1, stats)
    return ok


def run_sweep(chk, binary, cmd, dumpcmd, seed, nblocks, stats):
    rc1, o1 = lib.sh([binary, cmd, str(seed), str(nblocks)], timeout=1800)
    rc2, o2 = lib.sh([DRV, cmd, str(seed), str(nblocks)], timeout=1800)
    impl, model = split_out(o1), split_out(o2)
    ok = rc1 == 0 and rc2 == 0 and impl == model and len(impl) == nblocks
    n = nblocks * 65536
    chk.oblige("corr:%s:%d-states" % (cmd, n), "correspondence", ok)
    per = 2 if cmd == "sweep" else 8
    chk.count(n * per, n * per)
    if not ok:
        bad = [i for i in range(min(len(impl), len(model))) if impl[i] != model[i]]
        rep = {"cmd": cmd, "seed": seed, "mismatching_blocks": len(bad), "first_blocks": bad[:8]}
        key, found = "C18:corr:%s" % cmd, False
        if bad:
            lo, hi = bad[0] * 65536, (bad[0] + 1) * 65536
            _, a = lib.sh([binary, dumpcmd, str(seed), str(lo), str(hi)], timeout=600)
            _, b = lib.sh([DRV, dumpcmd, str(seed), str(lo), str(hi)], timeout=600)
            for x, y in zip(split_out(a), split_out(b)):
                if x != y:
                    t = x.split()
                    if cmd == "sweep":
                        ty = y.split()
                        call = "nrand48" if t[4:7] != ty[4:7] else "erand48"
                        rep.update({"state_limbs_s0_s1_s2": t[1:4], "call": call, "implementation": x, "model": y,
                                    "format": "index s0 s1 s2 n <nrand48> <successor> e <erand48 bits> <successor>",
                                    "replay_cmd": "printf 'W %s %s %s n e\\n' | .build/bin/rand48_corr seq" % tuple(t[1:4])})
                        key = "C18:corr:%s:%s" % (call, "".join(reversed([z.zfill(4) for z in t[1:4]])))
                    else:
                        rep.update({"seed_hex": t[1], "implementation": x, "model": y,
                                    "format": "index seed Rand48{nexti nextb nextf nexti} Rand32{nexti nextb nextf nexti}",
                                    "replay_cmd": "printf 'W 0 0 0 I%s i b f i\\nR %s i b f i\\n' | .build/bin/rand48_corr seq" % (t[1], t[1])})
                        key = "C18:corr:class:%s" % t[1]
                    found = True
                    break
        chk.fail("corr:%s" % cmd, key, "the real code and the proven model disagree on a sampled state / seed", rep, found)
    if cmd == "sweep":
        glibc_obligation(chk, "sweep", o1, stats)
    return ok


def run_residue(chk, binary, draws, nseeds):
    rc, out = lib.sh([binary, "residue", str(chk.seed), str(draws), str(nseeds)], timeout=1800)
    res = {"what": "floating-point evaluation on the real code; NOT covered by the theorems"}
    allok = rc == 0
    for l in out.split("\n"):
        t = l.split()
        if not t:
            continue
        kv = dict(x.split("=", 1) for x in t[2:] if "=" in x) if t[0] in ("range", "sampler") else \
            dict(x.split("=", 1) for x in t[1:] if "=" in x)
        if t[0] == "range":
            ok = int(kv["nonfinite"]) == 0 and float(kv["max_exc_ulp"]) <= 1.0
            res["nextf(a,b) " + t[1]] = {"evaluations": int(kv["n"]), "nonfinite": int(kv["nonfinite"]),
                                         "results_outside_closed_interval": int(kv["outside"]),
                                         "max_excursion_in_ulp_of_larger_endpoint": float(kv["max_exc_ulp"]),
                                         "worst_a_b_result_bits": [kv["worst_a"], kv["worst_b"], kv["worst_r"]]}
            chk.oblige("residue:nextf(a,b):%s within one ulp of [min,max], finite" % t[1], "residue-measurement", ok)
            chk.count(int(kv["n"]), int(kv["n"]))
            if not ok:
                allok = False
                nf = int(kv["nonfinite"]) > 0
                a, b, r = (kv["nf_a"], kv["nf_b"], kv["nf_r"]) if nf else (kv["worst_a"], kv["worst_b"], kv["worst_r"])
                chk.fail("residue:nextf(a,b):" + t[1], "C18:nextf-range:%s:%s:%s" % (t[1], a, b),
                         "%s::nextf(a,b) left the interval between a and b by more than one rounding%s" % (t[1], " (non-finite)" if nf else ""),
                         {"class": t[1], "rangeMin_bits": a, "rangeMax_bits": b, "result_bits": r, "measured": kv,
                          "replay_cmd": ".build/bin/rand48_corr residue %d %d %d" % (chk.seed, draws, nseeds)}, True)
        elif t[0] == "unit":
            ok = int(kv["bad"]) == 0
            res["nextf()/nexti() ranges"] = {"evaluations": int(kv["n"]), "out_of_range": int(kv["bad"]),
                                             "max_float_bits": kv["fmax"], "max_double_bits": kv["dmax"]}
            chk.oblige("residue:nextf() in [0,1), nexti in range (real objects)", "residue-measurement", ok)
            chk.count(int(kv["n"]), int(kv["n"]))
            if not ok:
                allok = False
                chk.fail("residue:unit", "C18:unit-range", "nextf()/nexti() outside the documented range", {"measured": kv}, True)
        elif t[0] == "sampler":
            bad = sum(int(kv[k]) for k in ("solid_nonfinite", "solid_outside", "hollow_nonfinite", "hollow_off",
                                           "gauss_nonfinite", "gsphere_nonfinite"))
            res["samplers " + t[1]] = {"draws_each": int(kv["n"]), "violations": bad,
                                       "solid_max_length2": float(kv["solid_max_length2"]),
                                       "hollow_max_|length-1|_in_eps": float(kv["hollow_max_dev_eps"]),
                                       "gauss_max_abs": float(kv["gauss_max_abs"]), "gaussSphere_max_length": float(kv["gsphere_max_len"])}
            chk.oblige("residue:samplers:%s finite, in ball, on sphere to 4 eps" % t[1], "residue-measurement", bad == 0)
            chk.count(4 * int(kv["n"]), 4 * int(kv["n"]))
            if bad:
                allok = False
                chk.fail("residue:samplers:" + t[1], "C18:sampler:%s:seed=%s" % (t[1], kv["bad_seed"]),
                         "a sphere/gauss sampler returned a non-finite point or one off the ball/sphere",
                         {"types": t[1], "generator_seed_hex": kv["bad_seed"], "measured": kv,
                          "replay_cmd": ".build/bin/rand48_corr residue %d %d %d" % (chk.seed, draws, nseeds)}, True)
    if rc != 0 or len(res) < 15:
        allok = False
        chk.oblige("residue:harness-ran", "residue-measurement", False, out[-400:])
        chk.fail("residue:harness", "C18:residue-harness", "the residue harness failed to run", {"output": out[-1500:]}, False)
    chk.residues.update(res)
    return allok


def make_search(chk):
    """executable form of the universally quantified theorems: the MODEL (driver) against the
    independent Python transcription of the POSIX specification, on boundary + random states"""
    def search(name):
        if not os.path.exists(DRV):
            return None
        rng = chk.rng
        states = boundary_states() + [rng.getrandbits(48) for _ in range(20000)]
        if name in ("next_is_lcg", "nrand48_spec", "erand48_spec", "sub_one_exact_dbl", "run_refines", "run_counts", "rand48_class"):
            lines = [wline(x, ["n"]) for x in states] + [wline(x, ["e"]) for x in states]
            _, out = lib.sh([DRV, "seq"], stdin="\n".join(lines) + "\n", timeout=600)
            o = split_out(out)
            for j, x in enumerate(states + states):
                isn = j < len(states)
                want = ["i %x" % spec_nrand(x)] if isn else ["d %x" % spec_erand_bits(x)]
                want.append("= %x %x %x" % limbs(lcg(x)))
                got = o[2 * j:2 * j + 2]
                if got != want:
                    call = "nrand48" if isn else "erand48"
                    return {"key": "C18:model-vs-posix:%s:%012x" % (call, x), "state_hex_48bit": "%012x" % x, "call": call,
                            "model": got, "posix_spec": want}
        if name == "srand48_spec":
            for sd in SEEDS + [rng.getrandbits(64) for _ in range(2000)]:
                _, out = lib.sh([DRV, "seq"], stdin="W 0 0 0 S%x l\n" % sd, timeout=60)
                want = "i %x" % spec_nrand(spec_srand(sd))
                o = split_out(out)
                if len(o) < 2 or o[1] != want:
                    return {"key": "C18:model-vs-posix:srand48:%x" % sd, "seed_hex": "%x" % sd, "model": o[:3], "posix_spec": want}
        if name.startswith("rand32") or name == "sub_one_exact_flt":
            seeds = SEEDS + [rng.getrandbits(64) for _ in range(3000)]
            ops = ["i", "b", "f", "i", "f", "b"]
            _, out = lib.sh([DRV, "seq"], stdin="".join("R %x %s\n" % (sd, " ".join(ops)) for sd in seeds), timeout=600)
            o = split_out(out)
            for j, sd in enumerate(seeds):
                got, want = o[7 * j:7 * j + 6], spec_r32(sd, ops)
                if got != want:
                    return {"key": "C18:model-vs-spec:Rand32:%x" % sd, "seed_hex": "%x" % sd, "ops": ops, "model": got, "spec": want}
        return None
    return search


def run(chk):
    chk.trusted = ["Lean 4.33 kernel; axioms propext, Classical.choice, Quot.sound at most (Mathlib tactics in Props only)",
                   "hand model Model/Rand48.lean (core Lean), tied by correspondence with harness/corr/rand48_corr.cpp "
                   "which links the current /repo/src/Imath/ImathRandom.cpp and includes ImathRandom.h",
                   "splitmix64 input generator duplicated in driver and harness (a discrepancy would show as a mismatch)",
                   "glibc nrand48/erand48/lrand48/drand48/srand48 as the executable POSIX reference",
                   "g++ -O1 -ffp-contract=off and the CPU executing the harness (IEEE double/float subtraction)"]
    chk.assumptions = ["LP64: unsigned long / long are 64 bits, unsigned short 16 bits (static_assert in the harness)",
                       "Spec/Rand48Spec.lean states the POSIX recurrence, the 31-bit / [0,1) outputs and the srand48 seeding rule correctly",
                       "dblVal1074 / fltVal149 state the IEEE-754 binary64 / binary32 denotation of finite patterns correctly",
                       "floating-point rounding in nextf(a,b) and the samplers is measured, not proved (see coverage.residues)"]
    chk.rule = ("(1) every combination of limbs in {0,1,0x7fff,0x8000,0xfffe,0xffff,0x330e,0xff,0xff00}^3 and the preimages of 25 boundary "
                "successor values (all-zero, all-ones, 2^47, 2^44, 2^17, limb borders) x each entry point; (2) states = low 48 bits of "
                "splitmix64(seed, i), hashed per block of 65,536 with bisection on mismatch; (3) random call sequences of length 1..50 "
                "over nrand48/erand48/lrand48/drand48/srand48/Rand48::{init,nextb,nexti,nextf} with the static state carried across "
                "sequences, and Rand32 member sequences, seeds boundary + random; every call is non-trivial (state changes)")
    stats = {}
    rc, out = lib.lake_build(["drv_rand48"])
    okd = rc == 0
    chk.oblige("build:drv_rand48", "build", okd, None if okd else out[-800:])
    chk.check_theorems("ImathVerif.Props.C18", required=REQUIRED, search=make_search(chk))
    if chk.thorough:
        chk.leanchecker("ImathVerif.Props.C18")
    ok, binary, o = lib.cxx_build("rand48_corr", ["corr/rand48_corr.cpp", os.path.join(lib.REPO, "src/Imath/ImathRandom.cpp")])
    chk.oblige("build:rand48_corr", "build", ok, None if ok else o[-800:])
    if not ok:
        chk.fail("build:rand48_corr", "build:rand48_corr", "correspondence harness does not compile against the current tree",
                 {"compiler_output": o[-3000:]}, False)
        return
    if not okd:
        chk.fail("build:drv_rand48", "build:drv_rand48", "the model driver does not build", {"output": out[-3000:]}, False)
        return
    lines, nb = gen_lines(chk, 20000 if chk.thorough else 2500, 4000 if chk.thorough else 600)
    stats["boundary_state_calls"] = nb
    stats["sequence_lines"] = len(lines)
    run_seq(chk, binary, lines, "boundary+mixed", stats)
    nblocks = 153 if chk.thorough else 16
    run_sweep(chk, binary, "sweep", "dump", chk.seed, nblocks, stats)
    stats["sampled_states"] = nblocks * 65536
    nbc = 32 if chk.thorough else 4
    run_sweep(chk, binary, "sweepc", "dumpc", chk.seed, nbc, stats)
    stats["sampled_class_seeds"] = nbc * 65536
    run_residue(chk, binary, 20000 if chk.thorough else 1500, 2000 if chk.thorough else 300)
    chk.extra["C18"] = stats
    chk.sample({"state": "000000000000", "nrand48": "0x%x" % spec_nrand(0), "erand48_bits": "0x%x" % spec_erand_bits(0),
                "note": "all-zero state"})
    chk.sample({"state": "ffffffffffff", "nrand48": "0x%x" % spec_nrand(M48), "erand48_bits": "0x%x" % spec_erand_bits(M48),
                "note": "all-ones state"})
    x = ((M48 - C) * AINV) & M48
    chk.sample({"state": "%012x" % x, "nrand48": "0x%x" % spec_nrand(x), "erand48_bits": "0x%x" % spec_erand_bits(x),
                "note": "successor = 2^48-1: largest outputs (0x7fffffff, 1-2^-52)"})
