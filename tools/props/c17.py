"""C17 — scalar, root-finding and colour utilities equal their mathematical definitions.

Theorems: lean/ImathVerif/Props/C17.lean.
T-route (harness/sym/sym_c17.cpp, ops_c17.h -> Gen/C17Fun.lean, Gen/C17Roots.lean, regenerated on every run): abs sign lerp ulerp
lerpfactor clamp cmp cmpt iszero equal sinx_over_x equalWithAbsError equalWithRelError solveLinear solveQuadratic
solveNormalizedCubic solveCubic; theorems `gen_*` prove regenerated definition = hand model, so every theorem about the hand
models of these functions breaks when /repo changes them.
H-route (hand models Model/Fun.lean, Model/Roots.lean, Model/ColorAlgo.lean): floor/ceil/trunc (cast to int), divs/mods/divp/modp
(int), finite/succ/pred (bits), the colour routines of ImathColorAlgo.cpp/.h; tied by harness/corr/fun_corr.cpp (the real code,
in-process; built twice: plain and with -fsanitize=undefined,float-cast-overflow -fno-sanitize-recover=all) against
lean/Driver/Fun.lean (the models executed at Float32/Float/Int/Nat) on the same canonical lines, plus integer-only / Python
specifications evaluated independently of both.  A sanitizer abort is a correspondence failure with the input as replay, unless
the model's list of int intermediates says the operation overflows AND the mathematical result is not representable.

Every mismatch is classified by the specification:
  implementation != specification  -> violation with that input
  implementation == specification != model -> the model is wrong (reported as such)
Genuine defects of the current source are reported as violations with keys that
name the call site (see the module docstring of Props/C17.lean)."""
import os, re, struct, math, itertools
from fractions import Fraction
import lib, troute

MOD = "ImathVerif.Props.C17"
LINK_IMPORTS = ["ImathVerif.Lemmas.FunLemmas", "ImathVerif.Lemmas.RootsLemmas", "ImathVerif.Gen.C17Fun", "ImathVerif.Gen.C17Roots", "ImathVerif.Gen.C17Color"]
LINK_OPENS = ["ImathVerif", "ImathVerif.Fun", "ImathVerif.Roots"]
DRV = os.path.join(lib.LEAN, ".lake", "build", "bin", "drv_fun")
SCR = os.path.join(lib.BUILD, "scratch", "c17run")

REQUIRED = [
    "floor_eq_floor", "ceil_eq_ceil", "trunc_eq_trunc", "floor_no_overflow", "floor_former_defect_fixed", "ceil_no_overflow",
    "ceil_result_not_representable", "trunc_no_overflow", "modp_former_defect_fixed",
    # T-route tie: regenerated definition = hand model
    "abs_is_sabs", "gen_abs", "gen_sign", "gen_lerp", "gen_ulerp", "gen_lerpfactor", "gen_clamp", "gen_cmp", "gen_cmpt", "gen_iszero",
    "gen_equal", "gen_equalWithAbsError", "gen_equalWithRelError", "gen_sinx_over_x", "sqrt3_literal", "gen_solveLinear", "gen_solveQuadratic",
    "gen_solveNormalizedCubic", "gen_solveCubic", "gen_lerpfactor_inverts_lerp", "gen_solveQuadratic_two_roots", "gen_solveNormalizedCubic_one_root",
    "solveNormalizedCubic_complex_any_sqrt3", "gen_solveNormalizedCubic_three_literal", "nonvacuity_gen_three_literal",
    "divs_mods_truncating", "divp_modp_euclidean", "divs_mods_int32", "divp_modp_int32",
    "divp_former_defect_fixed",
    "abs_is_abs", "sign_is_sign", "cmp_is_three_way", "cmpt_is_tolerant_cmp", "iszero_iff", "equal_iff",
    "clamp_is_clamp", "lerp_is_affine", "ulerp_is_lerp", "equalWithAbsError_iff", "equalWithRelError_iff",
    "lerpfactor_guard", "lerpfactor_inverts_lerp", "lerp_of_lerpfactor", "lerpfactor_zero_instead_of_overflow",
    "finitef_iff_exponent", "finited_iff_exponent", "ord_is_order_embedding",
    "succf_adjacent", "predf_adjacent", "succd_adjacent", "predd_adjacent", "succ_pred_boundaries",
    "solveLinear_correct", "solveQuadratic_two_roots", "solveQuadratic_one_root", "solveQuadratic_no_root",
    "solvers_delegate", "solveNormalizedCubic_triple_root", "solveNormalizedCubic_real",
    "cardanoA_never_zero", "cubic_former_defect_fixed", "solveNormalizedCubic_complex_roots",
    "cubic_one_real_root", "solveNormalizedCubic_real_unique", "solveNormalizedCubic_three_distinct", "solveNormalizedCubic_double_root",
    "nonvacuity_cubic_real_unique", "nonvacuity_cubic_three_distinct", "nonvacuity_cubic_double_root",
    "ulerp_unsigned", "succ_pred_no_value_between", "hsv_rgb_ranges",
    "color4_agrees_with_vec3", "hsv2rgb_rgb2hsv", "rgb2hsv_hsv2rgb", "integer_wrappers_scale_by_max",
    "rgb2packed_packed2rgb_exact", "color4_int_alpha_fixed",
    # T-route tie of the colour bodies: regenerated tree (ImathColorAlgo.cpp at double := Sym) = hand model
    "gen_hsv2rgbV3", "gen_hsv2rgbC4", "gen_rgb2hsvV3", "gen_rgb2hsvC4", "gen_hsv2rgb_rgb2hsv", "gen_rgb2hsv_hsv2rgb",
    "gen_color4_agrees_with_vec3",
]

INT_MIN, INT_MAX = -2 ** 31, 2 ** 31 - 1
UBSAN_FLAGS = ["-fsanitize=undefined,float-cast-overflow", "-fno-sanitize-recover=all"]
TYPES = {"uc": ("unsigned char", 255), "s": ("short", 32767), "us": ("unsigned short", 65535),
         "i": ("int", INT_MAX), "ui": ("unsigned int", 2 ** 32 - 1)}


# ---------------------------------------------------------------------------
# small helpers

def f2u(x):
    return struct.unpack("<I", struct.pack("<f", x))[0]


def u2f(u):
    return struct.unpack("<f", struct.pack("<I", u & 0xffffffff))[0]


def d2u(x):
    return struct.unpack("<Q", struct.pack("<d", x))[0]


def u2d(u):
    return struct.unpack("<d", struct.pack("<Q", u & 0xffffffffffffffff))[0]


def hd(x):
    return "%x" % d2u(x)


def hf(x):
    return "%x" % f2u(x)


def tof(x):
    """round a Python float to binary32 (returns the float value); overflow gives the infinity float arithmetic gives"""
    try:
        return u2f(f2u(x))
    except OverflowError:
        return math.copysign(float("inf"), x)


def canon(tok, width):
    """canonicalise a hex float token: every NaN -> 'nan'"""
    try:
        u = int(tok, 16)
    except ValueError:
        return tok
    if width == 32 and (u >> 23) & 0xff == 0xff and u & 0x7fffff:
        return "nan"
    if width == 64 and (u >> 52) & 0x7ff == 0x7ff and u & ((1 << 52) - 1):
        return "nan"
    return tok


def run_lines(binary, lines, tag, mode="lines"):
    """feed command lines to `<binary> lines` (or `ilines`: isolated, a sanitizer abort answers "UB ..."); returns list of output lines"""
    lib.ensure_dir(SCR)
    p = os.path.join(SCR, "%s_%d.txt" % (tag, os.getpid()))
    with open(p, "w") as f:
        f.write("\n".join(lines) + "\n")
    rc, out = lib.sh("%s %s < %s" % (binary, mode, p), timeout=1800)
    os.remove(p)
    res = out.split("\n")
    if res and res[-1] == "":
        res.pop()
    return rc, res


class Ctx:
    def __init__(self, chk, binary, ubsan=None):
        self.chk = chk
        self.binary = binary
        self.ubsan = ubsan        # the same harness built with -fsanitize=undefined,float-cast-overflow -fno-sanitize-recover=all
        self.hits = {}
        self.spec_fail = {}       # category -> first replay dict (for theorem search)

    def hit(self, k, n=1):
        self.hits[k] = self.hits.get(k, 0) + n

    def both(self, lines, tag, ubsan=True):
        rc1, a = run_lines(self.binary, lines, tag + "_impl")
        rc2, b = run_lines(DRV, lines, tag + "_model")
        ok = rc1 == 0 and rc2 == 0 and len(a) == len(lines) and len(b) == len(lines)
        if not ok:
            self.chk.oblige("corr:%s:protocol" % tag, "correspondence", False,
                            "rc impl=%s model=%s lines=%d impl=%d model=%d" % (rc1, rc2, len(lines), len(a), len(b)))
            self.chk.fail("corr:%s" % tag, "protocol:%s" % tag, "harness/driver did not answer every line (%s)" % tag,
                          {"impl_rc": rc1, "model_rc": rc2, "impl_tail": a[-3:], "model_tail": b[-3:]}, False)
            return None, None
        if ubsan:
            self.same_under_ubsan(lines, a, tag)
        return a, b

    def same_under_ubsan(self, lines, a, tag):
        """every line again on the UBSan build: no sanitizer report, and the same answer as the plain build"""
        u = self.sanitized(lines, tag)
        if u is None:
            return
        def cn(line, ans):
            # NaN sign / payload may differ between the two builds (constant folding): compare NaNs as NaNs
            w = line.split()
            wd = 32 if (w[0] in ("sf", "p2r3f", "p2r4f", "r2p3f", "r2p4f") or (len(w) > 1 and w[1] == "f")) else 64
            return [canon(t, wd) if len(t) == wd // 4 else t for t in ans.split()]
        bad = [i for i in range(len(lines)) if u[i] != a[i] and cn(lines[i], u[i]) != cn(lines[i], a[i])]
        name = "ubsan:%s: the sanitised build answers all %d lines like the plain build (no undefined behaviour)" % (tag, len(lines))
        self.chk.oblige(name, "correspondence", not bad)
        self.chk.count(len(lines), len(lines))
        for i in bad[:3]:
            fn = lines[i].split()[0]
            what = ("reports " + u[i][3:]) if u[i].startswith("UB") else "answers %s where the plain build answers %s" % (u[i], a[i])
            self.chk.fail(name, "fun_corr:%s:undefined-behaviour" % fn, "`%s`: the sanitised build %s" % (lines[i], what),
                          {"line": lines[i], "sanitised_build": u[i], "plain_build": a[i], "replay_cmd": self.replay_ub(lines[i])}, True)

    def replay_cmd(self, line):
        return "echo '%s' | %s lines" % (line, os.path.relpath(self.binary, lib.VERIF))

    def replay_ub(self, line):
        return "echo '%s' | %s ilines   # g++ -fsanitize=undefined,float-cast-overflow -fno-sanitize-recover=all" % (
            line, os.path.relpath(self.ubsan, lib.VERIF))

    def sanitized(self, lines, tag):
        """the same lines on the UBSan build, isolated: list of answers ("UB <report>" where the sanitizer aborted) or None"""
        if not self.ubsan:
            return None
        rc, u = run_lines(self.ubsan, lines, tag + "_ubsan", mode="ilines")
        if rc != 0 or len(u) != len(lines):
            self.chk.oblige("ubsan:%s:protocol" % tag, "correspondence", False, "rc=%s lines=%d answers=%d" % (rc, len(lines), len(u)))
            self.chk.fail("ubsan:%s:protocol" % tag, "protocol:ubsan:%s" % tag, "sanitised harness did not answer every line (%s)" % tag,
                          {"rc": rc, "tail": u[-3:]}, False)
            return None
        return u


# ---------------------------------------------------------------------------
# source-text tie for the one thing the generic model cannot see: which cast the
# integer wrappers divide by (float (max) or double (max))

def wrapper_casts():
    src = open(os.path.join(lib.REPO, "src", "Imath", "ImathColorAlgo.h")).read()
    res = {}
    for fn in ("hsv2rgb", "rgb2hsv"):
        for ty, tag in (("Vec3", "3"), ("Color4", "4")):
            m = re.search(r"%s\s*\(const\s+%s<T>&\s*\w+\)\s*IMATH_NOEXCEPT\s*\{(.*?)\n\}" % (fn, ty), src, re.S)
            casts = set(re.findall(r"/\s*(float|double)\s*\(\s*std::numeric_limits<T>::max\s*\(\)\s*\)", m.group(1))) if m else set()
            res[fn + tag] = ("f" if casts == {"float"} else "d" if casts == {"double"} else "?")
    return res


# ---------------------------------------------------------------------------
# floats: floor ceil trunc finite succ pred

F32OPS = ["floor", "ceil", "trunc", "finitef", "succf", "predf"]


def f32_patterns(rng):
    pats = set()
    for e in range(256):
        for m in (0, 1, 0x400000, 0x7fffff):
            for s in (0, 1):
                pats.add((s << 31) | (e << 23) | m)
    for k in range(0, 4):
        pats.add(f2u(float(k))); pats.add(f2u(-float(k)))
    for k in range(0, 9):
        pats.add(f2u(k + 0.5)); pats.add(f2u(-(k + 0.5)))
    for d in range(-4, 5):
        for base in (0x4f000000, 0xcf000000, 0x4b000000, 0xcb000000, 0x4b800000, 0x3f800000, 0xbf800000):
            pats.add((base + d) & 0xffffffff)
    for _ in range(2000):
        pats.add(rng.getrandbits(32))
    for _ in range(1000):   # fractional values of moderate size
        pats.add(f2u(tof(rng.uniform(-70000, 70000))))
    return sorted(pats)


def spec_f32(op, u):
    x = u2f(u)
    fin = (u >> 23) & 0xff != 0xff
    inr = (u & 0x7fffffff) < 0x4f000000
    if op == "floor":
        return str(math.floor(x)) if inr else "x"
    if op == "ceil":
        return str(math.ceil(x)) if inr else "x"
    if op == "trunc":
        return str(math.trunc(x)) if inr else "x"
    if op == "finitef":
        return "1" if fin else "0"

    def ordv(v):
        return -(v & 0x7fffffff) if v >> 31 else v
    if not fin:
        return "%x" % u
    o = ordv(u) + (1 if op == "succf" else -1)
    if o > 0:
        return "%x" % o
    if o < 0:
        return "%x" % (0x80000000 | -o)
    return "%x" % (0x80000000 if op == "succf" else 0)   # -min -> -0 ; +min -> +0


def spec_f64(op, u):
    x = u2d(u)
    fin = (u >> 52) & 0x7ff != 0x7ff
    inr = (u & 0x7fffffffffffffff) < 0x41e0000000000000
    if op == "floor":
        return str(math.floor(x)) if inr else "x"
    if op == "ceil":
        return str(math.ceil(x)) if inr else "x"
    if op == "trunc":
        return str(math.trunc(x)) if inr else "x"
    if op == "finite":
        return "1" if fin else "0"
    if not fin:
        return "%x" % u
    return "%x" % d2u(math.nextafter(x, math.inf if op == "succ" else -math.inf))


def f64_patterns(rng):
    pats = set()
    for e in (0, 1, 2, 1000, 1022, 1023, 1024, 1025, 1023 + 23, 1023 + 30, 1023 + 31, 1023 + 32, 1023 + 51, 1023 + 52,
              1023 + 53, 2045, 2046, 2047):
        for m in (0, 1, 1 << 51, (1 << 52) - 1, 1 << 20, (1 << 21) - 1):
            for s in (0, 1):
                pats.add((s << 63) | (e << 52) | m)
    for k in range(0, 9):
        for v in (float(k), k + 0.5, k + 0.25, 2.0 ** 31 - 1 - k, 2.0 ** 31 - 0.5 - k, 2.0 ** 31 - 1.5 - k + 2 ** -20):
            pats.add(d2u(v)); pats.add(d2u(-v))
    for d in range(-3, 4):
        for base in (0x41e0000000000000, 0xc1e0000000000000, 0x41dfffffffc00000, 0xc1dfffffffc00000):
            pats.add((base + d) & 0xffffffffffffffff)
    for _ in range(1500):
        pats.add(rng.getrandbits(64))
    for _ in range(1500):
        pats.add(d2u(rng.uniform(-2.0 ** 31, 2.0 ** 31)))
    return sorted(pats)


def check_floats(cx):
    chk, rng = cx.chk, cx.chk.rng
    # (1) the real code against the integer-only specification, ALL 2^32 patterns x 6 functions
    rc, out = lib.sh([cx.binary, "f32_spec", "0", "65536"], timeout=1800)
    rows = [l.split() for l in out.strip().split("\n")] if rc == 0 else []
    ok = rc == 0 and len(rows) == 6 and all(r[1] == "0" for r in rows)
    chk.oblige("spec:f32:floor,ceil,trunc,finitef,succf,predf:all-2^32", "correspondence", ok, None if ok else out[-300:])
    chk.count(6 << 32, 6 * ((1 << 32) - 2))
    if not ok:
        for r in rows:
            if len(r) == 3 and r[1] != "0":
                u = int(r[2], 16)
                rep = {"function": r[0], "float_bits": "0x%08x" % u, "value": repr(u2f(u)), "violations": int(r[1]),
                       "specification": spec_f32(r[0], u), "replay_cmd": cx.replay_cmd("f32 %s %x" % (r[0], u))}
                rc2, o2 = run_lines(cx.binary, ["f32 %s %x" % (r[0], u)], "rep")
                rep["implementation"] = o2[0] if o2 else None
                cx.spec_fail.setdefault("float", rep)
                chk.fail("spec:f32:" + r[0], "%s:0x%08x" % (r[0], u),
                         "%s differs from its mathematical definition at float 0x%08x" % (r[0], u), rep, True)
        if rc != 0 or len(rows) != 6:
            chk.fail("spec:f32", "f32_spec:protocol", "f32_spec did not run", {"out": out[-500:]}, False)
    # (2) model vs implementation on the boundary subset (quick) / all 2^32 (thorough)
    pats = f32_patterns(rng)
    lines = ["f32 %s %x" % (op, u) for op in F32OPS for u in pats]
    a, b = cx.both(lines, "f32", ubsan=False)
    if a is not None:
        bad = [i for i in range(len(lines)) if a[i] != b[i]]
        chk.oblige("corr:f32:boundary-subset(%d patterns x 6)" % len(pats), "correspondence", not bad)
        chk.count(len(lines), len(lines))
        cx.hit("f32:in-range", sum(1 for u in pats if (u & 0x7fffffff) < 0x4f000000))
        cx.hit("f32:negative-fractional", sum(1 for u in pats if u >> 31 and (u & 0x7fffffff) < 0x4b000000 and u2f(u) != int(u2f(u))))
        cx.hit("f32:nonfinite", sum(1 for u in pats if (u >> 23) & 0xff == 0xff))
        for i in bad[:3]:
            op, u = lines[i].split()[1], int(lines[i].split()[2], 16)
            sp = spec_f32(op, u)
            who = "model" if a[i] == sp else "implementation"
            chk.fail("corr:f32", ("model:" if who == "model" else "") + "%s:0x%08x" % (op, u),
                     "%s: %s differs from the specification at float 0x%08x" % (op, who, u),
                     {"function": op, "float_bits": "0x%08x" % u, "implementation": a[i], "model": b[i], "specification": sp,
                      "replay_cmd": cx.replay_cmd(lines[i])}, True)
    if chk.thorough:
        for op in F32OPS:
            rc1, o1 = lib.sh([cx.binary, "f32_blocks", op, "0", "65536"], timeout=1800)
            rc2, o2 = lib.sh([DRV, "f32_blocks", op, "0", "65536"], timeout=1800)
            ia, ib = o1.split(), o2.split()
            ok = rc1 == 0 and rc2 == 0 and len(ia) == 65536 and ia == ib
            chk.oblige("corr:f32:%s:model=impl:all-2^32" % op, "correspondence", ok)
            chk.count(1 << 32, (1 << 32) - 2)
            if not ok:
                badb = [i for i in range(min(len(ia), len(ib))) if ia[i] != ib[i]]
                rep = {"function": op, "mismatching_blocks": len(badb)}
                key = "corr:f32:" + op
                found = False
                if badb:
                    lo, hi = badb[0] << 16, (badb[0] + 1) << 16
                    _, r1 = lib.sh([cx.binary, "f32_range", op, str(lo), str(hi)], timeout=600)
                    _, r2 = lib.sh([DRV, "f32_range", op, str(lo), str(hi)], timeout=600)
                    for k, (x, y) in enumerate(zip(r1.split(), r2.split())):
                        if x != y:
                            u = lo + k
                            sp = spec_f32(op, u)
                            who = "model" if x == sp else "implementation"
                            rep.update({"float_bits": "0x%08x" % u, "implementation": x, "model": y, "specification": sp,
                                        "differs": who, "replay_cmd": cx.replay_cmd("f32 %s %x" % (op, u))})
                            key = ("model:" if who == "model" else "") + "%s:0x%08x" % (op, u)
                            found = True
                            break
                chk.fail("corr:f32:" + op, key, "%s: model and implementation differ" % op, rep, found)
        pass    # `exhaustive` stays False: doubles, ints, scalars, roots and colour are sampled (see extra exhaustive_parts)
    # (2b) the float boundary subset on the UBSan build: no sanitizer report, same answers
    u = cx.sanitized(lines, "f32") if a is not None else None
    if u is not None:
        ub = [i for i in range(len(lines)) if u[i].startswith("UB")]
        diff = [i for i in range(len(lines)) if not u[i].startswith("UB") and u[i] != a[i]]
        chk.oblige("ubsan:f32:no undefined behaviour on any float of the boundary subset (%d calls)" % len(lines), "correspondence", not ub and not diff)
        chk.count(len(lines), len(lines))
        for i in (ub + diff)[:3]:
            op, uu = lines[i].split()[1], int(lines[i].split()[2], 16)
            chk.fail("ubsan:f32", "fun_corr:%s(float):undefined-behaviour" % op,
                     "%s (float 0x%08x = %r): the sanitised build %s" % (op, uu, u2f(uu), "reports " + u[i][3:] if u[i].startswith("UB") else "answers differently"),
                     {"function": op, "float_bits": "0x%08x" % uu, "value": repr(u2f(uu)), "sanitised": u[i], "plain": a[i], "replay_cmd": cx.replay_ub(lines[i])}, True)
    # (3) doubles: boundary subset.  Four views of every call: the plain build (result stored in an `int` by a noinline
    # wrapper), the UBSan build (aborts on the first undefined operation), the Lean model with MACHINE-int intermediates
    # (wrapped value + "no intermediate overflows"), and the mathematical function (Python, unbounded).
    pats = f64_patterns(rng)
    ops = ["floor", "ceil", "trunc", "finite", "succ", "pred"]
    lines = ["f64 %s %x" % (op, u) for op in ops for u in pats]
    a, b = cx.both(lines, "f64", ubsan=False)
    if a is not None:
        casts = [i for i, l in enumerate(lines) if l.split()[1] in ("floor", "ceil", "trunc")]
        rc, mm = run_lines(DRV, ["f64m " + lines[i][4:] for i in casts], "f64m")
        mach = dict(zip(casts, mm)) if rc == 0 and len(mm) == len(casts) else None
        u = cx.sanitized(lines, "f64")
        if mach is None:
            chk.oblige("corr:f64:machine-int model answers", "correspondence", False)
            chk.fail("corr:f64:machine-int model answers", "protocol:f64m", "driver did not answer the f64m lines", {"rc": rc, "tail": mm[-3:]}, False)
        nb, defect, outside, stale, ubx = 0, {}, {}, [], []
        for i, l in enumerate(lines):
            op, uu = l.split()[1], int(l.split()[2], 16)
            sp = spec_f64(op, uu)
            san = u[i] if u is not None else a[i]
            if i in (mach or {}) and mach[i] != "x":
                mv, flag = mach[i].split()
                spec_fits = INT_MIN <= int(sp) <= INT_MAX
                if flag == "1":
                    # the theorems' domain (floor_no_overflow / ceil_no_overflow / trunc_no_overflow): all five views agree
                    cx.hit("f64:%s:no-overflow-domain" % op)
                    if san.startswith("UB"):
                        ubx.append((i, op, uu, san))
                    elif not (a[i] == san == mv == b[i] == sp):
                        nb += 1
                        if nb <= 3:
                            who = "model" if a[i] == sp == san else "implementation"
                            rep = {"function": op + "(double)", "double_bits": "0x%016x" % uu, "value": repr(u2d(uu)), "implementation": a[i],
                                   "sanitised_build": san, "model(unbounded Int)": b[i], "model(machine int)": mv, "specification": sp,
                                   "replay_cmd": cx.replay_cmd(l)}
                            if who == "implementation":
                                cx.spec_fail.setdefault("float", rep)
                            chk.fail("corr+spec:f64", ("model:" if who == "model" else "") + "%s(double):0x%016x" % (op, uu),
                                     "%s differs from its mathematical definition at double 0x%016x (%s)" % (op, uu, who), rep, True)
                else:
                    # the model says an `int` intermediate overflows: the sanitised build must abort there
                    if u is not None and not san.startswith("UB"):
                        stale.append((i, op, uu, san))
                    elif spec_fits:
                        defect.setdefault(op, []).append((i, uu, san, a[i], mv, sp))
                    else:
                        outside.setdefault(op, []).append((i, uu, a[i], mv, sp))
            else:
                if san.startswith("UB"):
                    ubx.append((i, op, uu, san))
                elif not (a[i] == san == b[i] == sp):
                    nb += 1
                    if nb <= 3:
                        who = "model" if a[i] == sp else "implementation"
                        chk.fail("corr+spec:f64", ("model:" if who == "model" else "") + "%s(double):0x%016x" % (op, uu),
                                 "%s: %s differs at double 0x%016x" % (op, who, uu),
                                 {"double_bits": "0x%016x" % uu, "implementation": a[i], "sanitised_build": san, "model": b[i], "specification": sp,
                                  "replay_cmd": cx.replay_cmd(l)}, True)
        chk.oblige("corr+spec:f64:boundary-subset(%d patterns x 6): plain = sanitised = model(machine int) = model(Int) = math on the no-overflow domain"
                   % len(pats), "correspondence", nb == 0)
        chk.count(len(lines), len(lines))
        name_ub = ("ubsan:f64: the sanitizer aborts exactly where the model's int intermediates overflow, and then the mathematical result "
                   "is not an int (outside the property)")
        chk.oblige(name_ub, "correspondence", not defect and not stale and not ubx)
        for op, lst in sorted(defect.items()):
            lst.sort(key=lambda t: (t[1] not in (0xc1dfffffffe00000, 0x41dfffffffe00000), t[1]))   # canonical witness first: -+2147483647.5
            i, uu, san, av, mv, sp = lst[0]
            cx.hit("f64:%s:intermediate-overflow,result-representable" % op, len(lst))
            rep = {"function": "%s(double)" % op, "double_bits": "0x%016x" % uu, "value": repr(u2d(uu)), "mathematical_result": sp,
                   "fits_int": True, "sanitised_build": san, "plain_build_result": av, "model(machine int, wrapping)": mv,
                   "inputs_of_this_class_in_the_run": len(lst), "others": ["0x%016x" % t[1] for t in lst[1:8]],
                   "theorem": "ImathVerif.C17.floor_no_overflow / floor_former_defect_fixed", "replay_cmd": cx.replay_ub(lines[i])}
            cx.spec_fail.setdefault("float", rep)
            chk.fail(name_ub, "fun_corr:%s(double):result-representable,intermediate-overflows" % op,
                     "%s (%r): the mathematical result %s is an int, but an int intermediate overflows (undefined behaviour: %s); "
                     "the unsanitised build returns %s only because the overflow wraps" % (op, u2d(uu), sp, san[3:], av), rep, True)
        for i, op, uu, san in stale[:3]:
            chk.fail(name_ub, "model:%s(double):steps-stale" % op,
                     "the model lists an overflowing int intermediate for %s (%r) but the sanitised build of the current source computes %s without a report: "
                     "Model/Fun.lean (floorSteps / ceilSteps) no longer mirrors the expression in ImathFun.h" % (op, u2d(uu), san),
                     {"function": op, "double_bits": "0x%016x" % uu, "sanitised_build": san, "replay_cmd": cx.replay_ub(lines[i])}, True)
        for i, op, uu, san in ubx[:3]:
            rep = {"function": op, "double_bits": "0x%016x" % uu, "value": repr(u2d(uu)), "sanitised_build": san, "replay_cmd": cx.replay_ub(lines[i])}
            cx.spec_fail.setdefault("float", rep)
            chk.fail(name_ub, "fun_corr:%s(double):undefined-behaviour" % op,
                     "%s (%r): the sanitised build reports %s where the model has no overflowing intermediate" % (op, u2d(uu), san[3:]), rep, True)
        chk.extra["f64_outside_the_property(result not an int)"] = {
            op: {"inputs": len(lst), "example": "0x%016x" % lst[0][1], "mathematical_result": lst[0][4], "plain_build_returns": lst[0][2],
                 "model(machine int, wrapping)": lst[0][3],
                 "plain_build_equals_wrapping_model": sum(1 for t in lst if t[2] == t[3]),
                 "note": "x in (2^31-1, 2^31): ceil(x) = 2^31 is not an int (theorem ceil_result_not_representable); not claimed"}
            for op, lst in sorted(outside.items())}
        for op, lst in outside.items():
            cx.hit("f64:%s:result-not-an-int(outside)" % op, len(lst))
        cx.hit("f64:floor:intermediate-overflow-inputs", len(defect.get("floor", [])))


# ---------------------------------------------------------------------------
# integer division

def tdiv(x, y):
    q = abs(x) // abs(y)
    return q if (x >= 0) == (y >= 0) else -q


def int_values(rng):
    v = {0}
    for k in (1, 2, 3, 5, 7, 2 ** 15, 2 ** 16 - 1, 2 ** 16 + 1, 2 ** 30, 2 ** 30 + 1, 2 ** 31 - 2, 2 ** 31 - 1, 715827883):
        v.add(k); v.add(-k)
    v.add(INT_MIN)
    for _ in range(6):
        v.add(rng.randint(INT_MIN, INT_MAX))
    return sorted(v)


def check_ints(cx):
    chk = cx.chk
    vals = int_values(chk.rng)
    pairs = [(x, y) for x in vals for y in vals if y != 0]
    pairs.append((-5, INT_MAX))
    ngrid = len(pairs)
    # EXHAUSTIVE small scope: every pair of [-130, 130]^2 (y != 0), and the int extremes against every small operand, both ways
    small = [(x, y) for x in range(-130, 131) for y in range(-130, 131) if y != 0]
    ext = list(range(INT_MIN, INT_MIN + 9)) + list(range(INT_MAX - 8, INT_MAX + 1))
    edge = [(x, y) for x in ext for y in range(-64, 65) if y != 0] + [(x, y) for x in range(-64, 65) for y in ext] + [(x, y) for x in ext for y in ext]
    seen = set(pairs)
    pairs += [p for p in small + edge if p not in seen]
    cx.hit("int:exhaustive-small-scope-pairs", len(small)); cx.hit("int:extremes-grid-pairs", len(edge))
    a, b = cx.both(["int %d %d" % p for p in pairs], "int", ubsan=False)
    rc, c = run_lines(DRV, ["ints %d %d" % p for p in pairs], "ints")
    if a is None or rc != 0 or len(c) != len(pairs):
        return
    names = ["divs", "mods", "divp", "modp"]
    excluded = {n: {"inputs": 0, "equals_spec_anyway": 0, "differs": 0, "trap": 0, "examples": []} for n in names}
    model_bad, impl_bad, neg_guard_bad = [], [], []
    for (x, y), la, lb, lc in zip(pairs, a, b, c):
        ia, ib, ic = la.split(), lb.split(), lc.split()
        q, r = tdiv(x, y), x - y * tdiv(x, y)
        ey = abs(y)
        er = x % ey
        eq = (x - er) // y
        spec = [q, r, eq, er]
        flags = ic[4]
        for k, n in enumerate(names):
            if int(ic[k]) != spec[k]:
                model_bad.append((n, x, y, ic[k], spec[k]))
            noovf = flags[k] == "1"
            if noovf:
                cx.hit("int:%s:guard-holds" % n)
                if ia[k] != str(spec[k]) or ib[k] != str(spec[k]):
                    impl_bad.append((n, x, y, ia[k], ib[k], spec[k]))
            else:
                e = excluded[n]
                e["inputs"] += 1
                if ia[k] == "T":
                    e["trap"] += 1
                elif ia[k] == str(spec[k]):
                    e["equals_spec_anyway"] += 1
                else:
                    e["differs"] += 1
                if len(e["examples"]) < 6:
                    e["examples"].append({"x": x, "y": y, "implementation": ia[k], "wrap_model": ib[k], "specification": spec[k]})
        # the property's own guard: no intermediate NEGATION overflows (and the quotient is an int at all)
        if flags[4] == "1" and INT_MIN <= eq <= INT_MAX:
            cx.hit("int:divp/modp:negation-guard-holds")
            for k in (2, 3):
                if ia[k] != str(spec[k]):
                    neg_guard_bad.append((names[k], x, y, ia[k], spec[k]))
    # the UBSan build, one function per call: the sanitizer must abort exactly where the model's list of int intermediates
    # (divsSteps ... modpSteps) has an entry outside the int range; an abort INSIDE the property's guard (no negation overflows,
    # Euclidean quotient representable) is a defect even if the wrapping build returns the right value
    ulines = ["int1 %s %d %d" % (n, x, y) for (x, y) in pairs for n in names]
    u = cx.sanitized(ulines, "int")
    if u is not None:
        ub_mismatch, ub_in_guard = [], {}
        for k, ((x, y), lc) in enumerate(zip(pairs, c)):
            flags = lc.split()[4]
            ey = abs(y); er = x % ey; eq = (x - er) // y
            q = tdiv(x, y)
            for j, n in enumerate(names):
                ans = u[4 * k + j]
                aborted = ans.startswith("UB")
                if aborted != (flags[j] == "0"):
                    ub_mismatch.append((n, x, y, ans, flags[j]))
                in_guard = (flags[4] == "1" and INT_MIN <= eq <= INT_MAX) if n in ("divp", "modp") else (x != INT_MIN and y != INT_MIN)
                if aborted and in_guard:
                    ub_in_guard.setdefault(n, []).append((x, y, ans, a[k].split()[j], [q, x - y * q, eq, er][j]))
                cx.hit("int:%s:ubsan:%s" % (n, "aborts" if aborted else "clean"))
        chk.count(len(ulines), len(ulines))
        chk.oblige("ubsan:int: the sanitizer aborts exactly where the model's int intermediates overflow (%d pairs x 4 functions)" % len(pairs),
                   "correspondence", not ub_mismatch)
        for n, x, y, ans, fl in ub_mismatch[:3]:
            chk.fail("ubsan:int: the sanitizer aborts exactly", "model:%s:steps-stale" % n,
                     "%s(%d,%d): sanitised build %s but the model's step list says %s" % (n, x, y, "reports " + ans[3:] if ans.startswith("UB") else "is clean (" + ans + ")",
                                                                                      "no overflow" if fl == "1" else "an intermediate overflows"),
                     {"function": n, "x": x, "y": y, "sanitised_build": ans, "model_noOverflow_flag": fl, "replay_cmd": cx.replay_ub("int1 %s %d %d" % (n, x, y))}, True)
        name_g = "ubsan:int: no undefined behaviour for inputs inside the property's guard (no negation overflows, quotient representable)"
        chk.oblige(name_g, "correspondence", not ub_in_guard)
        for n, lst in sorted(ub_in_guard.items()):
            lst.sort(key=lambda t: ((t[0], t[1]) != (-2147483647, 3), abs(t[1]), t[0]))
            x, y, ans, plain, spec = lst[0]
            rep = {"function": n, "x": x, "y": y, "euclidean_quotient": (x - x % abs(y)) // y, "mathematical_result": spec, "fits_int": True,
                   "sanitised_build": ans, "plain_build_result": plain, "grid_pairs_of_this_class": len(lst),
                   "others": [{"x": t[0], "y": t[1]} for t in lst[1:8]],
                   "theorem": "ImathVerif.C17.modp_former_defect_fixed", "replay_cmd": cx.replay_ub("int1 %s %d %d" % (n, x, y))}
            cx.spec_fail.setdefault("int", rep)
            chk.fail(name_g, "fun_corr:%s:result-representable,intermediate-overflows" % n,
                     "%s(%d,%d): no negation overflows and the result %s is an int, but an int intermediate overflows (undefined behaviour: %s); "
                     "the unsanitised build returns %s only because the overflow wraps" % (n, x, y, spec, ans[3:], plain), rep, True)
    chk.count(4 * len(pairs), 4 * len(pairs))
    chk.oblige("corr:int:model=euclid/trunc-spec(%d pairs: boundary grid + ALL of [-130,130]^2 + int extremes x [-64,64] both ways)" % len(pairs),
               "correspondence", not model_bad)
    chk.oblige("corr:int:impl=model=spec-under-no-overflow-guard", "correspondence", not impl_bad)
    chk.oblige("spec:int:divp/modp-under-the-property's-negation-guard", "correspondence", not neg_guard_bad)
    chk.extra["int_excluded_inputs"] = excluded
    # all (x, y) of [-2048, 2048]^2, y != 0, inside the harness against 64-bit definitional specifications (plain and sanitised builds)
    for binr, nm in ((cx.binary, "plain"), (cx.ubsan, "ubsan")):
        if not binr:
            continue
        rc, o = lib.sh([binr, "ints_small", "2048"], timeout=600)
        w = o.split()
        oks = rc == 0 and len(w) == 3 and w[0] == "0"
        chk.oblige("spec:int:divs/mods/divp/modp = truncating / Euclidean division for ALL pairs of [-2048,2048]^2, y != 0 (%s build, 16,781,312 pairs x 4)" % nm,
                   "correspondence", oks, None if oks else o[-300:])
        chk.count(4 * 4097 * 4096, 4 * 4097 * 4096)
        if not oks:
            rep = {"output": o[-300:], "replay_cmd": "%s ints_small 2048" % os.path.relpath(binr, lib.VERIF)}
            if rc == 0 and len(w) == 3:
                rep.update({"mismatches": int(w[0]), "first_x": int(w[1]), "first_y": int(w[2]), "replay_cmd": cx.replay_cmd("int %s %s" % (w[1], w[2]))})
                cx.spec_fail.setdefault("int", rep)
            chk.fail("spec:int:divs/mods/divp/modp = truncating / Euclidean division for ALL pairs", "fun_corr:int:small-scope-sweep:%s" % nm,
                     "divs/mods/divp/modp differ from their definitions on small operands (first pair x=%s, y=%s)" % (w[1] if len(w) == 3 else "?", w[2] if len(w) == 3 else "?"),
                     rep, rc == 0 and len(w) == 3)
    for n, x, y, m, s in model_bad[:3]:
        chk.fail("corr:int", "model:%s:x=%d,y=%d" % (n, x, y), "unbounded model differs from the specification",
                 {"function": n, "x": x, "y": y, "model": m, "specification": s}, True)
    for n, x, y, i, m, s in impl_bad[:3]:
        rep = {"function": n, "x": x, "y": y, "implementation": i, "model": m, "specification": s,
               "replay_cmd": cx.replay_cmd("int %d %d" % (x, y))}
        cx.spec_fail.setdefault("int", rep)
        chk.fail("corr:int", "%s:x=%d,y=%d" % (n, x, y), "%s(%d,%d) differs from the specification although no intermediate overflows"
                 % (n, x, y), rep, True)
    if neg_guard_bad:
        canon_w = [t for t in neg_guard_bad if t[1] == -5 and t[2] == INT_MAX and t[0] == "divp"]
        n, x, y, i, s = canon_w[0] if canon_w else neg_guard_bad[0]
        chk.fail("spec:int:negation-guard", "divp:x=%d,y=%d" % (x, y),
                 "divp/modp are wrong for inputs where no negation overflows (some other intermediate does); "
                 "%s(%d,%d) returns %s, Euclidean value is %d" % (n, x, y, i, s),
                 {"function": n, "x": x, "y": y, "implementation": i, "specification": s, "failing_grid_pairs": len(neg_guard_bad),
                  "others": [{"fn": t[0], "x": t[1], "y": t[2], "impl": t[3], "spec": t[4]} for t in neg_guard_bad[:8]],
                  "theorem": "ImathVerif.C17.divp_modp_int32 / divp_former_defect_fixed", "replay_cmd": cx.replay_cmd("int %d %d" % (x, y))}, True)


# ---------------------------------------------------------------------------
# scalar utilities at float / double

def check_scalars(cx):
    chk, rng = cx.chk, cx.chk.rng
    base = [0.0, -0.0, 1.0, -1.0, 0.5, 2.0, 3.0, -2.5, 1e-30, -1e-30, 1e30, 0.1, 100.0, float("inf"), float("nan")]
    lines, meta = [], []
    for ty, mx, tiny, h, rnd in (("sd", 1.7976931348623157e308, 5e-324, hd, float), ("sf", 3.4028234663852886e38, 1e-45, hf, tof)):
        vals = base + [mx, -mx, tiny, mx / 2]
        trip = [(a, b, t) for a in vals for b in vals for t in (0.0, 1.0, 0.25, -1.0, 2.0, 1e-30, mx, float("nan"))]
        trip = rng.sample(trip, 1200) + [(rng.uniform(-10, 10), rng.uniform(-10, 10), rng.uniform(-1, 2)) for _ in range(600)]
        # lerpfactor guard neighbourhood: d tiny, n huge
        trip += [(tiny * k, tiny * (k + j), mx / d) for k in (0, 1, 3) for j in (1, 2) for d in (1, 2, 4)]
        trip += [(a, a, t) for a in (0.0, 1.0, -3.0) for t in (0.0, 5.0)] + [(1.0, 1.0, 1.0), (-3.0, -3.0, -3.0)]
        # ... and the edge of the guard itself: |n| == max * |d| exactly (strict `<`: returns 0), d == 1 (`> 1` is false)
        trip += [(0.0, 0.5, mx / 2), (0.0, 0.25, mx / 4), (0.0, -0.5, mx / 2), (0.0, 1.0, mx), (0.0, 1.0, mx / 2), (0.0, -1.0, 3.0), (0.0, 2.0, mx)]
        # DETERMINISTIC boundary triples: the equalities that separate `<=` from `<` (line = a b t; clamp is clamp (t, a, b))
        nb = len(trip)
        for t in (0.25, 1.0, 1e-30 if ty == "sd" else 9.999999682655225e-21):
            for a in (0.0, 1.0, -2.0, 4.0):
                trip += [(a, a + t, t), (a, a - t, t), (a + t, a, t)]       # |a - b| == t : cmpt / equal / equalWithAbsError
            trip += [(t, 7.0, t), (-t, 7.0, t)]                             # |a| == t     : iszero
        trip += [(2.0, 1.0, 0.5), (4.0, 3.0, 0.25), (-2.0, -1.0, 0.5), (4.0, 5.0, 0.25)]   # |x1 - x2| == e * |x1| : equalWithRelError
        trip += [(1.0, 3.0, 1.0), (1.0, 3.0, 3.0), (-2.0, -2.0, -2.0), (1.0, 3.0, 0.999), (1.0, 3.0, 3.001)]   # clamp: a == l, a == h
        cx.hit("scalar:deterministic-boundary-triples", len(trip) - nb)
        for a, b, t in trip:
            a, b, t = rnd(a), rnd(b), rnd(t)
            lines.append("%s %s %s %s" % (ty, h(a), h(b), h(t)))
            meta.append((ty, a, b, t))
    a, b = cx.both(lines, "scal")
    if a is None:
        return
    bad = []
    for i, l in enumerate(lines):
        w = 64 if l.startswith("sd") else 32
        ta = [canon(t, w) for t in a[i].split()]
        tb = [canon(t, w) for t in b[i].split()]
        if ta != tb[:12]:
            bad.append(i)
        cx.hit("lerpfactor:guard-passes" if tb[12] == "1" else "lerpfactor:guard-fires(returns 0)")
    chk.oblige("corr:scalar-utilities(%d triples, float+double, 12 functions)" % len(lines), "correspondence", not bad)
    chk.count(12 * len(lines), 12 * len(lines))
    for i in bad[:3]:
        chk.fail("corr:scalar", "scalar:" + lines[i].replace(" ", ","),
                 "abs/sign/lerp/ulerp/lerpfactor/clamp/cmp/cmpt/iszero/equal/equalWithAbs/RelError: implementation differs from model",
                 {"line": lines[i], "columns": "abs sign lerp ulerp lerpfactor(t,a,b) clamp(t,a,b) cmp cmpt iszero equal eqAbs eqRel",
                  "implementation": a[i], "model": b[i], "replay_cmd": cx.replay_cmd(lines[i])}, True)

    # ---- independent specification of the arithmetic-free functions, on the real code (values, not bit patterns: abs (+0) is -0)
    isnan = lambda v: v != v
    spec_bad, nspec = [], 0
    mxof = {"sd": 1.7976931348623157e308, "sf": 3.4028234663852886e38}
    lf_bad = []
    for i, (ty, x, y, t) in enumerate(meta):
        dec = (lambda tok: u2d(int(tok, 16))) if ty == "sd" else (lambda tok: u2f(int(tok, 16)))
        rnd = float if ty == "sd" else tof
        col = a[i].split()
        got_abs, got_sign, got_clamp, got_cmp, got_isz = dec(col[0]), int(col[1]), dec(col[5]), int(col[6]), int(col[8])
        chk_list = []
        if not isnan(x):
            chk_list += [("abs", got_abs == math.fabs(x), math.fabs(x), got_abs),
                         ("sign", got_sign == (x > 0) - (x < 0), (x > 0) - (x < 0), got_sign)]
            if not isnan(t):
                chk_list.append(("iszero", got_isz == (1 if math.fabs(x) <= t else 0), 1 if math.fabs(x) <= t else 0, got_isz))
        if not isnan(x) and not isnan(y):
            chk_list.append(("cmp", got_cmp == (x > y) - (x < y), (x > y) - (x < y), got_cmp))      # IEEE: a - b == 0 <=> a == b, sign exact
            if not isnan(t) and x <= y:
                want = min(max(t, x), y)
                chk_list.append(("clamp", got_clamp == want, want, got_clamp))
        for fn, okk, want, got in chk_list:
            nspec += 1
            if not okk:
                spec_bad.append((i, fn, want, got))
        # lerpfactor (m = t, a = x, b = y): finite whenever n, d are; non-zero only if the guard holds; 0 whenever it does not
        if not any(isnan(v) or math.isinf(v) for v in (x, y, t)):
            n, d = rnd(t - x), rnd(y - x)
            if not (math.isinf(n) or math.isinf(d)):
                lf = dec(col[4])
                guard = abs(Fraction(d)) > 1 or abs(Fraction(n)) < Fraction(mxof[ty]) * abs(Fraction(d))
                cx.hit("lerpfactor:spec:" + ("guard-holds" if guard else "guard-fails"))
                if isnan(lf) or math.isinf(lf):
                    lf_bad.append((i, "not finite", lf))
                elif lf != 0 and not guard:
                    lf_bad.append((i, "non-zero although |d| <= 1 and |n| >= max |d|", lf))
                elif guard and d != 0 and lf != rnd(n / d):
                    lf_bad.append((i, "guard holds but the result is not n / d", lf))
    chk.count(nspec, nspec)
    chk.oblige("spec:scalar: abs/sign/cmp/clamp/iszero of the real code = their definitions evaluated independently (%d comparisons)" % nspec,
               "correspondence", not spec_bad)
    for i, fn, want, got in spec_bad[:3]:
        rep = {"function": fn, "line": lines[i], "a,b,t": [repr(v) for v in meta[i][1:]], "expected": want, "implementation": got,
               "replay_cmd": cx.replay_cmd(lines[i])}
        cx.spec_fail.setdefault("scalar", rep)
        chk.fail("spec:scalar", "fun_corr:%s<%s>:differs-from-definition" % (fn, "double" if meta[i][0] == "sd" else "float"),
                 "%s%r returns %r, its definition gives %r" % (fn, tuple(meta[i][1:]), got, want), rep, True)
    chk.oblige("spec:lerpfactor:finite, and 0 exactly when the guard |d| > 1 or |n| < max |d| fails (exact rationals)", "correspondence", not lf_bad)
    for i, what, lf in lf_bad[:3]:
        rep = {"line": lines[i], "m,a,b": [repr(meta[i][3]), repr(meta[i][1]), repr(meta[i][2])], "lerpfactor": repr(lf), "what": what,
               "replay_cmd": cx.replay_cmd(lines[i])}
        cx.spec_fail.setdefault("scalar", rep)
        chk.fail("spec:lerpfactor", "fun_corr:lerpfactor<%s>:%s" % ("double" if meta[i][0] == "sd" else "float", what.split(" ")[0]),
                 "lerpfactor (m=%r, a=%r, b=%r) = %r: %s" % (meta[i][3], meta[i][1], meta[i][2], lf, what), rep, True)

    # ---- residue on the REAL code: lerpfactor (lerp (a, b, t), a, b) - t, in units of its conditioning eps (|a| + |b| + |m|) / |b - a|
    # (clean-tree maximum 1.3 double / 1.2 float over 5 seeds; a reordering such as m/(b-a) - a/(b-a) exceeds it)
    for ty, h, rnd, dec in (("sd", hd, float, lambda tok: u2d(int(tok, 16))), ("sf", hf, tof, lambda tok: u2f(int(tok, 16)))):
        ep = EPS["d" if ty == "sd" else "f"]
        trips = []
        while len(trips) < 1500:
            x, y, t = rnd(rng.uniform(-100, 100)), rnd(rng.uniform(-100, 100)), rnd(rng.uniform(0, 1))
            if abs(y - x) >= 1e-3:
                trips.append((x, y, t))
        rc, o1 = run_lines(cx.binary, ["%s %s %s %s" % (ty, h(x), h(y), h(t)) for x, y, t in trips], "lf1")
        rc2, o2 = run_lines(cx.binary, ["%s %s %s %s" % (ty, h(x), h(y), l.split()[2]) for (x, y, t), l in zip(trips, o1)], "lf2") if rc == 0 else (1, [])
        worst, wat, worst_abs = 0.0, None, 0.0
        if rc == 0 and rc2 == 0 and len(o2) == len(trips):
            for (x, y, t), l1, l in zip(trips, o1, o2):
                m = dec(l1.split()[2])
                e = abs(dec(l.split()[4]) - t)
                q = e / (ep * (abs(x) + abs(y) + abs(m)) / abs(y - x))
                worst_abs = max(worst_abs, e)
                if not q <= worst:
                    worst, wat = q, (x, y, t)
        okr = wat is not None and worst <= LFBOUND
        tn = "double" if ty == "sd" else "float"
        chk.residues["lerpfactor(lerp(a,b,t),a,b)-t on the real code (%s), in units of eps (|a|+|b|+|m|)/|b-a| (MEASURED)" % tn] = {
            "max": worst, "bound": LFBOUND, "at": wat, "max_abs": worst_abs}
        chk.oblige("residue:lerpfactor inverts lerp on the real code to %g eps x conditioning (%s)" % (LFBOUND, tn), "residue", okr)
        chk.count(len(trips), len(trips))
        if not okr:
            chk.fail("residue:lerpfactor inverts lerp", "fun_corr:lerpfactor(lerp)<%s>:residue" % tn,
                     "lerpfactor (lerp (a, b, t), a, b) differs from t by %r x eps (|a|+|b|+|m|)/|b-a| at %r" % (worst, wat), {"max": worst, "at": wat, "bound": LFBOUND}, True)

    # ---- integer instantiations (not named by the property; three-way: plain build, sanitised build, Python integers)
    iv = [0, 1, -1, 2, -2, 7, 2 ** 30, -2 ** 30, INT_MAX - 1, INT_MAX, INT_MIN + 1, INT_MIN] + [rng.randint(INT_MIN, INT_MAX) for _ in range(3)]
    tv = [0, 1, 5, INT_MAX, -1]
    itr = [(x, y, t) for x in iv for y in iv for t in tv]
    itr = rng.sample(itr, 500) + [(INT_MAX, -1, 0), (INT_MIN, 0, 0), (INT_MIN, INT_MIN, 0), (-5, 3, 8), (3, 3, 0), (2, 5, 2), (2, 5, 5)]
    ilines, imeta = [], []

    def ispec(fn, x, y, t):
        """(value, does an int intermediate overflow?) with unbounded integers"""
        inr = lambda v: INT_MIN <= v <= INT_MAX
        iabs = lambda v: (v if v > 0 else -v, not inr(-v) if not v > 0 else False)
        sgn = lambda v: (v > 0) - (v < 0)
        if fn == "abs":
            return iabs(x)
        if fn == "sign":
            return sgn(x), False
        if fn == "clamp":
            return (x if t < x else (y if t > y else t)), False
        if fn == "cmp":
            return sgn(x - y), not inr(x - y)
        if fn == "iszero":
            v, o = iabs(x)
            return (1 if v <= t else 0), o
        dd = x - y
        if not inr(dd):
            return None, True
        v, o = iabs(dd)
        if fn == "equal":
            return (1 if v <= t else 0), o
        return (0 if v <= t else sgn(dd)), o      # cmpt
    for x, y, t in itr:
        for fn in ("abs", "sign", "cmp", "cmpt", "clamp", "iszero", "equal"):
            ilines.append("si1 %s %d %d %d" % (fn, x, y, t))
            imeta.append((fn, x, y, t))
    rc, ia = run_lines(cx.binary, ilines, "si")
    iu = cx.sanitized(ilines, "si")
    if rc == 0 and len(ia) == len(ilines) and iu is not None:
        ibad, excl = [], {}
        for l, (fn, x, y, t), pa, pu in zip(ilines, imeta, ia, iu):
            val, ovf = ispec(fn, x, y, t)
            if pu.startswith("UB") != ovf:
                ibad.append((l, "sanitizer %s but the definition %s an overflowing int intermediate" % ("aborts" if pu.startswith("UB") else "is clean", "has" if ovf else "has no"), pa, pu, val))
            elif not ovf and not (pa == pu == str(val)):
                ibad.append((l, "differs from the definition", pa, pu, val))
            if ovf:
                e = excl.setdefault(fn, {"inputs": 0, "plain_build_equals_definition_anyway": 0, "example": None})
                e["inputs"] += 1
                e["plain_build_equals_definition_anyway"] += 1 if (val is not None and pa == str(val)) else 0
                e["example"] = e["example"] or {"call": l, "plain_build": pa, "definition(unbounded)": val, "sanitised": pu}
        chk.count(len(ilines), len(ilines))
        chk.oblige("spec:scalar:int: abs/sign/cmp/cmpt/clamp/iszero/equal<int> = definition unless an int intermediate overflows, and the sanitizer "
                   "aborts exactly there (%d calls)" % len(ilines), "correspondence", not ibad)
        chk.extra["int_instantiations_excluded_inputs(an intermediate overflows; not claimed)"] = excl
        for l, what, pa, pu, val in ibad[:3]:
            chk.fail("spec:scalar:int", "fun_corr:%s<int>:differs-from-definition" % l.split()[1], "`%s`: %s" % (l, what),
                     {"line": l, "plain_build": pa, "sanitised_build": pu, "definition": val, "replay_cmd": cx.replay_ub(l)}, True)

    # ---- equal (T1 a, T2 b, T3 t) at MIXED element types: |a - b| <= t in the common type of a and b (the usual arithmetic conversions);
    #      narrowing the difference to T1 (abs<T1> (a - b)) changes the verdict exactly when the fractional / low-order part decides it
    import random as _random
    mrng = _random.Random(chk.seed * 7919 + 17)      # its own stream: the draws of the later sections stay what they were
    mlines, mwant = [], []
    for _ in range(300):
        a = mrng.randrange(-50, 50)
        b = a + mrng.choice([-1, 1]) * mrng.choice([0.25, 0.5, 0.75, 0.999, 1.25, 2.75])
        t = mrng.choice([0.0, 0.001, 0.25, 0.5, 0.75, 1.0, 2.0])
        mlines.append("sm id %d %s %s" % (a, hd(b), hd(t))); mwant.append(1 if abs(float(a) - b) <= t else 0)
        mlines.append("sm lf %d %s %s" % (a, hf(tof(b)), hf(tof(t)))); mwant.append(1 if abs(tof(float(a) - tof(b))) <= tof(t) else 0)
        fa = tof(a + mrng.choice([0.0, 0.5, 0.125]))
        db = fa + mrng.choice([-1, 1]) * mrng.choice([1e-50, 2.0 ** -30, 2.0 ** -60, 0.25, 1.0])
        dt = mrng.choice([0.0, 2.0 ** -40, 0.25, 0.5])
        mlines.append("sm fd %s %s %s" % (hf(fa), hd(db), hd(dt))); mwant.append(1 if abs(float(fa) - db) <= dt else 0)
        da = a + mrng.choice([0.0, 2.0 ** -30, 0.3])
        fb, ft = tof(a + mrng.choice([0.25, -0.5, 1.0])), tof(mrng.choice([0.0, 0.25, 0.5, 1.0]))
        mlines.append("sm df %s %s %s" % (hd(da), hf(fb), hf(ft))); mwant.append(1 if abs(da - float(fb)) <= float(ft) else 0)
    mlines += ["sm id 2 %s %s" % (hd(2.75), hd(0.5)), "sm id 0 %s %s" % (hd(-0.999), hd(0.001)), "sm fd %s %s %s" % (hf(0.0), hd(1e-50), hd(0.0))]
    mwant += [0, 0, 0]
    rcm, ma = run_lines(cx.binary, mlines, "sm")
    if rcm == 0 and len(ma) == len(mlines):
        mbad = [(l, a_, w_) for l, a_, w_ in zip(mlines, ma, mwant) if a_.strip() != str(w_)]
        chk.count(len(mlines), len(mlines))
        chk.oblige("spec:scalar:mixed: equal<int,double,double> / <long,float,float> / <float,double,double> / <double,float,float> = (|a - b| <= t in the "
                   "common type) (%d calls, %d expected false)" % (len(mlines), mwant.count(0)), "correspondence", not mbad)
        for l, a_, w_ in mbad[:3]:
            chk.fail("spec:scalar:mixed", "fun_corr:equal<mixed %s>:differs-from-definition" % l.split()[1],
                     "`%s`: the real code returns %s, the definition |a - b| <= t in the common type of a and b gives %d" % (l, a_, w_),
                     {"line": l, "implementation": a_, "definition": w_, "replay_cmd": cx.replay_cmd(l)}, True)
    else:
        chk.oblige("spec:scalar:mixed: harness ran", "correspondence", False, "rc=%s answers=%d of %d" % (rcm, len(ma), len(mlines)))
        chk.fail("spec:scalar:mixed", "fun_corr:sm:no-output", "the mixed-type equal lines were not answered", {"rc": rcm}, False)

    # ---- ulerp / lerp at unsigned int (Q = float), dyadic t and a, b < 2^22: every float operation is exact
    ulines, umeta = [], []
    for _ in range(400):
        x, y = rng.randrange(0, 1 << 22), rng.randrange(0, 1 << 22)
        if rng.random() < 0.2:
            y = x
        t = rng.choice([0.0, 0.25, 0.5, 0.75, 1.0])
        ulines.append("ul %d %d %s" % (x, y, hf(t)))
        umeta.append((x, y, t))
    ulines += ["ul 10 3 %s" % hf(0.5), "ul 3 10 %s" % hf(0.5), "ul 4194303 0 %s" % hf(1.0), "ul 0 4194303 %s" % hf(1.0)]
    umeta += [(10, 3, 0.5), (3, 10, 0.5), (4194303, 0, 1.0), (0, 4194303, 1.0)]
    ua, ub = cx.both(ulines, "ulerp")
    if ua is not None:
        ubad = []
        for l, (x, y, t), pa, pb in zip(ulines, umeta, ua, ub):
            want = math.floor(Fraction(x) + (Fraction(y) - Fraction(x)) * Fraction(t))
            if pa != pb or pa.split() != [str(want), str(want)]:
                ubad.append((l, pa, pb, want))
            cx.hit("ulerp<unsigned>:" + ("a>b" if x > y else "a<=b"))
        chk.count(2 * len(ulines), 2 * len(ulines))
        chk.oblige("corr+spec:ulerp/lerp<unsigned int, float>: impl = model = floor (a + (b - a) t) (%d calls, both arms)" % len(ulines), "correspondence", not ubad)
        for l, pa, pb, want in ubad[:3]:
            chk.fail("corr+spec:ulerp", "fun_corr:ulerp<unsigned>:%s" % ("a>b" if int(l.split()[1]) > int(l.split()[2]) else "a<=b"),
                     "`%s`: implementation %s, model %s, exact value %d" % (l, pa, pb, want),
                     {"line": l, "implementation(ulerp lerp)": pa, "model": pb, "exact": want, "replay_cmd": cx.replay_cmd(l)}, True)


# ---------------------------------------------------------------------------
# roots

def poly_from_roots(rs):
    c = [Fraction(1)]
    for r in rs:
        c = [a - r * b for a, b in zip(c + [Fraction(0)], [Fraction(0)] + c)]
    return c   # highest degree first


def exact_quad_roots(a, b, c):
    """the two real roots of a x^2 + b x + c (Fractions, D > 0) to 2^-190 relative, sorted"""
    D = b * b - 4 * a * c
    n = D.numerator * D.denominator
    k = 200
    sq = Fraction(math.isqrt(n << (2 * k)), D.denominator << k)
    return sorted([(-b - sq) / (2 * a), (-b + sq) / (2 * a)])


def root_cases(rng):
    R = [Fraction(x) for x in (-8, -5, -3, -2, -1, 0, 1, 2, 3, 4, 7)] + [Fraction(1, 2), Fraction(-3, 2), Fraction(5, 4), Fraction(-7, 4)]
    cases = []   # (cmd, coefficients as Fractions, true distinct real roots, class)
    for a in (Fraction(2), Fraction(-3), Fraction(1, 2)):
        for r in R:
            cases.append(("rl", [a, -a * r], [r], "lin"))
    cases.append(("rl", [Fraction(0), Fraction(3)], [], "lin0"))
    cases.append(("rl", [Fraction(0), Fraction(0)], None, "linall"))
    for a in (Fraction(1), Fraction(-2), Fraction(1, 2), Fraction(3)):
        for r1, r2 in itertools.combinations(R, 2):
            c = poly_from_roots([r1, r2])
            cases.append(("rq", [a * x for x in c], sorted({r1, r2}), "quad2"))
        for r in R:
            cases.append(("rq", [a * x for x in poly_from_roots([r, r])], [r], "quad1"))
        for k in (1, 4, Fraction(1, 4)):
            cases.append(("rq", [a, Fraction(0), a * k], [], "quad0"))
            cases.append(("rq", [a * x for x in (Fraction(1), Fraction(-2), 1 + Fraction(k))], [], "quad0"))
    cases.append(("rq", [Fraction(0), Fraction(2), Fraction(-6)], [Fraction(3)], "quad-deleg"))
    cases.append(("rq", [Fraction(0), Fraction(0), Fraction(1)], [], "quad-deleg"))
    cases.append(("rq", [Fraction(0), Fraction(0), Fraction(0)], None, "quad-deleg"))
    trip = list(itertools.combinations(R, 3))
    for r3 in rng.sample(trip, 160) + [(Fraction(1), Fraction(2), Fraction(-3)), (Fraction(-1), Fraction(0), Fraction(1))]:
        c = poly_from_roots(list(r3))
        cases.append(("rn", c[1:], sorted(set(r3)), "cubic3"))
        a = rng.choice([Fraction(2), Fraction(-1, 2), Fraction(3)])
        cases.append(("rc", [a * x for x in c], sorted(set(r3)), "cubic3"))
    # one real root r1 and a complex pair: (x - r1)(x^2 + b x + c), b^2 < 4c
    for r1 in R:
        for bq, cq in ((0, 1), (-1, 1), (2, 5), (1, 3), (-3, 4)):
            c = [Fraction(1), Fraction(bq) - r1, Fraction(cq) - Fraction(bq) * r1, -Fraction(cq) * r1]
            cases.append(("rn", c[1:], [r1], "cubic1"))
    # (x - h)^3 + k : p = 0, q = k
    for h in (0, 1, -1, 2):
        for k in (1, -1, 8, -8, 27):
            c = [Fraction(1), Fraction(-3 * h), Fraction(3 * h * h), Fraction(-h ** 3 + k)]
            cases.append(("rn", c[1:], None, "cubic-p0:k=%d" % k))   # real root h - cbrt(k)
            cases.append(("rc", [2 * x for x in c], None, "cubic-p0:k=%d" % k))
    for r in R[:8]:
        cases.append(("rn", poly_from_roots([r, r, r])[1:], [r], "cubic-triple"))
    for r1, r2 in rng.sample(list(itertools.permutations(R, 2)), 30):
        cases.append(("rn", poly_from_roots([r1, r1, r2])[1:], sorted({r1, r2}), "cubic-double"))
    # widely spread, exactly representable roots (2^-20 .. 2^20 at double, 2^-10 .. 2^10 at float), leading coefficient 2^+-30:
    # b^2 >> 4ac, large / small coefficient scales.  Per-root RELATIVE accuracy is demanded of the quadratic (stable q form);
    # for the cubic (Cardano is not backward stable root by root) the per-root relative error is measured and recorded.
    for tyc, mags, rnd in (("d", (-20, -10, 0, 10, 20), float), ("f", (-10, 0, 10), tof)):
        # quadratics: random full-width mantissas, root magnitudes 2^e1, 2^e2 at least 2^10 apart; the polynomial is the one with the
        # ROUNDED coefficients, its true roots come from a 200-bit integer square root
        for _ in range(150):
            e1, e2 = rng.sample(mags, 2)
            r1 = Fraction(rnd(rng.uniform(1, 2) * rng.choice([1, -1]))) * Fraction(2) ** e1
            r2 = Fraction(rnd(rng.uniform(1, 2) * rng.choice([1, -1]))) * Fraction(2) ** e2
            lead = rng.choice([Fraction(2) ** 30, Fraction(2) ** -30, Fraction(-3)])
            co = [lead, Fraction(rnd(float(-lead * (r1 + r2)))), Fraction(rnd(float(lead * r1 * r2)))]
            cases.append(("rq", co, exact_quad_roots(*co), "quad2-wide:" + tyc))
        W = [Fraction(2) ** e * sg * mant for e in mags for sg, mant in ((1, 1), (-1, 3), (1, 5), (-1, 7), (1, 3))]
        trips = [t for t in itertools.combinations(W, 3) if min(abs(t[0] / t[1]), abs(t[1] / t[0])) < Fraction(1, 100) and
                 min(abs(t[1] / t[2]), abs(t[2] / t[1])) < Fraction(1, 100) and min(abs(t[0] / t[2]), abs(t[2] / t[0])) < Fraction(1, 100)]
        fixed = [(Fraction(1, 2 ** 20), Fraction(5, 2 ** 10), Fraction(3 * 2 ** 20))] if tyc == "d" else [(Fraction(1, 2 ** 10), Fraction(5, 2 ** 5), Fraction(3 * 2 ** 10))]
        for r3 in fixed + rng.sample(trips, min(60, len(trips))):
            c = poly_from_roots(list(r3))
            cases.append(("rn", c[1:], sorted(set(r3)), "cubic3-wide:" + tyc))
            cases.append(("rc", [Fraction(2) ** 30 * x for x in c], sorted(set(r3)), "cubic3-wide:" + tyc))
    cases.append(("rc", [Fraction(0), Fraction(1), Fraction(-3), Fraction(2)], [Fraction(1), Fraction(2)], "cubic-deleg"))
    cases.append(("rc", [Fraction(0), Fraction(0), Fraction(2), Fraction(-6)], [Fraction(3)], "cubic-deleg"))
    return cases


# accuracy bound (relative to max(1,|root|)) for polynomials with well-separated roots; the clean tree measures
# <= 3e-15 (double) and <= 1.2e-6 (float); the cancellation defect repaired in 7563d4d measured 6e-11 / 2.3e-2
EPS = {"d": 2.0 ** -53, "f": 2.0 ** -24}
# real arms (linear, quadratic, D > 0 cubic), error relative to max (1, |roots|): clean-tree maximum 4 eps (double) / 4 eps (float)
RBOUND = {"d": 16 * EPS["d"], "f": 16 * EPS["f"]}
# complex arm on well-scaled roots: clean-tree maximum 15 eps / 20 eps
RBOUND_C = {"d": 64 * EPS["d"], "f": 64 * EPS["f"]}
# model (textbook complex pow) vs implementation on the complex arm: clean-tree maximum 8.9e-16 (8 eps) / 9.5e-7 (16 eps) at seeds 1-3
CTOL = {"d": 64 * EPS["d"], "f": 128 * EPS["f"]}
# three-real-root cubics, ALL magnitudes: |error_i| <= NBOUND * eps * K_i, K_i = R^3 / prod_{j != i} |x_i - x_j|, R = max |root| (the condition
# number of x_i under coefficient perturbations |da_k| <= eps R^(3-k): what a solver working on the depressed cubic can deliver);
# clean-tree maximum 7.5 (double) / 8.9 (float) over 5 seeds
LFBOUND = 4      # lerpfactor o lerp, in units of eps (|a| + |b| + |m|) / |b - a| (clean-tree maximum 1.85 over 5 seeds)
CRT1 = 32 * 2.0 ** -53     # hsv2rgb_d (rgb2hsv_d (c)) - c: clean-tree maximum 4.5 eps
CRT2 = 4                   # rgb2hsv_d (hsv2rgb_d (c)) - c in units of eps / s (clean-tree maximum 1.0 over 5 seeds)
NBOUND = 16
CWBOUND = 256    # componentwise reading: relative error of every root <= CWBOUND eps (the roots' componentwise condition numbers are <= 2.03)
CW_CEILING = {"d": 0.15, "f": 0.08}   # share of wide three-real-root tuples with a wrong COUNT (all in the known-finding class): clean tree 8-12 % / 2-5 %
WMODEL = 0.25    # wide cubics, hand model vs implementation, in units of eps K_max: clean-tree maximum 0.0034
UNRES = 2        # unresolvable cubics: farthest value written from a true root, in units of sqrt (eps) R: clean-tree maximum 0.36
# multiple roots (count not claimed): every value written within MULT_TOL * max (1, |roots|) of a true root (error ~ sqrt (eps))
MULT_TOL = {"d": 2e-7, "f": 4e-3}     # clean-tree maximum 3.3e-8 / 4.0e-4 over 5 seeds


def normwise_K(roots):
    R = max(abs(float(r)) for r in roots)
    return [R ** 3 / math.prod(abs(float(r - q)) for q in roots if q != r) for r in roots]
# per-root RELATIVE bound for quadratics with widely spread roots: clean-tree maximum 2.3e-16 / 1.3e-7 (about one ulp)
WBOUND = {"d": 4e-15, "f": 2e-6}


def cbrt(x):
    return math.copysign(abs(x) ** (1.0 / 3.0), x)


def check_roots(cx):
    chk = cx.chk
    cases = root_cases(chk.rng)
    lines, meta = [], []
    for cmd, co, roots, cls in cases:
        for ty, h, cv in (("d", hd, float), ("f", hf, lambda v: tof(float(v)))):
            if cls.endswith(":d") and ty != "d" or cls.endswith(":f") and ty != "f":
                continue
            lines.append("%s %s %s" % (cmd, ty, " ".join(h(cv(float(c))) for c in co)))
            meta.append((cmd, ty, co, roots, cls))
    a, b = cx.both(lines, "roots")
    if a is None:
        return
    corr_bad, spec_bad, defect = [], [], []
    resid = {"d": {"real": 0.0, "complex": 0.0}, "f": {"real": 0.0, "complex": 0.0}}
    mdiff = {"d": 0.0, "f": 0.0}
    mdiff_w = {"d": 0.0, "f": 0.0}
    nw = {ty: {"resolvable": 0, "unresolvable": 0, "unres_wrong_count": 0, "worst": 0.0, "worst_at": None, "unres_worst_sqrt": 0.0, "witness": None}
          for ty in ("d", "f")}
    mult = {ty: {"cases": 0, "count_differs": 0, "worst": 0.0} for ty in ("d", "f")}
    cw_bad = {"d": [], "f": []}
    wide = {"d": {"quad": 0.0, "cubic": 0.0, "cubic_count_wrong": 0, "cubic_cases": 0}, "f": {"quad": 0.0, "cubic": 0.0, "cubic_count_wrong": 0, "cubic_cases": 0}}
    count_mismatch_double_roots = 0
    for i, (l, (cmd, ty, co, roots, cls)) in enumerate(zip(lines, meta)):
        w = 64 if ty == "d" else 32
        dec = (lambda t: u2d(int(t, 16))) if ty == "d" else (lambda t: u2f(int(t, 16)))
        ia, ib = a[i].split(), b[i].split()
        n_impl, n_model, br = int(ia[0]), int(ib[0]), int(ib[1])
        cx.hit("roots:%s:%s" % (cmd, {0: "triple", 1: "real(D>0)", 2: "complex(D=0)", 3: "complex(D<0)", 9: "-"}[br]))
        xi = [canon(t, w) for t in ia[1:]]
        xm = [canon(t, w) for t in ib[2:]][:max(n_model, 0)]
        # model vs implementation
        if n_impl != n_model:
            corr_bad.append((i, "count"))
        elif br in (2, 3):
            for p, q in zip(xi, xm):
                if "nan" in (p, q):
                    if p != q:
                        corr_bad.append((i, "complex-branch nan"))
                    continue
                vp, vq = dec(p), dec(q)
                if not cls.startswith("cubic3-wide"):
                    mdiff[ty] = max(mdiff[ty], abs(vp - vq) / max(1.0, abs(vp)))
                    # the driver's complex pow is a textbook polar form, not glibc's: agreement to CTOL (about 8x the clean-tree maximum)
                    if abs(vp - vq) > CTOL[ty] * max(1.0, abs(vp)):
                        corr_bad.append((i, "complex-branch root"))
                else:
                    # widely spread roots: agreement commensurate with the normwise conditioning of the worst root
                    kmax = max(normwise_K(roots))
                    mdiff_w[ty] = max(mdiff_w[ty], abs(vp - vq) / (EPS[ty] * kmax))
                    if abs(vp - vq) > WMODEL * EPS[ty] * kmax:
                        corr_bad.append((i, "complex-branch root (wide)"))
        elif xi != xm:
            corr_bad.append((i, "roots"))
        # implementation vs mathematics
        exact = all(Fraction(float(c) if ty == "d" else tof(float(c))) == c for c in co)
        pq = None
        if cmd == "rn" or (cmd == "rc" and co[0] != 0):
            nr, ns, nt = (co if cmd == "rn" else [c / co[0] for c in co[1:]])
            pq = (ns - nr * nr / 3, 2 * nr ** 3 / 27 - nr * ns / 3 + nt, nr)
        if pq and br == 1 and exact and pq[0] == 0 and pq[1] > 0:
            # the degenerate point of the D > 0 branch: u = 0
            vals = [dec(t) for t in ia[1:]]
            if n_impl != 1 or any(v != v for v in vals):
                defect.append((i, pq))
                continue
        if cls.startswith("cubic-p0"):
            k = int(cls.split("=")[1])
            vals = [dec(t) for t in ia[1:]]
            true = -float(pq[2]) / 3 - cbrt(k)
            if n_impl != 1 or any(v != v for v in vals):
                spec_bad.append((i, "count/nan", n_impl))
                continue
            err = abs(vals[0] - true)
            resid[ty]["real"] = max(resid[ty]["real"], err / max(1, abs(true)))
            if err > RBOUND[ty] * max(1, abs(true)):
                spec_bad.append((i, "root accuracy", err))
            continue
        if roots is None:
            if n_impl != -1:
                spec_bad.append((i, "count", n_impl))
            continue
        if not exact and cls in ("quad1", "cubic-triple", "cubic-double"):
            continue   # a multiple root is only present when the coefficients are exactly representable
        if cls in ("cubic-double", "cubic-triple", "quad1"):
            # multiple roots are not "well separated": D = 0 is decided by rounding, so the COUNT is not claimed; what a caller can rely on:
            # no NaN, at most deg values, every value written within MULT_TOL * scale of a true root
            mult[ty]["cases"] += 1
            valsm = [dec(t) for t in ia[1:1 + max(n_impl, 0)]]
            scale_m = max([1.0] + [abs(float(r)) for r in roots])
            deg = 2 if cmd == "rq" else 3
            okm = 0 <= n_impl <= deg and all(v == v for v in valsm)
            dist = max([min(abs(v - float(r)) for r in roots) for v in valsm] + [0.0]) / scale_m if okm else float("inf")
            mult[ty]["worst"] = max(mult[ty]["worst"], dist)
            if not okm or dist > MULT_TOL[ty]:
                spec_bad.append((i, "multiple root: NaN / too many values / a value far from every root", dist))
                continue
            if n_impl != len(roots):
                count_mismatch_double_roots += 1
                mult[ty]["count_differs"] += 1
                continue
        if (cls == "cubic3" or cls.startswith("cubic3-wide")) and exact and len(roots) == 3:
            # accuracy commensurate with the (normwise) conditioning, ALL magnitudes: see NBOUND
            K = normwise_K(roots)
            gaps = [min(abs(float(r - q)) for q in roots if q != r) for r in roots]
            R = max(abs(float(r)) for r in roots)
            resolvable = all(4 * NBOUND * EPS[ty] * k < g / 4 for k, g in zip(K, gaps))
            valsn = [dec(t) for t in ia[1:1 + max(n_impl, 0)]]
            wit = [str(r) for r in roots] in (["1/1048576", "5/1024", "3145728"], ["1/1024", "5/32", "3072"]) and cmd == "rn"
            if wit:
                nw[ty]["witness"] = {"roots": [float(r) for r in sorted(roots)], "componentwise_condition_numbers<=": 2.03,
                                     "eps*K_i": [EPS[ty] * k for k in K], "resolvable": resolvable, "count_returned": n_impl, "values_returned": valsn,
                                     "replay_cmd": cx.replay_cmd(l)}
            if resolvable:
                nw[ty]["resolvable"] += 1
                cx.hit("roots:cubic3:normwise-resolvable:" + ty)
                if n_impl != 3 or any(v != v for v in valsn):
                    spec_bad.append((i, "count (three well-separated real roots, resolvable at the solver's normwise accuracy)", n_impl))
                    continue
                for g, (t, k) in zip(sorted(valsn), sorted(zip(roots, K))):
                    q = abs(float(Fraction(g) - t)) / (EPS[ty] * k)
                    if q > nw[ty]["worst"]:
                        nw[ty]["worst"], nw[ty]["worst_at"] = q, l
                    if q > NBOUND:
                        spec_bad.append((i, "root accuracy (|error| > %d eps R^3 / prod |x_i - x_j|)" % NBOUND, q))
                        break
            else:
                # two roots closer than the solver's normwise resolution at scale R (they look like a double root): count not claimed;
                # still: no NaN, the largest root to NBOUND eps K, every value written within UNRES sqrt (eps) R of a true root
                nw[ty]["unresolvable"] += 1
                cx.hit("roots:cubic3:normwise-unresolvable:" + ty)
                if n_impl != 3:
                    nw[ty]["unres_wrong_count"] += 1
                # the componentwise reading of the property (KNOWN FINDING class: three real roots, componentwise condition <= 2.03,
                # not resolved at the solver's normwise accuracy): count 3 and every root to CWBOUND eps RELATIVE
                cw_ok = n_impl == 3 and all(v == v for v in valsn) and \
                    all(abs(Fraction(g) - t) <= CWBOUND * EPS[ty] * abs(t) for g, t in zip(sorted(valsn), sorted(roots)))
                if not cw_ok:
                    cw_bad[ty].append((i, wit))
                big, kbig = max(zip(roots, K), key=lambda t: abs(t[0]))
                okb = 1 <= n_impl <= 3 and all(v == v for v in valsn) and \
                    min(abs(float(Fraction(v) - big)) for v in valsn) <= NBOUND * EPS[ty] * kbig
                far = max(min(abs(v - float(r)) for r in roots) for v in valsn) / (math.sqrt(EPS[ty]) * R) if okb else float("inf")
                nw[ty]["unres_worst_sqrt"] = max(nw[ty]["unres_worst_sqrt"], far)
                if not okb or far > UNRES:
                    spec_bad.append((i, "unresolvable cubic: NaN, largest root inaccurate, or a value farther than UNRES sqrt(eps) R from every root", far))
            if cls.startswith("cubic3-wide"):
                wide[ty]["cubic_cases"] += 1
                if n_impl != 3 or any(v != v for v in valsn):
                    wide[ty]["cubic_count_wrong"] += 1
                    continue
            elif n_impl != 3:
                continue
        if n_impl != len(roots):
            spec_bad.append((i, "count", n_impl))
            continue
        vals = [dec(t) for t in ia[1:1 + n_impl]]
        if any(v != v for v in vals):
            spec_bad.append((i, "nan", None))
            continue
        if cls.startswith("quad2-wide") or cls.startswith("cubic3-wide"):
            got = sorted(vals)
            want = sorted(roots)
            rel = float(max(abs(Fraction(g) - t) / abs(t) for g, t in zip(got, want))) if all(math.isfinite(g) for g in got) else float("inf")
            if cls.startswith("quad2-wide"):
                wide[ty]["quad"] = max(wide[ty]["quad"], rel)
                cx.hit("roots:quad2-wide:" + ty)
                if rel > WBOUND[ty]:
                    spec_bad.append((i, "root accuracy (relative, per root)", rel))
            else:
                wide[ty]["cubic"] = max(wide[ty]["cubic"], rel)
            continue
        scale = max([1.0] + [abs(float(r)) for r in roots])
        bound = (RBOUND_C if br in (2, 3) else RBOUND)[ty] * scale
        if cls in ("cubic-double",):
            bound = MULT_TOL[ty] * scale    # double root: error ~ sqrt(eps)
        got = sorted(vals)
        want = sorted(float(r) for r in roots)
        err = max(abs(g - t) for g, t in zip(got, want)) if got else 0.0
        kind = "complex" if br in (2, 3) else "real"
        if cls != "cubic-double":
            resid[ty][kind] = max(resid[ty][kind], err / scale)
        if err > bound:
            spec_bad.append((i, "root accuracy", err))
    chk.count(len(lines), len(lines))
    chk.oblige("corr:roots:model=impl(%d coefficient tuples x float,double; complex branch by count+tolerance)" % len(cases),
               "correspondence", not corr_bad)
    chk.oblige("spec:roots:count-and-accuracy(well-separated roots; three-real-root cubics of all magnitudes to %d eps x normwise condition, count "
               "whenever resolvable; multiple / unresolvable roots: no NaN, values near roots)" % NBOUND, "correspondence", not spec_bad and not defect)
    # KNOWN FINDING (coordinator decision): the componentwise reading fails on the normwise-unresolvable class
    name_cw = ("spec:roots:cubic: three real roots of widely different magnitude (componentwise condition <= 2.03, not resolved at the solver's "
               "normwise accuracy): count 3 and every root to %d eps relative" % CWBOUND)
    anybad = cw_bad["d"] + cw_bad["f"]
    chk.oblige(name_cw, "correspondence", not anybad)
    if anybad:
        wl = [i for i, wit in cw_bad["d"] if wit] or [i for i, wit in anybad if wit] or [anybad[0][0]]
        i = wl[0]
        cmd, ty, co, roots, cls = meta[i]
        rep = {"line": lines[i], "coefficients": [str(c) for c in co], "true_roots": [float(r) for r in sorted(roots)],
               "implementation(count roots)": a[i], "values_returned": [(u2d if ty == "d" else u2f)(int(t, 16)) for t in a[i].split()[1:]],
               "componentwise_condition_numbers<=": 2.03, "eps*K_i(normwise)": [EPS[ty] * k for k in normwise_K(roots)],
               "tuples_of_the_class_in_this_run": {t: nw[t]["unresolvable"] for t in ("d", "f")},
               "failing_tuples_of_the_class": {t: len(cw_bad[t]) for t in ("d", "f")},
               "others": [lines[j] for j, _ in anybad[:8]], "replay_cmd": cx.replay_cmd(lines[i])}
        chk.fail(name_cw, "fun_corr:solveCubic:wide-magnitude-roots:not-componentwise-accurate",
                 "solveNormalizedCubic/solveCubic: roots %s are well separated and each is determined to ~2 eps by the coefficients, yet the solver returns %s "
                 "(accurate only to the normwise conditioning R^3/prod|x_i-x_j|)" % (rep["true_roots"], a[i]), rep, True)
    # ... and a ceiling, under its own key, so that the known finding cannot hide a regression: wrong counts stay a bounded share of the wide tuples
    for ty in ("d", "f"):
        tot = max(1, wide[ty]["cubic_cases"])
        share = wide[ty]["cubic_count_wrong"] / tot
        okc = share <= CW_CEILING[ty]
        nm = "spec:roots:cubic: wrong-count share of the wide three-real-root tuples stays below %.0f %% (%s; all of them in the known-finding class)" % (
            100 * CW_CEILING[ty], "double" if ty == "d" else "float")
        chk.oblige(nm, "correspondence", okc, None if okc else "%d of %d" % (wide[ty]["cubic_count_wrong"], tot))
        if not okc:
            chk.fail(nm, "fun_corr:solveCubic:wide-magnitude-roots:wrong-count-share-above-ceiling:%s" % ty,
                     "wrong root counts on %d of %d widely spread three-real-root cubics (ceiling %.0f %%)" % (wide[ty]["cubic_count_wrong"], tot, 100 * CW_CEILING[ty]),
                     {"wrong": wide[ty]["cubic_count_wrong"], "tuples": tot}, False)
    chk.extra["cubic_normwise_only(not componentwise)"] = {
        "statement": "solveNormalizedCubic/solveCubic work on the depressed cubic: each root is accurate to NBOUND eps K_i, K_i = R^3/prod|x_i-x_j| (its condition "
                     "number under coefficient perturbations eps R^(3-k)), NOT to its componentwise conditioning (<= 2.03 for every generated tuple); two roots "
                     "closer than about 16 sqrt(eps) R to each other are not resolved (count 1 or 2, or values off by more than the roots themselves)",
        "witness(double)": nw["d"]["witness"], "witness(float)": nw["f"]["witness"]}
    chk.extra["roots_multiple_root_count_differs(not claimed)"] = count_mismatch_double_roots
    for ty in ("d", "f"):
        tn = "double" if ty == "d" else "float"
        chk.residues["roots:%s:solveQuadratic, roots spread over 2^+-%d, leading coefficient 2^+-30: max RELATIVE error of any root" % (tn, 20 if ty == "d" else 10)] = {
            "max": wide[ty]["quad"], "bound": WBOUND[ty]}
        chk.residues["roots:%s:cubic solvers, roots spread over 2^+-%d: max RELATIVE error of any root (recorded: the solver's accuracy is normwise, not componentwise)"
                     % (tn, 20 if ty == "d" else 10)] = {"max": wide[ty]["cubic"], "count_wrong_or_nan(recorded)": "%d of %d" % (wide[ty]["cubic_count_wrong"], wide[ty]["cubic_cases"])}
        chk.residues["roots:%s:complex-branch cubic, hand model (textbook complex pow) vs implementation: max relative difference" % tn] = {
            "max": mdiff[ty], "tolerance": CTOL[ty]}
        chk.residues["roots:%s:three-real-root cubics of ALL magnitudes, resolvable class: max |error_i| / (eps R^3 / prod |x_i - x_j|)" % tn] = {
            "max": nw[ty]["worst"], "bound": NBOUND, "at": nw[ty]["worst_at"], "tuples": nw[ty]["resolvable"], "count_wrong": 0}
        chk.residues["roots:%s:three-real-root cubics, UNRESOLVABLE at normwise accuracy (count not claimed): farthest value from a root / (sqrt (eps) R)" % tn] = {
            "max": nw[ty]["unres_worst_sqrt"], "bound": UNRES, "tuples": nw[ty]["unresolvable"], "count_not_3(recorded)": nw[ty]["unres_wrong_count"]}
        chk.residues["roots:%s:wide cubics, hand model vs implementation: max difference / (eps K_max)" % tn] = {"max": mdiff_w[ty], "bound": WMODEL}
        chk.residues["roots:%s:multiple roots (count not claimed): farthest value written from a true root / max (1, |roots|)" % tn] = {
            "max": mult[ty]["worst"], "bound": MULT_TOL[ty], "tuples": mult[ty]["cases"], "count_differs(recorded)": mult[ty]["count_differs"]}
        chk.residues["roots:%s:max relative root error, real branches" % ("double" if ty == "d" else "float")] = {
            "max": resid[ty]["real"], "bound": RBOUND[ty]}
        chk.residues["roots:%s:max relative root error, complex-branch cubic (MEASURED, not proved)" % ("double" if ty == "d" else "float")] = {
            "max": resid[ty]["complex"], "bound": RBOUND_C[ty]}
    for i, what in corr_bad[:3]:
        chk.fail("corr:roots", "model-vs-impl:" + lines[i].replace(" ", ","), "root solver: implementation differs from model (%s)" % what,
                 {"line": lines[i], "coefficients": [str(c) for c in meta[i][2]], "implementation": a[i], "model(count branch roots)": b[i],
                  "replay_cmd": cx.replay_cmd(lines[i])}, True)
    for i, what, v in spec_bad[:3]:
        cmd, ty, co, roots, cls = meta[i]
        rep = {"line": lines[i], "solver": cmd, "type": ty, "coefficients": [str(c) for c in co],
               "true_roots": None if roots is None else [str(r) for r in roots], "implementation(count roots)": a[i],
               "what": what, "value": v, "replay_cmd": cx.replay_cmd(lines[i])}
        cx.spec_fail.setdefault("roots", rep)
        name = {"rl": "solveLinear", "rq": "solveQuadratic", "rn": "solveNormalizedCubic", "rc": "solveCubic"}[cmd]
        chk.fail("spec:roots", "%s<%s>:%s" % (name, "double" if ty == "d" else "float", ",".join(str(c) for c in co)),
                 "%s: %s wrong for a polynomial built from well-separated roots%s" % (
                     name, what, " (cancellation in -q/2 + sqrt(D): q > 0, |p| small)" if what == "root accuracy" and cmd in ("rn", "rc") else ""),
                 rep, True)
    if defect:
        # one defect, one key: the canonical witness x^3 + 1 (r = s = 0, t = 1)
        ws = [i for i, _ in defect if meta[i][0] == "rn" and meta[i][1] == "d" and [str(c) for c in meta[i][2]] == ["0", "0", "1"]]
        i = ws[0] if ws else defect[0][0]
        cmd, ty, co, roots, cls = meta[i]
        key = "solveNormalizedCubic:r=%s,s=%s,t=%s" % tuple(str(c) for c in co) if cmd == "rn" else \
            "solveCubic:" + ",".join(str(c) for c in co)
        rep = {"line": lines[i], "coefficients(r,s,t)": [str(c) for c in co], "implementation(count roots)": a[i],
               "model(count branch roots)": b[i], "true_root": "-1" if key.endswith("r=0,s=0,t=1") else "h - cbrt(k)",
               "failing_tuples": len(defect),
               "others": [{"line": lines[j], "coefficients": [str(c) for c in meta[j][2]]} for j, _ in defect[:10]],
               "theorem": "ImathVerif.C17.solveNormalizedCubic_real / cubic_former_defect_fixed",
               "replay_cmd": cx.replay_cmd(lines[i])}
        cx.spec_fail.setdefault("roots", rep)
        chk.fail("spec:roots:cubic-real-branch", key,
                 "solveNormalizedCubic returns NaN for x^3 + r x^2 + s x + t with p = 0, q > 0 (u = 0, v = -p/(3u) = 0/0)", rep, True)


# ---------------------------------------------------------------------------
# colour

def check_colour(cx):
    chk, rng = cx.chk, cx.chk.rng
    casts = wrapper_casts()     # informational only: the model divides by double (max) in all four wrappers
    chk.extra["integer_wrapper_casts(source text, informational)"] = casts
    g = [0.0, 0.25, 0.5, 0.75, 1.0]
    rgb = [(x, y, z) for x in g for y in g for z in g] + [(rng.random(), rng.random(), rng.random()) for _ in range(400)]
    rgb += [(v, v, v) for v in (0.0, 0.3, 1.0)] + [(1.0, 0.2, 0.2000001), (0.2, 1.0, 0.2), (0.3, 0.3, 0.9), (0.9, 0.3, 0.3)]
    # hue just below the wrap (red with a trace of blue): h = -tiny/6 + 1 rounds to exactly 1.0 on the real code
    rgb += [(1.0, 0.0, 1e-17), (1.0, 0.0, 1e-9), (0.5, 0.0, 1e-18), (1.0, 0.25, 0.25 + 1e-16), (1.0, 0.0, 0.0), (0.0, 0.0, 1.0), (1.0, 0.0, 1.0)]
    hs = [0.0, 1 / 6, 1 / 3, 0.5, 2 / 3, 5 / 6, 1.0, 0.1, 0.999999, 1e-9, 0.16666666666666669, 0.33333333333333337, 0.8333333333333333]
    hsv = [(h, s, v) for h in hs for s in (0.0, 0.5, 1.0) for v in (0.0, 0.5, 1.0)] + \
          [(rng.random(), rng.random(), rng.random()) for _ in range(400)]
    lines = []
    for (x, y, z) in rgb:
        al = rng.random()
        lines.append("r2h3 %s %s %s" % (hd(x), hd(y), hd(z)))
        lines.append("r2h4 %s %s %s %s" % (hd(x), hd(y), hd(z), hd(al)))
    for (x, y, z) in hsv:
        al = rng.random()
        lines.append("h2r3 %s %s %s" % (hd(x), hd(y), hd(z)))
        lines.append("h2r4 %s %s %s %s" % (hd(x), hd(y), hd(z), hd(al)))
    a, b = cx.both(lines, "colour")
    if a is None:
        return
    bad = [i for i in range(len(lines)) if [canon(t, 64) for t in a[i].split()] != [canon(t, 64) for t in b[i].split()]]
    chk.oblige("corr:colour:double:model=impl(%d rgb + %d hsv, Vec3 and Color4 copies)" % (len(rgb), len(hsv)), "correspondence", not bad)
    chk.count(len(lines), len(lines))
    for i in bad[:3]:
        chk.fail("corr:colour", "model-vs-impl:" + lines[i].replace(" ", ","), "hsv2rgb_d/rgb2hsv_d: implementation differs from model",
                 {"line": lines[i], "values": [u2d(int(t, 16)) for t in lines[i].split()[1:]], "implementation": a[i], "model": b[i],
                  "replay_cmd": cx.replay_cmd(lines[i])}, True)
    # the real code: Vec3 vs Color4 copies agree, alpha passes through (double)
    disagree = []
    for i in range(0, len(lines), 2):
        v3, c4 = a[i].split(), a[i + 1].split()
        if [canon(t, 64) for t in v3] != [canon(t, 64) for t in c4[:3]] or c4[3] != lines[i + 1].split()[4]:
            disagree.append(i)
    chk.oblige("spec:colour:double:Vec3=Color4,alpha-unchanged", "correspondence", not disagree)
    for i in disagree[:2]:
        fn = "rgb2hsv_d" if lines[i].startswith("r2h") else "hsv2rgb_d"
        rep = {"lines": lines[i:i + 2], "Vec3": a[i], "Color4": a[i + 1], "replay_cmd": cx.replay_cmd(lines[i + 1])}
        cx.spec_fail.setdefault("colour", rep)
        chk.fail("spec:colour", "%s:Color4<double>:vs-Vec3" % fn, "%s: Vec3 and Color4 copies disagree / alpha changed" % fn, rep, True)
    # "with hsv in [0,1]": ranges of the real code's outputs on the unit cube (theorem hsv_rgb_ranges; the hue may ROUND to 1.0)
    out_of_range, hue_one = [], 0
    for i, l in enumerate(lines):
        if l.startswith("r2h3") or l.startswith("h2r3"):
            vals = [u2d(int(t, 16)) for t in a[i].split()]
            if not all(0.0 <= v <= 1.0 for v in vals):
                out_of_range.append(i)
            if l.startswith("r2h3") and vals[0] == 1.0:
                hue_one += 1
    cx.hit("colour:rgb2hsv:hue rounds to exactly 1.0", hue_one)
    chk.oblige("spec:colour:double:rgb2hsv and hsv2rgb map the unit cube into [0,1]^3 (%d colours incl. near-wrap hues)" % (len(rgb) + len(hsv)),
               "correspondence", not out_of_range)
    for i in out_of_range[:2]:
        fn = "rgb2hsv_d" if lines[i].startswith("r2h") else "hsv2rgb_d"
        rep = {"line": lines[i], "input": [u2d(int(t, 16)) for t in lines[i].split()[1:]], "output": [u2d(int(t, 16)) for t in a[i].split()],
               "replay_cmd": cx.replay_cmd(lines[i])}
        cx.spec_fail.setdefault("colour", rep)
        chk.fail("spec:colour:double:rgb2hsv and hsv2rgb map the unit cube", "fun_corr:%s:output-outside-[0,1]" % fn,
                 "%s%r = %r leaves [0,1]^3" % (fn, tuple(rep["input"]), tuple(rep["output"])), rep, True)

    # ---- the `else` arms of the four templated wrappers (floating element types): T = float and T = double
    flines, fmeta = [], []
    for kind, pts in (("r2h", rgb), ("h2r", hsv)):
        for (x, y, z) in pts:
            al = rng.random()
            for ty, h, rnd in (("d", hd, float), ("f", hf, tof)):
                v = [rnd(x), rnd(y), rnd(z), rnd(al)]
                flines.append("f%s3 %s %s" % (kind, ty, " ".join(h(t) for t in v[:3])))
                fmeta.append((kind, ty, 3, v))
                flines.append("f%s4 %s %s" % (kind, ty, " ".join(h(t) for t in v)))
                fmeta.append((kind, ty, 4, v))
    fa, fb = cx.both(flines, "fcolour")
    if fa is not None:
        cw = lambda l, ty: [canon(t, 64 if ty == "d" else 32) for t in l.split()]
        fbad = [i for i in range(len(flines)) if cw(fa[i], fmeta[i][1]) != cw(fb[i], fmeta[i][1])]
        chk.oblige("corr:colour:float/double element wrappers:model=impl(%d calls: hsv2rgb/rgb2hsv x Vec3/Color4 x float/double)" % len(flines),
                   "correspondence", not fbad)
        chk.count(len(flines), len(flines))
        for i in fbad[:3]:
            chk.fail("corr:fcolour", "model-vs-impl:" + flines[i].replace(" ", ","), "floating-element hsv2rgb/rgb2hsv wrapper: implementation differs from model",
                     {"line": flines[i], "implementation": fa[i], "model": fb[i], "replay_cmd": cx.replay_cmd(flines[i])}, True)
        # specification from the non-templated routine itself: wrapper (c) = (T) routine_d (double (c)), alpha = (T) double (alpha)
        dl = ["%s3 %s" % (k, " ".join(hd(t) for t in v[:3])) for (k, ty, n, v) in fmeta]
        rc, dres = run_lines(cx.binary, dl, "fcolour_d")
        wbad = []
        if rc == 0 and len(dres) == len(flines):
            for i, (k, ty, n, v) in enumerate(fmeta):
                want = [u2d(int(t, 16)) for t in dres[i].split()] + ([v[3]] if n == 4 else [])
                h = hd if ty == "d" else hf
                want = [canon(h(w if ty == "d" else tof(w)), 64 if ty == "d" else 32) for w in want]
                if cw(fa[i], ty) != want:
                    wbad.append((i, want))
        chk.oblige("spec:colour:float/double element wrappers = (T) routine_d (double (c)), alpha passed through", "correspondence",
                   rc == 0 and not wbad)
        for i, want in wbad[:3]:
            k, ty, n, v = fmeta[i]
            fn = "%s(%s<%s>)" % ("rgb2hsv" if k == "r2h" else "hsv2rgb", "Vec3" if n == 3 else "Color4", "double" if ty == "d" else "float")
            rep = {"line": flines[i], "input": v[:n], "implementation": fa[i], "expected(from the _d routine)": " ".join(want), "replay_cmd": cx.replay_cmd(flines[i])}
            cx.spec_fail.setdefault("colour", rep)
            chk.fail("spec:colour:float/double element wrappers", "fun_corr:%s:wrapper-arm" % fn,
                     "%s is not the narrowed result of the double routine on the widened colour (or alpha is not passed through)" % fn, rep, True)

    # round trips on the real code (rounding measured): hsv2rgb(rgb2hsv c) = c
    rt = ["r2h3 %s %s %s" % (hd(x), hd(y), hd(z)) for (x, y, z) in rgb]
    rc, o = run_lines(cx.binary, rt, "rt1")
    rc2, o2 = run_lines(cx.binary, ["h2r3 " + l for l in o], "rt2")
    worst, wi = 0.0, None
    for (x, y, z), l in zip(rgb, o2):
        got = [u2d(int(t, 16)) for t in l.split()]
        e = max(abs(got[0] - x), abs(got[1] - y), abs(got[2] - z))
        if not e <= worst:
            worst, wi = e, (x, y, z, got)
    chk.residues["hsv2rgb_d(rgb2hsv_d(c)) - c on the unit cube (double)"] = {"max_abs": worst, "bound": CRT1, "in_eps": worst / EPS["d"]}
    okrt = worst <= CRT1
    # and rgb2hsv(hsv2rgb c) = c with the conventions
    conv = [(h, s, v) for (h, s, v) in hsv if 0 <= h < 1 and s > 0 and v > 0]
    rc, o = run_lines(cx.binary, ["h2r3 %s %s %s" % (hd(h), hd(s), hd(v)) for (h, s, v) in conv], "rt3")
    rc2, o2 = run_lines(cx.binary, ["r2h3 " + l for l in o], "rt4")
    worst2, wi2, worst2_abs = 0.0, None, 0.0
    for (h, s, v), l in zip(conv, o2):
        got = [u2d(int(t, 16)) for t in l.split()]
        dh = abs(got[0] - h); dh = min(dh, abs(dh - 1))    # hue is circular: 0.999999 may come back as ~1e-17 short of it
        # conditioning: the hue / saturation of a colour with range s v are determined to eps / s (rgb errors eps v over the range v s)
        e = max(dh, abs(got[1] - s), abs(got[2] - v)) * s / EPS["d"]
        worst2_abs = max(worst2_abs, max(dh, abs(got[1] - s), abs(got[2] - v)))
        if not e <= worst2:
            worst2, wi2 = e, (h, s, v, got)
    chk.residues["rgb2hsv_d(hsv2rgb_d(c)) - c, 0<=h<1, s>0, v>0 (double), in units of eps / s"] = {"max": worst2, "bound": CRT2, "max_abs": worst2_abs}
    okrt2 = worst2 <= CRT2
    grey = ["h2r3 %s %s %s" % (hd(h), hd(0.0), hd(v)) for h in hs for v in (0.0, 0.4, 1.0)]
    rc, o = run_lines(cx.binary, grey, "grey")
    okg = all(len(set(l.split())) == 1 for l in o)
    rc, o1 = run_lines(cx.binary, ["h2r3 %s %s %s" % (hd(1.0), hd(s), hd(v)) for s in (0.3, 1.0) for v in (0.5, 1.0)], "wrap1")
    rc, o0 = run_lines(cx.binary, ["h2r3 %s %s %s" % (hd(0.0), hd(s), hd(v)) for s in (0.3, 1.0) for v in (0.5, 1.0)], "wrap0")
    okw = o1 == o0
    chk.oblige("spec:colour:double:round-trips,grey-axis,hue-wrap", "correspondence", okrt and okrt2 and okg and okw)
    cx.hit("colour:grey-axis", len(grey) + 3); cx.hit("colour:hue-wrap", 4); cx.hit("colour:rgb-grid", len(rgb)); cx.hit("colour:hsv-grid", len(hsv))
    if not (okrt and okrt2 and okg and okw):
        rep = {"hsv2rgb(rgb2hsv c)-c": worst, "at": wi, "rgb2hsv(hsv2rgb c)-c": worst2, "at2": wi2, "grey_axis_ok": okg, "hue_wrap_ok": okw}
        cx.spec_fail.setdefault("colour", rep)
        if not okrt and wi:
            key = "hsv2rgb(rgb2hsv):rgb=%r,%r,%r" % wi[:3]
            rep["replay_cmd"] = cx.replay_cmd("r2h3 %s %s %s" % tuple(hd(t) for t in wi[:3]))
        elif not okrt2 and wi2:
            key = "rgb2hsv(hsv2rgb):hsv=%r,%r,%r" % wi2[:3]
            rep["replay_cmd"] = cx.replay_cmd("h2r3 %s %s %s" % tuple(hd(t) for t in wi2[:3]))
        else:
            key = "hsv2rgb:grey-axis/hue-wrap"
        chk.fail("spec:colour:roundtrip", key, "hsv2rgb / rgb2hsv are not mutually inverse on the unit cube", rep, True)

    # ---- integer element types
    ilines, imeta = [], []
    for t, (tname, mx) in TYPES.items():
        gv = sorted({0, 1, mx // 5, mx // 3, mx // 2, (2 * mx) // 3, mx - 1, mx})
        pts = [(x, y, z) for x in gv for y in gv for z in gv]
        pts = rng.sample(pts, 150) + [(rng.randint(0, mx), rng.randint(0, mx), rng.randint(0, mx)) for _ in range(100)]
        if t == "uc":
            pts += [(x, y, z) for x in range(0, 256, 15) for y in range(0, 256, 17) for z in range(0, 256, 51)]
            pts.append((0, 10, 85))
        for (x, y, z) in pts:
            al = rng.choice([0, 1, mx // 2, mx - 1, mx, rng.randint(0, mx)])
            for fn in ("r2h", "h2r"):
                ilines.append("i%s3 %s %s %d %d %d" % (fn, t, "d", x, y, z))
                imeta.append((t, fn, 3))
                ilines.append("i%s4 %s %s %d %d %d %d" % (fn, t, "d", x, y, z, al))
                imeta.append((t, fn, 4))
    a, b = cx.both(ilines, "icolour")
    if a is None:
        return
    bad = [i for i in range(len(ilines)) if a[i] != b[i]]
    chk.oblige("corr:colour:integer-wrappers:model=impl(%d calls, 5 element types)" % len(ilines), "correspondence", not bad)
    chk.count(len(ilines), len(ilines))
    for i in bad[:3]:
        chk.fail("corr:icolour", "model-vs-impl:" + ilines[i].replace(" ", ","),
                 "integer hsv2rgb/rgb2hsv wrapper: implementation differs from model (scaling by the type maximum)",
                 {"line": ilines[i], "implementation": a[i], "model": b[i], "replay_cmd": cx.replay_cmd(ilines[i])}, True)
    # Vec3 vs Color4 overloads on the real code, and alpha
    dis, alp = {}, {}
    for i in range(0, len(ilines), 2):
        t, fn, _ = imeta[i]
        v3, c4 = a[i].split(), a[i + 1].split()
        k = (fn, t)
        if v3 != c4[:3]:
            dis.setdefault(k, []).append(i)
        if c4[3] != ilines[i + 1].split()[6]:
            alp.setdefault(k, []).append(i)
    # exhaustive alpha sweeps (all alpha values of the type)
    sweep = {}
    for t in TYPES:
        if t in ("i", "ui") and not chk.thorough:
            continue
        for fn in ("rgb2hsv", "hsv2rgb"):
            rc, o = lib.sh([cx.binary, "alpha", t, fn], timeout=1800)
            w = o.split()
            if rc == 0 and len(w) == 4:
                sweep[(fn, t)] = w
                chk.count(int(w[1]), int(w[1]))
    chk.extra["alpha_sweeps(changed total first got)"] = {"%s:%s" % k: v for k, v in sweep.items()}
    ok_alpha = not alp and all(v[0] == "0" for v in sweep.values())
    chk.oblige("spec:colour:integer:alpha-unchanged(exhaustive per type%s)" % ("" if chk.thorough else "; int/uint sampled"),
               "correspondence", ok_alpha)
    chk.oblige("spec:colour:integer:Vec3=Color4-overloads", "correspondence", not dis)
    full = {"r2h": "rgb2hsv", "h2r": "hsv2rgb"}
    done = set()
    for (fn, t), v in sorted(sweep.items()):
        if v[0] != "0":
            done.add((fn, t))
            mx = TYPES[t][1]
            al = int(v[2])
            line = "i%s4 %s x %d %d %d %d" % ("r2h" if fn == "rgb2hsv" else "h2r", t, mx // 3, mx // 2, mx // 5, al)
            rep = {"function": "%s(Color4<%s>)" % (fn, TYPES[t][0]), "alpha_in": al, "alpha_out": int(v[3]),
                   "alpha_values_changed": int(v[0]), "alpha_values_tested": int(v[1]), "cast_in_source": casts[fn + "4"],
                   "theorem": "ImathVerif.C17.integer_wrappers_scale_by_max / color4_int_alpha_fixed",
                   "replay_cmd": cx.replay_cmd(line)}
            cx.spec_fail.setdefault("colour", rep)
            chk.fail("spec:colour:alpha", "%s:Color4<%s>:alpha" % (fn, TYPES[t][0]),
                     "%s(Color4<%s>) does not pass alpha through: %d of %d alpha values change (first %d -> %d)"
                     % (fn, TYPES[t][0], int(v[0]), int(v[1]), al, int(v[3])), rep, True)
    for (fn, t), idx in sorted(alp.items()):
        if (full[fn], t) in done:
            continue
        i = idx[0]
        rep = {"line": ilines[i + 1], "implementation": a[i + 1], "changed_in_sample": len(idx), "replay_cmd": cx.replay_cmd(ilines[i + 1])}
        cx.spec_fail.setdefault("colour", rep)
        chk.fail("spec:colour:alpha", "%s:Color4<%s>:alpha" % (full[fn], TYPES[t][0]),
                 "%s(Color4<%s>) does not pass alpha through" % (full[fn], TYPES[t][0]), rep, True)
    for (fn, t), idx in sorted(dis.items()):
        i = idx[0]
        rep = {"Vec3_call": ilines[i], "Vec3_result": a[i], "Color4_call": ilines[i + 1], "Color4_result": a[i + 1],
               "disagreeing_of_sampled": "%d of %d" % (len(idx), sum(1 for m in imeta[::2] if m[0] == t and m[1] == fn)),
               "casts_in_source": {"Vec3": casts[full[fn] + "3"], "Color4": casts[full[fn] + "4"]},
               "replay_cmd": cx.replay_cmd(ilines[i]) + " ; " + cx.replay_cmd(ilines[i + 1])}
        cx.spec_fail.setdefault("colour", rep)
        chk.fail("spec:colour:overloads", "%s:Color4<%s>:vs-Vec3" % (full[fn], TYPES[t][0]),
                 "%s: the Vec3<%s> and Color4<%s> overloads disagree on the same (r,g,b)" % (full[fn], TYPES[t][0], TYPES[t][0]), rep, True)

    # ---- packed colours
    plines = []
    chans = []
    for ch in range(4):
        for v in range(256):
            other = rng.getrandbits(32) & ~(0xff << (8 * ch)) & 0xffffffff
            p = other | (v << (8 * ch))
            chans.append((ch, v, p))
            plines += ["rt4f %x" % p, "rt3f %x" % p, "p2r4f %x" % p, "p2r3f %x" % p, "rt4d %x" % p, "rt3d %x" % p]
    a, b = cx.both(plines, "packed")
    if a is None:
        return
    bad = [i for i in range(len(plines)) if a[i] != b[i]]
    chk.oblige("corr:packed:model=impl(all 256 values x 4 channels; float and double elements)", "correspondence", not bad)
    chk.count(len(plines), len(plines))
    for i in bad[:3]:
        chk.fail("corr:packed", "model-vs-impl:" + plines[i].replace(" ", ","), "packed2rgb/rgb2packed: implementation differs from model",
                 {"line": plines[i], "implementation": a[i], "model": b[i], "replay_cmd": cx.replay_cmd(plines[i])}, True)
    lost, lostd = [], 0
    for k, (ch, v, p) in enumerate(chans):
        r4, r3, d4, d3 = int(a[6 * k], 16), int(a[6 * k + 1], 16), int(a[6 * k + 4], 16), int(a[6 * k + 5], 16)
        if r4 != p:
            lost.append(("Color4<float>", ch, v, p, r4))
        if ch < 3 and (r3 & 0xffffff) != (p & 0xffffff) or (r3 >> 24) != 0xff:
            lost.append(("Vec3<float>", ch, v, p, r3))
        if d4 != p or (d3 & 0xffffff) != (p & 0xffffff):
            lostd += 1
    chk.oblige("spec:packed:rgb2packed(packed2rgb(p))=p:all 256 values of every channel (float elements)", "correspondence", not lost)
    chk.extra["packed_roundtrip_double_elements_lossy_words(not claimed by the property)"] = "%d of %d" % (lostd, len(chans))
    # the property's quantifier: ALL 2^32 packed words (Color4<float>) and all 2^24 rgb words (Vec3<float>, alpha comes back as 0xFF)
    rc, o = lib.sh([cx.binary, "packed_sweep"], timeout=1800)
    w = o.split()
    oks = rc == 0 and len(w) == 4 and w[0] == "0" and w[2] == "0"
    chk.oblige("spec:packed:rgb2packed(packed2rgb(p))=p: ALL 2^32 words (Color4<float>) and all 2^24 rgb words (Vec3<float>), real float arithmetic",
               "correspondence", oks, None if oks else o[-200:])
    chk.count((1 << 32) + (1 << 24), (1 << 32) + (1 << 24) - 2)
    if not oks:
        if rc == 0 and len(w) == 4:
            which = ("Color4<float>", w[1]) if w[0] != "0" else ("Vec3<float>", w[3])
            rep = {"element": which[0], "packed_in": "0x" + which[1], "lossy_words_Color4f": w[0], "lossy_words_Vec3f": w[2],
                   "replay_cmd": cx.replay_cmd("rt%sf %s" % ("4" if which[0].startswith("Color4") else "3", which[1]))}
            cx.spec_fail.setdefault("packed", rep)
            chk.fail("spec:packed:rgb2packed(packed2rgb(p))=p: ALL", "rgb2packed(packed2rgb):%s:sweep" % which[0],
                     "rgb2packed (packed2rgb (0x%s)) loses a channel for %s" % (which[1], which[0]), rep, True)
        else:
            chk.fail("spec:packed:rgb2packed(packed2rgb(p))=p: ALL", "packed_sweep:protocol", "packed_sweep did not run", {"output": o[-300:]}, False)
    for ty, ch, v, p, r in lost[:3]:
        rep = {"element": ty, "channel": ch, "value": v, "packed_in": "0x%08x" % p, "packed_out": "0x%08x" % r,
               "replay_cmd": cx.replay_cmd("rt%sf %x" % ("4" if ty.startswith("Color4") else "3", p))}
        cx.spec_fail.setdefault("packed", rep)
        chk.fail("spec:packed", "rgb2packed(packed2rgb):%s:channel=%d,value=%d" % (ty, ch, v),
                 "rgb2packed(packed2rgb(p)) loses channel %d value %d for %s" % (ch, v, ty), rep, True)
    # rgb2packed on arbitrary floats in [0,1], and the integer-element overloads
    qlines = []
    for _ in range(600):
        x = [tof(rng.random()) for _ in range(4)]
        qlines.append("r2p4f %s %s %s %s" % tuple(hf(t) for t in x))
        qlines.append("r2p3f %s %s %s" % tuple(hf(t) for t in x[:3]))
    for t, (tname, mx) in TYPES.items():
        for _ in range(120):
            qlines.append("p2r4i %s %x" % (t, rng.getrandbits(32)))
            qlines.append("r2p4i %s %d %d %d %d" % (t, rng.randint(0, mx), rng.randint(0, mx), rng.randint(0, mx), rng.randint(0, mx)))
        qlines.append("r2p4i %s %d %d %d %d" % (t, mx, 0, mx, 0))
        for _ in range(120):
            qlines.append("p2r3i %s %x" % (t, rng.getrandbits(32)))
            qlines.append("r2p3i %s %d %d %d" % (t, rng.randint(0, mx), rng.randint(0, mx), rng.randint(0, mx)))
        qlines += ["p2r3i %s ff0000" % t, "p2r3i %s 00ff00" % t, "p2r3i %s 0000ff" % t, "r2p3i %s %d 0 0" % (t, mx), "r2p3i %s 0 %d 0" % (t, mx), "r2p3i %s 0 0 %d" % (t, mx)]
    for _ in range(200):
        pw = rng.getrandbits(32)
        qlines += ["p2r3d %x" % pw, "p2r4d %x" % pw]
    a, b = cx.both(qlines, "packed2")
    if a is not None:
        bad = [i for i in range(len(qlines)) if a[i] != b[i]]
        chk.oblige("corr:packed:rgb2packed(float), packed2rgb(double), packed2rgb/rgb2packed(integer types, Vec3 and Color4):model=impl(%d)" % len(qlines),
                   "correspondence", not bad)
        chk.count(len(qlines), len(qlines))
        for i in bad[:3]:
            chk.fail("corr:packed", "model-vs-impl:" + qlines[i].replace(" ", ","), "packed colour conversion: implementation differs from model",
                     {"line": qlines[i], "implementation": a[i], "model": b[i], "replay_cmd": cx.replay_cmd(qlines[i])}, True)


# ---------------------------------------------------------------------------

# ---------------------------------------------------------------------------
# T-route: failing-input search for a broken `gen_<function>` theorem

SOLVER_FN = {"gen_solveQuadratic": ("Roots.solveQuadratic", "slots2", "solveQuadratic", 3),
             "gen_solveNormalizedCubic": ("Roots.solveNormalizedCubic", "slots3", "solveNormalizedCubic", 3),
             "gen_solveCubic": ("Roots.solveCubic", "slots3", "solveCubic", 4)}


COLOUR_LINK = {"gen_hsv2rgbV3": ("Color.hsv2rgbV3", "hsv2rgbV3", 3, True), "gen_hsv2rgbC4": ("Color.hsv2rgbC4", "hsv2rgbC4", 4, True),
               "gen_rgb2hsvV3": ("Color.rgb2hsvV3", "rgb2hsvV3", 3, False), "gen_rgb2hsvC4": ("Color.rgb2hsvC4", "rgb2hsvC4", 4, False),
               "gen_hsv2rgb_rgb2hsv": ("Color.rgb2hsvV3", "rgb2hsvV3", 3, False)}


def colour_link_search(chk, symc, name):
    """Broken gen_hsv2rgb* / gen_rgb2hsv* theorem: a concrete colour on which the tree regenerated from the current ImathColorAlgo.cpp and
    the hand model differ (both evaluated in Lean at Rat, floor = Rat.floor), replayed on the real code at double."""
    gfn, mfn, n, fl = COLOUR_LINK[name]
    hues = [Fraction(k, 12) for k in range(-2, 15)] + [Fraction(5, 7), Fraction(1, 100)]
    oth = [Fraction(0), Fraction(1, 2), Fraction(1), Fraction(3, 4), Fraction(1, 4), Fraction(-1, 2)]
    if fl:
        cases = [(h, sv, v) for h in hues for sv in oth[:5] for v in oth[1:5]]
    else:
        cases = [(a, b, c) for a in oth for b in oth for c in oth]
    if name == "gen_hsv2rgb_rgb2hsv":
        cases = [c for c in cases if min(c) >= 0]
    r = lambda q: "(%d / %d : Rat)" % (q.numerator, q.denominator)
    flq = "(fun x : Rat => ((Rat.floor x : Int) : Rat))"
    lines = ["import ImathVerif.Model.ColorAlgo", "import ImathVerif.Gen.C17Color", "open ImathVerif"]
    for i, c in enumerate(cases):
        comps = list(c) + ([Fraction(1, 3)] if n == 4 else [])
        ga = "(⟨%s⟩ : %s Rat)" % (", ".join(r(q) for q in comps), "V3" if n == 3 else "C4")
        ma = "(⟨%s⟩ : ColorAlgo.%s Rat)" % (", ".join(r(q) for q in comps), "V3" if n == 3 else "C4")
        f = ["x", "y", "z"] if n == 3 else ["r", "g", "b", "a"]
        if name == "gen_hsv2rgb_rgb2hsv":
            g = "Gen.Color.hsv2rgbV3 %s (Gen.Color.rgb2hsvV3 %s)" % (flq, ga)
            cond = " && ".join("decide ((%s).%s = %s)" % (g, ff, r(q)) for ff, q in zip(f, comps))
        else:
            g = "Gen.%s %s%s" % (gfn, (flq + " ") if fl else "", ga)
            m = "ColorAlgo.%s %s%s" % (mfn, "Rat.floor " if fl else "", ma)
            cond = " && ".join("decide ((%s).%s = (%s).%s)" % (g, ff, m, ff) for ff in f)
        lines.append('#eval IO.println ("CL %d " ++ toString (%s))' % (i, cond))
    rc, out = lib.lean_run_file("\n".join(lines) + "\n", timeout=600, name="colourlink")
    for m in re.finditer(r"CL (\d+) false", out):
        c = cases[int(m.group(1))]
        comps = [float(q) for q in c] + ([1.0 / 3] if n == 4 else [])
        rcr, outr = lib.sh([symc, "real", gfn] + ["%r" % x for x in comps], timeout=120)
        return {"theorem": name, "found_failing_input": True,
                "failing_input": {"components": [str(q) for q in c], "as_double": comps},
                "what": "the tree regenerated from the current ImathColorAlgo.cpp and the hand model (for which the property's theorems are proved) "
                        "differ on this colour (exact rationals, floor = Rat.floor)",
                "real_code_at_double": outr.strip().split("\n")[-1] if outr.strip() else None,
                "replay_cmd": "%s real %s %s" % (symc, gfn, " ".join("%r" % x for x in comps)),
                "key": "theorem:%s" % name}
    return None



def link_search(chk, sym, name):
    """A concrete input on which the regenerated definition and the hand model differ (evaluated at Rat in Lean), replayed on the real code."""
    if name not in SOLVER_FN:
        rep = troute.lean_search(chk, MOD, name, LINK_IMPORTS, LINK_OPENS, binary=sym)
        if rep:
            fn = re.search(r"Gen\.([A-Za-z0-9_.]+)", rep.get("theorem_statement", ""))
            vals = [x for v in rep.get("failing_input", {}).items() if v[0] != "tmax" for x in troute._flat_numbers(v[1])]
            if fn:
                rc, out = lib.sh([sym, "real", fn.group(1)] + ["%r" % x for x in vals], timeout=120)
                rep["real_code_at_double"] = out.strip().split("\n")[-1] if out.strip() else None
        return rep
    gfn, slots, mfn, nin = SOLVER_FN[name]
    rng = chk.rng
    # library-function parameters: fixed rational stubs (the statement holds for EVERY function, so any will do)
    pre = ["import %s" % i for i in LINK_IMPORTS] + ["open %s" % o for o in LINK_OPENS] + [
        "def s1 (x : Rat) : Rat := x * (3 / 2) + 1 / 3",
        "def s2 (x y : Rat) : Rat := x * (2 / 3) - y / 2 + 1 / 5",
        "def s2b (x y : Rat) : Rat := x * (5 / 7) + y / 3 - 1 / 2",
        "def s3p (x y z : Rat) : Rat × Rat := (x / 2 - y + z + 1, x + y * (3 / 4) - z / 3)",
        "def s2p (x y : Rat) : Rat × Rat := (x * (2 / 5) + y + 1 / 7, y - x / 3 + 2)"]
    if name == "gen_solveQuadratic":
        call = lambda a: ("decide (Gen.%s s1 %s = %s (%s s1 %s))" % (gfn, a, slots, mfn, a), "Gen.%s s1 %s" % (gfn, a))
    else:
        call = lambda a: ("decide (Gen.%s s1 s2 s2b s3p s2p %s = %s (%s (genF s1 s2 s2b s3p s2p) %s))" % (gfn, a, slots, mfn, a),
                          "Gen.%s s1 s2 s2b s3p s2p %s" % (gfn, a))
    cases = []
    for k in range(160):
        if k % 3 == 0:
            # coefficients of a polynomial with chosen roots (hits D = 0 and D < 0 exactly)
            r = [Fraction(rng.choice([-3, -2, -1, 0, 1, 2, 3, 4]), rng.choice([1, 1, 2])) for _ in range(3)]
            if k % 6 == 0:
                r[1] = r[0]
            co = poly_from_roots(r if nin >= 3 and name != "gen_solveQuadratic" else r[:2])
            lead = Fraction(rng.choice([1, 2, -3, 0]) if name != "gen_solveNormalizedCubic" else 1)
            vals = [lead * c for c in co] if name != "gen_solveNormalizedCubic" else co[1:]
            vals = (vals + [Fraction(1)] * nin)[:nin]
        else:
            vals = [Fraction(rng.choice([0, 0, 1, -1, 2, -2, 3, 5, -7]), rng.choice([1, 1, 2, 3])) for _ in range(nin)]
        cases.append(vals)
    lines = list(pre)
    for i, vals in enumerate(cases):
        a = " ".join("((%d : Rat) / %d)" % (v.numerator, v.denominator) for v in vals)
        d, g = call(a)
        lines.append('#eval IO.println s!"CASE %d {%s}"' % (i, d))
    rc, out = lib.lean_run_file("\n".join(lines) + "\n", timeout=900, name="linksearch")
    bad = [int(m.group(1)) for m in re.finditer(r"CASE (\d+) false", out)]
    if not bad:
        return None
    vals = cases[bad[0]]
    rc2, out2 = lib.sh([sym, "real", gfn] + ["%r" % float(v) for v in vals], timeout=120)
    return {"key": "theorem:" + name, "function": gfn, "failing_input": [str(v) for v in vals],
            "evaluated_at": "Rat, regenerated definition vs hand model, library functions replaced by fixed rational stubs",
            "falsified_cases": len(bad), "real_code_at_double": out2.strip().split("\n")[-1] if out2.strip() else None}


CATEGORY = [("floor|ceil|trunc|finite|succ|pred|ord_", "float"), ("div|mod", "int"), ("abs|sign|cmp|clamp|iszero|equal|lerp", "scalar"), ("solve|cubic|cardano", "roots"),
            ("packed", "packed"), ("color|hsv|rgb|integer_wrappers", "colour")]


def run(chk):
    chk.trusted = [
        "Lean 4.33 kernel; axioms propext, Classical.choice, Quot.sound at most; no native_decide/sorry (audited)",
        "translator harness/sym (T = Sym path extraction) for the 17 entries of ops_c17.h, validated each run: extracted trees vs the real "
        "instantiations at float and double (bitwise; tolerance 1e-12 / 1e-5 on the std::complex arm of the cubic), emitted Lean text vs the trees at "
        "exact rationals (the two cubic entries through theorem gen_solveNormalizedCubic/gen_solveCubic + float correspondence instead)",
        "hand models Model/Fun.lean (floor/ceil/trunc, int division, bit-level), Model/ColorAlgo.lean, and Model/Roots.lean, tied on every run by "
        "harness/corr/fun_corr.cpp (real code in-process, plain and UBSan builds) vs lean/Driver/Fun.lean (models at Float32/Float/Int) on identical lines",
        "integer-only specifications of floor/ceil/trunc/finitef/succf/predf inside the harness (all 2^32 floats), Python's "
        "math.floor/nextafter/Fraction/isqrt for doubles, integers, scalars and roots",
        "Lean's Float/Float32 compile to the same SSE2/libm operations as g++ -O1 -ffp-contract=off (used only to execute models)",
        "g++ (incl. libubsan), glibc nextafter/pow, libstdc++ std::complex, the CPU"]
    chk.assumptions = [
        "IsTruncCast: the C++ cast int(y) is exact truncation toward zero for |y| < 2^31 (cvttss2si/cvttsd2si)",
        "IsFloor: int(std::floor(y)) is the exact floor",
        "sqrt/pow/copysign/complex sqrt/complex pow return exact values at the arguments the code passes (hypotheses of the "
        "root theorems; for the double-root count also: pow returns the PRINCIPAL complex cube root); rounding is measured (residues), not proved",
        "the D <= 0 cubic count theorems _three_distinct / _double_root / _complex_roots additionally assume an IDEAL sqrt3 (sqrt3^2 = 3), which the "
        "source's rational literal does not satisfy: they are about the algorithm; the code-level statements are "
        "solveNormalizedCubic_complex_any_sqrt3 and gen_solveNormalizedCubic_three_literal (explicit residual in lit^2 - 3)",
        "cubic accuracy is obliged relative to the NORMWISE conditioning R^3/prod|x_i-x_j|; against the COMPONENTWISE conditioning the solver fails "
        "on tuples not resolved at that accuracy (open known finding fun_corr:solveCubic:wide-magnitude-roots:not-componentwise-accurate); "
        "multiple roots carry no count claim",
        "signed overflow is modelled as two's-complement wrap-around only to RECORD behaviour outside the no-overflow guard; inside the "
        "property's domain the UBSan build shows there is none",
        "ceil on doubles in (2^31-1, 2^31): the mathematical result 2^31 is not an int; outside the property (theorem ceil_result_not_representable)"]
    chk.rule = ("T-route: all paths of 17 scalar/solver templates; TV inputs = structured generator (integers, specials, graded magnitudes) + polynomials "
                "from chosen roots. floats: all 2^32 patterns x {floor,ceil,trunc,finitef,succf,predf} against integer-only specs on every run, and "
                "against the Lean model on every exponent x {0,1,mid,max} mantissa x sign + integers/halves/2^31 neighbourhood + "
                "random (quick) or all 2^32 by block hash + bisection (thorough); doubles: boundary exponents incl. both 2^31 edges, plain AND UBSan builds "
                "vs the machine-int model; ints: all pairs over a boundary-heavy value set incl. INT_MIN, +-(2^31-1), +-2^30(+1), 2^16+-1, one function per "
                "call under UBSan; scalars: sampled product grid + deterministic boundary equalities (|a-b| = t, |a| = t, a = l, a = h, |n| = max|d|) + int and "
                "unsigned instantiations; ints additionally ALL pairs of [-130,130]^2 and the int extremes x [-64,64] (line protocol, both builds) and all of "
                "[-2048,2048]^2 inside the harness; roots: polynomials expanded exactly (Fractions) from chosen integer/dyadic roots, every branch, + cubics "
                "with three real roots spread over 2^+-20 judged by their normwise conditioning + quadratics with "
                "roots spread over 2^+-20 and full-width mantissas (reference roots by 200-bit isqrt); colour: 5^3 lattice + random rgb + near-wrap hues, hue "
                "sextant boundaries x {0,.5,1}^2 + random hsv, grey axis, hue wrap, all four wrappers at float/double/5 integer element types; "
                "ALL 2^32 packed words. Non-trivial = every case except exact zeros.")
    # ---- T-route: regenerate Gen/C17Fun.lean, Gen/C17Roots.lean from the current tree; the `gen_*` theorems tie them to the hand models
    bins = troute.build_extractors(chk, [dict(name="sym_c17", source="sym/sym_c17.cpp")])
    sym = bins.get("sym_c17")
    if sym:
        index, changed = troute.regenerate(chk, sym, "c17")
        troute.tv(chk, sym, "c17", 400 if chk.thorough else 64)
        ph = getattr(chk, "tv_paths", {}).get("c17", {})
        missed = sorted(k for k, v in ph.items() if v[0] < v[1])
        chk.oblige("tv:c17: every leaf of every extracted decision tree is reached by the validation inputs (%d leaves of %d trees)"
                   % (sum(v[1] for v in ph.values()), len(ph)), "translation-validation", bool(ph) and not missed, missed or None)
        if ph and missed:
            chk.fail("tv:c17: every leaf", "tv:c17:leaves-not-reached", "translator validation did not reach every leaf of: " + ", ".join(missed),
                     {"leaves(hit,total)": {k: ph[k] for k in missed}}, False)
        troute.lean_tv(chk, sym, "c17", index, n=8 if chk.thorough else 3)
        chk.extra["lean_tv_note"] = ("solveNormalizedCubic / solveCubic call the parameter functions copysign/csqrt/cpow and are skipped by the "
                                     "rational emitter validation; their emitted text is validated by theorem gen_solveNormalizedCubic / gen_solveCubic "
                                     "(emitted text = hand model) together with the float correspondence hand model = real code")
        chk.extra["tv_note"] = ("the two cubic entries are compared with a tolerance (1e-12 double / 1e-5 float, well-scaled inputs) on the complex arm: "
                                "std::complex<double> divides with __divdc3, the generic template instantiated at T = Sym with the textbook formula")
    # ---- T-route for the NON-template colour bodies: ImathColorAlgo.cpp compiled with `double` := Sym (sym_c17c.cpp) -> Gen/C17Color.lean;
    #      theorems gen_hsv2rgbV3/C4, gen_rgb2hsvV3/C4 prove the regenerated trees equal to the hand model Model/ColorAlgo.lean
    binsc = troute.build_extractors(chk, [dict(name="sym_c17c", source="sym/sym_c17c.cpp")])
    symc = binsc.get("sym_c17c")
    # the token substitution `double` := Sym must change the scalar type and nothing else
    csrc = open(os.path.join(lib.REPO, "src", "Imath", "ImathColorAlgo.cpp")).read()
    ccode = re.sub(r"//[^\n]*|/\*.*?\*/", "", csrc, flags=re.S)
    odd = [w for w in ("long double", "#define", "sizeof", "reinterpret_cast", "memcpy", "union") if w in ccode] + \
          [m.group(0)[:40] for m in re.finditer(r'"[^"\n]*double[^"\n]*"', ccode)]
    chk.oblige("source:ImathColorAlgo.cpp: nothing in the file makes `#define double Sym` change more than the scalar type "
               "(no long double / #define / sizeof / reinterpret_cast / memcpy / union / string mentioning double)", "translator", not odd, odd or None)
    if odd:
        chk.fail("source:ImathColorAlgo.cpp", "source:c17c:token-substitution-unsafe",
                 "ImathColorAlgo.cpp now contains constructs under which compiling it with `double` := Sym is not a faithful copy: " + ", ".join(odd),
                 {"constructs": odd}, False)
    if symc:
        indexc, _ = troute.regenerate(chk, symc, "c17c")
        troute.tv(chk, symc, "c17c", 4000 if chk.thorough else 800)
        phc = getattr(chk, "tv_paths", {}).get("c17c", {})
        # feasible leaves: hsv2rgb 8 of 14 (hue == 1 forces floor (0) = 0: 6 infeasible), rgb2hsv at least 19 of 64 (most order combinations
        # of the two nested ?: selections are contradictory)
        need = {"Color.hsv2rgbV3": 8, "Color.hsv2rgbC4": 8, "Color.rgb2hsvV3": 19, "Color.rgb2hsvC4": 19}
        short = sorted(k for k, v in need.items() if phc.get(k, (0, 0))[0] < v)
        chk.oblige("tv:c17c: the validation inputs reach every feasible leaf of hsv2rgb_d (8 of 14) and >= 19 of the 64 leaves of rgb2hsv_d "
                   "(real ImathColorAlgo.cpp at double vs the tree extracted from the same file at double := Sym)", "translation-validation",
                   bool(phc) and not short, short or None)
        if phc and short:
            chk.fail("tv:c17c: leaves", "tv:c17c:leaves-not-reached", "translator validation reached too few leaves of: " + ", ".join(short),
                     {"leaves(hit,total)": {k: phc.get(k) for k in short}, "needed": {k: need[k] for k in short}}, False)
        troute.lean_tv(chk, symc, "c17c", indexc, n=12 if chk.thorough else 4, extra_args=["--den", "12"],
                       param_stubs={"floorR": "(fun x : Rat => ((Rat.floor x : Int) : Rat))"})
        chk.extra["c17c_note"] = ("ImathColorAlgo.cpp is included twice by harness/sym/sym_c17c.cpp: as it stands (reference) and with the token "
                                  "`double` defined as the symbolic scalar; `int (std::floor (hue))` is explored as floorR hue = 0 ... 5 / other")
    okd = lib.lake_build(["drv_fun"])
    chk.oblige("build:drv_fun", "build", okd[0] == 0, None if okd[0] == 0 else okd[1][-800:])
    srcs = ["corr/fun_corr.cpp", os.path.join(lib.REPO, "src/Imath/ImathFun.cpp"), os.path.join(lib.REPO, "src/Imath/ImathColorAlgo.cpp")]
    built = lib.cxx_build_many([dict(name="fun_corr", sources=srcs),
                                dict(name="fun_corr_ubsan", sources=srcs, extra=UBSAN_FLAGS)])
    ok, binary, o = built["fun_corr"]
    oku, ubin, ou = built["fun_corr_ubsan"]
    chk.oblige("build:fun_corr", "build", ok, None if ok else o[-800:])
    chk.oblige("build:fun_corr_ubsan (%s)" % " ".join(UBSAN_FLAGS), "build", oku, None if oku else ou[-800:])
    if ok and not oku:
        chk.fail("build:fun_corr_ubsan", "build:fun_corr_ubsan", "the sanitised correspondence harness does not build", {"compiler_output": ou[-3000:]}, False)
    cx = Ctx(chk, binary, ubin if oku else None)
    if not ok:
        chk.fail("build:fun_corr", "build:fun_corr", "correspondence harness does not compile against the current tree",
                 {"compiler_output": o[-3000:]}, False)
    elif okd[0] != 0:
        chk.fail("build:drv_fun", "build:drv_fun", "Lean driver does not build", {"output": okd[1][-3000:]}, False)
    else:
        check_floats(cx)
        check_ints(cx)
        check_scalars(cx)
        check_roots(cx)
        check_colour(cx)
        chk.extra["branch_hits"] = dict(sorted(cx.hits.items()))
        chk.extra["exhaustive_parts(the property as a whole is sampled: `exhaustive` stays false)"] = [
            "all 2^32 floats x floor/ceil/trunc/finitef/succf/predf: real code vs integer-only spec (both tiers); model = real code by block hash (thorough only)",
            "all 2^32 packed words (Color4<float>) and 2^24 (Vec3<float>): rgb2packed o packed2rgb (both tiers)",
            "every alpha value of uchar/short/ushort (both tiers), int/uint (thorough only)",
            "all int pairs of [-2048,2048]^2 (harness, both builds) and of [-130,130]^2 + extremes grid (line protocol, model, sanitizer)"]
        chk.sample({"call": "floor(-2.5f)", "result": -3})
        chk.sample({"call": "divp(-7,2), modp(-7,2)", "result": [-4, 1]})
        chk.sample({"call": "solveNormalizedCubic(0,0,1)", "true_root": -1, "note": "p=0,q>0: u=0"})
        chk.sample({"call": "rgb2hsv(Color4<short>(..,alpha=1))", "note": "alpha pass-through"})
        chk.sample({"call": "rgb2packed(packed2rgb(0x80ff0a01)) (C4f)", "result": "0x80ff0a01"})

    def search(name):
        if name in ("gen_rgb2hsv_hsv2rgb", "gen_color4_agrees_with_vec3") and symc:
            # corollaries of the four ties: the failing colour is the one on which a tie fails
            for base in ("gen_hsv2rgbV3", "gen_rgb2hsvV3", "gen_hsv2rgbC4", "gen_rgb2hsvC4"):
                rep = colour_link_search(chk, symc, base)
                if rep:
                    rep["theorem"] = name
                    rep["via"] = base
                    rep["key"] = "theorem:%s" % name
                    return rep
            return None
        if name in COLOUR_LINK:
            return colour_link_search(chk, symc, name) if symc else None
        if name.startswith("gen_") and sym:
            rep = link_search(chk, sym, name)
            if rep:
                return rep
        for pat, cat in CATEGORY:
            if re.search(pat, name) and cat in cx.spec_fail:
                rep = dict(cx.spec_fail[cat])
                rep.setdefault("key", "theorem:%s:%s" % (name, rep.get("replay_cmd", "")[:60]))
                return rep
        return None

    chk.check_theorems(MOD, required=REQUIRED, search=search)
    if chk.thorough:
        chk.leanchecker(MOD)
