"""C09 — transform builders act as documented; in-place forms pre-multiply (T-route + measured rounding residue)."""
import os, re, random, zlib
import lib, troute

# four independent property modules (a change to one extracted function re-elaborates only the module that speaks about it,
# and a broken tree theorem is attributed to that theorem alone: later theorems still elaborate against its statement)
# EVERY theorem of the four files is `required` (a deleted theorem is a VIOLATION `missing:<name>`), audit W6.
MODULES = [
    ("ImathVerif.Props.C09", [
        "M44_setTranslation_point", "M44_setTranslation_dir", "M44_translation", "M44_translation_setTranslation", "M44_setScaleV_point",
        "M44_setScaleV_dir", "M44_setScaleS", "M44_setShearV_point", "M44_setShearV_dir", "M44_setShear6_point", "M44_setShear6_dir",
        "M44_setShearV_eq_setShear6", "M44_setEulerAngles", "M44_setEulerAngles_rotation", "M44_rotate", "lenSpec_of_sqrt",
        "M44_setAxisAngle_eq_of_len", "M44_setAxisAngle_eq", "M44_setAxisAngle_rotation", "M44_setAxisAngle_point", "M44_setAxisAngle_axis_fixed",
        "M44_setAxisAngle_X", "M44_setAxisAngle_Y", "M44_setAxisAngle_Z", "M44_setEulerAngles_eq_axisAngles", "M44_translate", "M44_translateRet",
        "M44_scale", "M44_shearV", "M44_shear6", "M44_translate_mul", "M44_shear6_mul", "M33_setTranslation_point", "M33_setTranslation_dir",
        "M33_translation", "M33_translation_setTranslation", "M33_setScaleV_point", "M33_setScaleV_dir", "M33_setScaleS", "M33_setShearS_point",
        "M33_setShearV_point", "M33_setShearV_dir", "M33_setShearS_eq_setShearV", "M33_setRotation_point", "M33_setRotation_rotation",
        "M33_translate", "M33_scale", "M33_shearS", "M33_shearV", "M33_rotate", "M22_setRotation", "M22_setRotation_point",
        "M22_setRotation_rotation", "M22_rotate", "M22_setScaleV_point", "M22_setScaleS", "M22_scale", "M44_scaleRet", "M44_shearVRet",
        "M44_shear6Ret", "M44_rotateRet", "M33_translateRet", "M33_scaleRet", "M33_shearSRet", "M33_shearVRet", "M33_rotateRet", "M22_rotateRet",
        "M22_scaleRet", "transMat_eq_setTranslation", "computeLocalFrame_spec", "computeLocalFrame_frame", "firstFrame_spec", "firstFrame_frame",
        "firstFrame_collinear", "firstFrame_coincident", "lastFrame_eq", "lastFrame_frame", "addOffset_eq"]),
    ("ImathVerif.Props.C09Align", [
        "alignZAxisWithTargetDir_spec", "alignZAxisWithTargetDir_frame", "alignZAxisWithTargetDir_axes", "alignZAxisWithTargetDir_up",
        "alignZAxisWithTargetDir_zero_target", "alignZAxisWithTargetDir_zero_up", "alignZAxisWithTargetDir_up_default",
        "alignZAxisWithTargetDir_parallel", "rotationMatrixWithUpDir_eq_alignZ", "rotationMatrixWithUpDir_frame", "rotationMatrixWithUpDir_frames",
        "rotationMatrixWithUpDir_up", "rotationMatrixWithUpDir_zero_from"]),
    ("ImathVerif.Props.C09Next", ["nextFrame_eq", "nextFrame_frame", "nextFrame_tangent", "nextFrame_xrow", "nextFrame_tangents_out"]),
    ("ImathVerif.Props.C09Quat", [
        "quatSetRotation_spec", "quatToMatrix44_spec", "rotationMatrix_spec", "rotationMatrix_acute", "rotationMatrix_opposite",
        "rotationMatrix_nearOpposite", "rotationMatrix_obtuse", "rotationMatrix_frame", "rotationMatrix_carries"]),
]
# the Rat evaluation of a broken statement imports only specs and regenerated definitions (a Props module may not build)
IMPORTS = ["ImathVerif.Spec.MatSpec", "ImathVerif.Spec.TransformSpec", "ImathVerif.Gen.C05", "ImathVerif.Gen.C09Mat", "ImathVerif.Gen.C09Frame",
           "ImathVerif.Gen.C09Align", "ImathVerif.Gen.C09Next", "ImathVerif.Gen.C09Quat", "ImathVerif.Gen.C09Up", "ImathVerif.Gen.C09Rot",
           "Mathlib.LinearAlgebra.Matrix.Notation"]
OPENS = ["ImathVerif", "ImathVerif.C09", "Matrix"]

# residue checks that speak about a frame builder / builder family: used when a theorem about that function breaks
RESIDUE_OF = [("alignZAxisWithTargetDir", "alignZAxisWithTargetDir"), ("rotationMatrixWithUpDir", "rotationMatrixWithUpDir"),
              ("rotationMatrix", "rotationMatrix"), ("computeLocalFrame", "computeLocalFrame"), ("firstFrame", "firstFrame"),
              ("lastFrame", "lastFrame"), ("nextFrame", "nextFrame"), ("addOffset", None), ("M44_setAxisAngle", "M44.setAxisAngle"),
              ("M44_setEulerAngles", "M44.setEulerAngles"), ("M44_rotate", "M44.rotate"), ("M44_translate", "M44.translate"),
              ("M44_scale", "M44.scale"), ("M44_shearV", "M44.shear(V3)"), ("M44_shear6", "M44.shear(Shear6)"),
              ("M33_translate", "M33.translate"), ("M33_scale", "M33.scale"), ("M33_shearS", "M33.shear(S)"), ("M33_shearV", "M33.shear(V2)"),
              ("M33_rotate", "M33.rotate"), ("M22_rotate", "M22.rotate"), ("M22_scale", "M22.scale"),
              ("M33_setRotation", "M33.setRotation"), ("M22_setRotation", "M22.setRotation")]

PRELUDE = """
def ratSin (x : Rat) : Rat := 2 * x / (1 + x * x)
def ratCos (x : Rat) : Rat := (1 - x * x) / (1 + x * x)
def ratAcos (x : Rat) : Rat := x
def ratSqrt (x : Rat) : Rat := (Nat.sqrt x.num.natAbs : Rat) / (Nat.sqrt x.den : Rat)
"""
# vectors with rational length (so that Gen.V3.length 0 ratSqrt is their exact length)
PYTH = [(1, 2, 2), (2, 3, 6), (0, 3, 4), (-2, 1, 2), (4, 4, 7), (1, 0, 0), (0, -2, 0), (6, -2, 3), (-1, -4, 8), (0, 0, 5)]


def _binders(sig):
    """top-level binder groups of a theorem signature: [(open_char, text)], and the statement after the top-level ':'"""
    groups, depth, start, i = [], 0, None, 0
    pairs = {"(": ")", "{": "}", "[": "]", "⟨": "⟩"}
    closers = set(pairs.values())
    while i < len(sig):
        ch = sig[i]
        if ch in pairs:
            if depth == 0:
                start = i
            depth += 1
        elif ch in closers:
            depth -= 1
            if depth == 0:
                groups.append((sig[start], sig[start + 1:i]))
        elif ch == ":" and depth == 0:
            return groups, sig[i + 1:].strip()
        i += 1
    return groups, None


def parse(path, name):
    src = lib.strip_lean_comments(open(path).read())
    m = re.search(r"theorem\s+" + re.escape(name) + r"\s+(.*?):=\s*(by\b|\n|[A-Za-z⟨(])", src, re.S)
    if not m:
        return None
    groups, stmt = _binders(m.group(1))
    if stmt is None:
        return None
    params = []
    for op, g in groups:
        if op != "(":
            continue
        names, _, ty = g.partition(":")
        for n in names.split():
            params.append((n, " ".join(ty.split())))
    return params, " ".join(stmt.split())


NONDECIDABLE = ("LenSpec", "∀", "AcosSpec")


def rat_search(chk, module, theorem, binaries, index, trials=80):
    """Evaluate the statement at Rat with sin/cos := a rational parametrisation of the circle, acos := id, sqrt := exact rational root,
    tmin := 0, teps := 1/64.  Decidable hypotheses are kept (hyp → statement); LenSpec / ∀-hypotheses are dropped, which is sound only
    when every length taken is rational: theorems with a LenSpec hypothesis are searched only if they are about setAxisAngle (axis drawn
    from vectors of rational length)."""
    path = os.path.join(lib.LEAN, *module.split(".")) + ".lean"
    pt = parse(path, theorem)
    if not pt:
        return None
    params, stmt = pt
    if "∃" in stmt:
        return None
    rng = random.Random(chk.seed * 7919 + zlib.crc32(theorem.encode()) % 100000)

    def num():
        k = rng.choice([0, 1, -1, 2, -2, 3, 5, -7, 1, 2, 3])
        return "(%d : Rat)" % k if rng.random() < 0.8 else "((%d : Rat) / 2)" % k

    def is_var(ty):
        t = ty.replace("α", "").strip()
        return ty == "α → α" or ty == "α" or t in troute.ARITY
    hyps = [(n, ty) for (n, ty) in params if not is_var(ty)]
    if any(not n.startswith("h") for n, _ in hyps):
        return None
    dropped = [ty for _, ty in hyps if ty.startswith(NONDECIDABLE)]
    if any(ty.startswith("LenSpec") for ty in dropped) and not theorem.startswith("M44_setAxisAngle"):
        return None
    kept = [ty for _, ty in hyps if not ty.startswith(NONDECIDABLE)]
    params = [(n, ty) for (n, ty) in params if is_var(ty)]
    names, tys, fixed = [], [], {}
    for n, ty in params:
        t = ty.replace("α", "").strip()
        if ty == "α → α":
            fixed[n] = {"sin": "ratSin", "cos": "ratCos", "acos": "ratAcos", "sqrt": "ratSqrt"}.get(n)
            if fixed[n] is None:
                return None
            continue
        if n == "tmin":
            fixed[n] = "(0 : Rat)"
            continue
        if n == "tmax":
            fixed[n] = "(1048576 : Rat)"
            continue
        if n == "teps":
            fixed[n] = "((1 : Rat) / 64)"
            continue
        names.append(n); tys.append(t)
    uses_len = "sqrt" in fixed
    v3 = "⟨(%d : Rat), (%d : Rat), (%d : Rat)⟩"
    cases = []
    for _ in range(trials):
        vs, last = [], None
        for n, t in zip(names, tys):
            if t == "":
                vs.append(num())
            elif t == "V3":
                r = rng.random()
                if uses_len and n == "axis":
                    vec = rng.choice(PYTH)
                elif r < 0.12:
                    vec = (0, 0, 0)
                elif r < 0.27:
                    vec = [(2, 0, 0), (0, -3, 0), (0, 0, 1), (-1, 0, 0), (0, 0, -2)][rng.randrange(5)]
                elif r < 0.45 and last is not None:
                    k = rng.choice([1, 2, -1, -3])
                    vec = tuple(k * c for c in last)        # parallel / opposite to the previous vector
                else:
                    vec = tuple(rng.choice([0, 1, -1, 2, -2, 3, 5, -7]) for _ in range(3))
                last = vec
                vs.append(v3 % tuple(vec))
            else:
                k = troute.ARITY[t].count("%s")
                vs.append(troute.ARITY[t] % tuple(num() for _ in range(k)))
        cases.append(vs)
    decl = " ".join("(%s : %s)" % (n, ("Rat → Rat" if ty == "α → α" else "Rat" if ty == "α" else ty.replace("α", "Rat"))) for n, ty in params)
    body = " → ".join(["(%s)" % h for h in kept] + ["(%s)" % stmt])
    lines = ["import %s" % i for i in IMPORTS] + ["open %s" % " ".join(OPENS), PRELUDE,
             "def stmtHolds %s : Bool := decide (%s)" % (decl, body)]
    for i, vs in enumerate(cases):
        d = dict(zip(names, vs))
        args = " ".join("(%s)" % (fixed[n] if n in fixed else d[n]) for n, _ in params)
        lines.append('#eval IO.println s!"CASE %d {stmtHolds %s}"' % (i, args))
    rc, out = lib.lean_run_file("\n".join(lines) + "\n", timeout=900, name="search_c09")
    res = dict((int(m.group(1)), m.group(2) == "true") for m in re.finditer(r"CASE (\d+) (true|false)", out))
    if len(res) < len(cases) // 2:
        lib.log("rat_search(%s): statement not evaluable at Rat: %s" % (theorem, out[-300:]))
        return None
    bad = sorted(i for i, ok in res.items() if not ok)
    if not bad:
        return None
    vs = dict(zip(names, cases[bad[0]]))
    real = None
    fn = re.search(r"Gen\.([A-Za-z0-9_.]+)", stmt)
    entry = next((d for d in index if fn and d["name"] == fn.group(1)), None)
    if entry:
        binary, idx_deps = binaries[entry["bin"]]
        nums, ok = [], True
        for p in [x for x in (entry.get("params") or "").split(",") if x]:
            pn = p.partition(":")[0]
            src = pn if pn in vs else ("m0" if pn == "m" and "m0" in vs else None)
            if src is None:
                ok = False
                break
            nums += troute._flat_numbers(vs[src]) if "/" in vs[src] or ":" in vs[src] else []
        if ok and binary:
            cmd = [binary, "real", fn.group(1)] + ["%r" % x for x in nums]
            for d in idx_deps:
                cmd += ["--idx", d]
            rc2, out2 = lib.sh(cmd, timeout=120)
            real = out2.strip().split("\n")[-1] if out2.strip() else None
    return {"key": "theorem:" + theorem, "theorem_statement": stmt, "hypotheses_kept": kept, "failing_input": vs,
            "evaluated_at": "Rat (sin x := 2x/(1+x²), cos x := (1−x²)/(1+x²), acos := id, sqrt := exact rational root, tmin := 0, tmax := 2^20, "
                            "teps := 1/64), with the Gen definitions regenerated from the current tree",
            "real_code_at_double(real sin/cos)": real, "falsified_cases": len(bad)}


def gen_defs():
    """{function name: definition text} of the C09 Gen modules currently installed"""
    out = {}
    for mod in ("C09Mat", "C09Frame", "C09Align", "C09Next", "C09Quat", "C09Up", "C09Rot"):
        p = os.path.join(troute.GEN, mod + ".lean")
        if not os.path.exists(p):
            continue
        for m in re.finditer(r"^def (\S+) .*?(?=^/-- extracted|^end ImathVerif)", open(p).read(), re.S | re.M):
            out[m.group(1)] = m.group(0)
    return out


# which theorems (name prefixes) speak about an extracted function, directly or through the lemmas
DEPENDS = {"Frame.alignZAxisWithTargetDir": ["alignZAxisWithTargetDir", "rotationMatrixWithUpDir"],
           "Frame.rotationMatrixWithUpDir": ["rotationMatrixWithUpDir"], "Frame.quatSetRotation": ["rotationMatrix_"],
           "Frame.quatToMatrix44": ["rotationMatrix_"], "Frame.rotationMatrix": ["rotationMatrix_"],
           "Frame.computeLocalFrame": ["computeLocalFrame"], "Frame.firstFrame": ["firstFrame"], "Frame.lastFrame": ["lastFrame"],
           "Frame.nextFrame": ["nextFrame"], "Frame.addOffset": ["addOffset"]}


def run_residue(chk, binary, n):
    rc, out = lib.sh([binary, str(chk.seed), str(n)], timeout=1800)
    return rc, out


DRIFT_OBL = ("residue-drift: every measured maximum stays within 1.5 x its clean-tree calibration + 1 eps (harness/corr/c09_residue_cal.json; "
             "the bounds coded in the harness are 4-12 x the maxima, a change costing 2-3 bits in one builder would stay inside them)")


def drift(chk, worst, already_failed):
    """worst: {"<check>[<magnitude class>]:<type>": max error/eps}.  A check that already violates its coded bound is reported there."""
    import json
    try:
        cal = json.load(open(os.path.join(lib.VERIF, "harness", "corr", "c09_residue_cal.json")))["calibrated"]
    except Exception as ex:
        chk.oblige(DRIFT_OBL, "residue", False, "calibration file unreadable: %r" % ex)
        chk.fail(DRIFT_OBL, "residue-drift:calibration-file", "harness/corr/c09_residue_cal.json is missing or unreadable", {}, False)
        return
    over, uncal, seen_base = [], [], set()
    for k, v in sorted(worst.items()):
        name, ty = k.rsplit(":", 1)
        base = re.sub(r"\[(huge|tiny)-magnitudes\]", "", name)
        seen_base.add(base)
        if (base, ty) in already_failed:
            continue
        if base not in cal:
            uncal.append(k)
            continue
        ceil = 1.5 * cal[base] + 1.0
        if not (v <= ceil):
            over.append((k, v, cal[base], ceil))
    never = sorted(b for b in cal if b not in seen_base)
    ok = not over and not uncal and not never
    chk.oblige(DRIFT_OBL, "residue", ok,
               {"checks_compared": len(worst), "calibrated_checks": len(cal)} if ok else
               {"over": ["%s: %.3g > %.3g (calibrated %.3g)" % o for o in over][:10], "uncalibrated": uncal[:10], "calibrated_but_not_measured": never[:10]})
    for k, v, c, ceil in over[:12]:
        chk.fail(DRIFT_OBL, "residue-drift:" + k, "%s: measured maximum %.3g eps exceeds the drift ceiling %.3g (clean-tree maximum %.3g); still inside "
                 "the coded bound — rounding behaviour of this builder changed" % (k, v, ceil, c), {"check": k, "measured": v, "calibrated": c}, False)
    for k in uncal[:12]:
        chk.fail(DRIFT_OBL, "residue-drift:uncalibrated:" + k, "residue check %s has no calibrated maximum" % k, {"check": k}, False)
    for b in never[:12]:
        chk.fail(DRIFT_OBL, "residue-drift:not-measured:" + b, "calibrated residue check %s was not evaluated in this run (a check was removed "
                 "or its input class is no longer generated)" % b, {"check": b}, False)


MAG_FUNCS = ["alignZAxisWithTargetDir", "rotationMatrixWithUpDir", "rotationMatrix", "computeLocalFrame", "firstFrame", "lastFrame", "nextFrame"]
MAG_CLASSES = ["huge-magnitudes", "tiny-magnitudes"]


def mag_obligation(fn):
    return ("residue-magnitudes:%s: finite, orthonormal, det +1, documented axes/origin when the direction arguments are well separated but "
            "their LENGTHS are huge (1e10..1e37 float, 1e100..1e300 double) or tiny (reciprocals, to the edge of the normal range) — the "
            "property's clause has no magnitude restriction" % fn)


def residue(chk, binary, n, state):
    rc, out = run_residue(chk, binary, n)
    state["out"] = out
    m = re.search(r"RESIDUE evals=(\d+) lattice_exact=(\d+) failures=(\d+) failures_magnitude_classes=(\d+)", out)
    ordinary_failures = int(m.group(3)) - int(m.group(4)) if m else None
    ok = m is not None and ordinary_failures == 0 and (rc == 0 or int(m.group(4)) > 0)
    RES = ("residue: rotation builders orthonormal / equal to the documented formula to c*eps (angles up to thousands of periods); "
           "in-place forms = set*·M on non-affine matrices (exact on the integer lattice); frame builders finite, orthonormal, det +1, "
           "documented axes and origin (incl. the up component of rotationMatrixWithUpDir) on generic / graded (2^±40 float, 2^±300 double) / "
           "nearly parallel / exactly parallel / opposite / NEARLY opposite / zero direction pairs")
    chk.oblige(RES, "residue", ok)
    worst, hits, cls_acc = {}, {}, {}
    for mm in re.finditer(r"RESIDUE-WORST (.*?) ([-+0-9.einfa]+)\n", out):
        worst[mm.group(1)] = float(mm.group(2))
    for mm in re.finditer(r"RESIDUE-HITS (\S+) (\d+)", out):
        hits[mm.group(1)] = int(mm.group(2))
    for mm in re.finditer(r"RESIDUE-CLASS (\w+):([\w-]+):(float|double) evals=(\d+) fails=(\d+)", out):
        cls_acc[(mm.group(1), mm.group(2), mm.group(3))] = (int(mm.group(4)), int(mm.group(5)))
    if m:
        chk.count(int(m.group(1)), int(m.group(1)))
        chk.residues["C09"] = {"evaluations": int(m.group(1)), "lattice_cases_required_exact": int(m.group(2)), "failures": int(m.group(3)),
                               "failures_in_magnitude_classes": int(m.group(4)),
                               "unit": "error / machine epsilon of the element type (bounds: see harness/corr/c09_residue.cpp)",
                               "worst_error_in_eps_per_check": worst, "input_class_hits": hits,
                               "magnitude_classes(function:class:type -> [evaluations, failures])":
                                   dict(("%s:%s:%s" % k, list(v)) for k, v in sorted(cls_acc.items())),
                               "oracle": "long double (64-bit mantissa) evaluation of the documented formulae from the same T-valued inputs"}
    # the arms of Quat::setRotation reached by the rotationMatrix pairs (the (8 eps)^2 fallback with f0 + t0 != 0 only through `nearly-opposite`)
    arms = dict((k.split(":", 1)[1], v) for k, v in hits.items() if k.startswith("rotationMatrix-arm:"))
    # floors: measured 1600-3400 (acute / split), ~970 (fallback incl. exactly opposite lattice pairs), 87-125 per element type for the
    # THRESHOLD branch proper (fallback taken although f0 + t0 != 0: only class `nearly-opposite` reaches it, at angles pi - few eps)
    need = {"acute": 500, "obtuse-split": 500, "opposite-fallback": 200,
            "opposite-fallback(f0+t0!=0):float": 40, "opposite-fallback(f0+t0!=0):double": 40}
    scale = (7 if chk.thorough else 1)
    arms_ok = all(arms.get(a, 0) >= f * scale for a, f in need.items())
    chk.oblige("reach: residue pairs take every arm of Quat::setRotation (acute / obtuse split / opposite fallback, and — separately, per element "
               "type — the (8 eps)^2 threshold fallback with f0 + t0 != 0) and every direction-pair class",
               "reach", arms_ok and sum(1 for k in hits if k.startswith("directions:")) == 13,
               {"arms": arms, "floors": dict((a, f * scale) for a, f in need.items()),
                "classes": dict((k, v) for k, v in hits.items() if k.startswith("directions:"))})
    if not arms_ok:
        chk.fail("reach: residue pairs", "residue:reach:setRotation-arms", "a branch of Quat::setRotation is no longer reached by the residue generator",
                 {"arms": arms}, False)
    fail_lines = [l for l in out.split("\n") if l.startswith("RESIDUE-FAIL")]
    parsed = [re.match(r"RESIDUE-FAIL (.+):([^:]+):(float|double) (err/eps=\S+ > \S+) in=(.*)", l) for l in fail_lines]
    parsed = [mm.groups() for mm in parsed if mm]
    drift(chk, worst, set((g[0], g[2]) for g in parsed))
    # ---- magnitude classes: one obligation per function, one key per (function, class)
    for fn in MAG_FUNCS:
        accs = dict((k, v) for k, v in cls_acc.items() if k[0] == fn)
        ev = sum(v[0] for v in accs.values())
        fl = sum(v[1] for v in accs.values())
        present = all((fn, c, t) in cls_acc and cls_acc[(fn, c, t)][0] >= 50 for c in MAG_CLASSES for t in ("float", "double"))
        chk.oblige(mag_obligation(fn), "residue", present and fl == 0,
                   {"evaluations": ev, "failures": fl, "per_class": dict(("%s:%s" % (k[1], k[2]), list(v)) for k, v in sorted(accs.items()))})
        if not present:
            chk.fail(mag_obligation(fn), "c09_residue:%s:magnitude-classes-not-run" % fn, "magnitude classes were not exercised for " + fn,
                     {"class_counts": dict(("%s:%s" % (k[1], k[2]), list(v)) for k, v in accs.items())}, False)
        for c in MAG_CLASSES:
            bad = [(t, cls_acc[(fn, c, t)]) for t in ("float", "double") if cls_acc.get((fn, c, t), (0, 0))[1] > 0]
            if not bad:
                continue
            ex = [g for g in parsed if g[0].split(".")[0] == fn and g[1] == c]
            # one key per (CHECK, class) — element types merged — so that an open finding about, say, `.finite` at huge lengths cannot
            # swallow a new defect of another kind (wrong axis, lost orthonormality) in the same function and class (audit r2 N5);
            # the harness prints at most 2 lines per (check, class, type), so every failing check appears here
            whats = sorted(set(g[0] for g in ex)) or [fn + ".(unattributed)"]
            for w in whats:
                exw = [g for g in ex if g[0] == w]
                chk.fail(mag_obligation(fn), "c09_residue:%s:%s" % (w, c),
                         "%s on direction arguments of %s length fails in %s (all checks of %s in this class: %s)" %
                         (w, c.split("-")[0], ", ".join(sorted(set(g[2] for g in exw))) or "?", fn,
                          ", ".join("%d of %d %s evaluations" % (v[1], v[0], t) for t, v in bad)),
                         {"function": fn, "check": w, "input_class": c,
                          "examples": [{"element_type": g[2], "error": g[3], "input": g[4]} for g in exw[:4]]}, True)
    # ---- ordinary classes
    seen = set()
    for what, cls, ty, err, inp in parsed:
        if cls in MAG_CLASSES:
            continue
        key = "residue:%s:%s" % (what, ty)
        if key in seen:
            continue
        seen.add(key)
        chk.fail(RES, key,
                 "%s at %s deviates from the documented result beyond the rounding bound (%s, input class %s)" % (what, ty, err, cls),
                 {"check": what, "element_type": ty, "input_class": cls, "error": err, "input": inp}, True)
    if not ok and not seen:
        chk.fail(RES, "residue:run", "residue harness failed to run", {"output": out[-2000:]}, False)


# leaves of the branching trees that the C++-side TV inputs must reach (flat DFS leaves; most of the remaining ones are infeasible
# combinations such as "normalized() of a non-zero vector has length 0").  Measured at quick tier, seeds 1-5, with the opt-in small-integer
# lattice inputs (FRAME_OPTS in harness/sym/ops_c09.h): zero vectors, axis-aligned and exactly parallel / opposite pairs.  Without the lattice
# inputs the generic modes reached 2 / 6 / 5 / 3 / 4 of these.
TV_FLOOR = {"c09": {"Frame.nextFrame": 6, "Frame.quatSetRotation": 8, "Frame.alignZAxisWithTargetDir": 8, "Frame.computeLocalFrame": 3,
                    "Frame.firstFrame": 6, "M44.setAxisAngle": 2},
            "c09up": {"Frame.rotationMatrixWithUpDir": 2}}


def tv_reach(chk):
    paths = getattr(chk, "tv_paths", {})
    short = []
    for tag, floors in TV_FLOOR.items():
        for fn, floor in floors.items():
            hit = (paths.get(tag) or {}).get(fn, [0, 0])
            if hit[0] < floor:
                short.append((tag, fn, hit[0], hit[1], floor))
    name = ("reach: translator validation inputs reach the fallback leaves of every branching tree (zero / parallel / opposite / collinear "
            "arguments): floors per tree %s" % ", ".join("%s>=%d" % (f.split(".")[-1], n) for t in TV_FLOOR.values() for f, n in t.items()))
    chk.oblige(name, "reach", not short,
               {"leaves_hit/flat_leaves": dict((fn, v) for tag in paths for fn, v in paths[tag].items())} if not short else
               ["%s: %d of %d leaves, floor %d" % (fn, h, tot, fl) for (_, fn, h, tot, fl) in short])
    for tag, fn, h, tot, fl in short:
        chk.fail(name, "tv-reach:%s" % fn, "the TV inputs reach only %d leaves of %s (floor %d of %d flat leaves): a fallback branch is no longer "
                 "exercised bitwise against the real code" % (h, fn, fl, tot), {"function": fn, "hit": h, "floor": fl}, False)


NOEXCEPT_OBL = ("shipped build (ImathConfig.h defaults, IMATH_NOEXCEPT not overridden): on their degenerate inputs the frame builders do what the "
                "model says (probed for an exception: exactly the entries with an `.error` leaf) — a Gen `.error domainError` leaf (firstFrame, pi = pj; theorem firstFrame_coincident) is a std::domain_error that "
                "REACHES THE CALLER, every `.ok` leaf returns a finite matrix; observed per call in a fork()ed child (value / exception / std::terminate)")


def noexcept_probe(chk, throwing=None):
    """Observes what the shipped build (noexcept configuration on) does on the degenerate inputs of the frame builders, in particular on the
    path that is a `.error` leaf of the model (firstFrame, pi = pj).  (The extractor no longer overrides IMATH_NOEXCEPT.)"""
    ok, binary, out = lib.cxx_build("c09_noexcept", ["corr/c09_noexcept.cpp"])
    chk.oblige("build:c09_noexcept", "build", ok, None if ok else out[-1500:])
    if not ok:
        chk.fail("build:c09_noexcept", "build:c09_noexcept", "the noexcept harness no longer compiles against the current headers",
                 {"compiler_errors": [l for l in out.split("\n") if "error" in l][:12]}, False)
        return
    rc, out = lib.sh([binary], timeout=300)
    probes = re.findall(r"^NOEXCEPT (\S+?):(\S+?):(float|double) expected=(\S+) observed=(\S+) (OK|FAIL) in=(.*)$", out, re.M)
    m = re.search(r"NOEXCEPT-SUMMARY probes=(\d+) failures=(\d+) noexcept_macro=(.*)", out)
    good = m is not None and len(probes) == int(m.group(1)) and len(probes) >= 30 and m.group(3).strip() == "noexcept"
    bad = [p for p in probes if p[5] != "OK"]
    # tie between the model and the hand list of probes: the extracted entries that HAVE an `.error` leaf are exactly the functions the
    # harness expects an exception from (a new throwing path in another builder must get a probe)
    probed_throw = sorted(set(p[0] for p in probes if p[3].startswith("threw")))
    model_throw = sorted(set(n.split(".")[-1] for n in (throwing or []))) if throwing is not None else None
    tie_ok = model_throw is None or model_throw == probed_throw
    chk.extra["noexcept_tie"] = {"entries_with_error_leaves_in_Gen": model_throw, "functions_probed_for_an_exception": probed_throw}
    if not tie_ok:
        chk.fail(NOEXCEPT_OBL, "c09_noexcept:probe-list", "the extracted entries with an `.error` leaf (%s) are not the functions the noexcept harness "
                 "probes for an exception (%s)" % (model_throw, probed_throw), {"model": model_throw, "probed": probed_throw}, False)
    chk.oblige(NOEXCEPT_OBL, "correspondence", good and not bad and rc == 0 and tie_ok,
               None if good and not bad else {"failed_probes": ["%s:%s:%s expected %s, observed %s" % p[:5] for p in bad][:8], "summary": m.group(0) if m else out[-400:]})
    chk.count(len(probes), len(probes))
    chk.extra["noexcept_probes"] = {"probes": len(probes), "failed": len(bad), "IMATH_NOEXCEPT_expands_to": m.group(3).strip() if m else None,
                                    "observed": sorted(set("%s:%s -> %s" % (p[0], p[1], p[4]) for p in probes))}
    if not good:
        chk.fail(NOEXCEPT_OBL, "c09_noexcept:run", "the noexcept harness did not run as intended (IMATH_NOEXCEPT must expand to `noexcept`, "
                 "all probes must report)", {"output": out[-1500:]}, False)
    seen = set()
    for fn, cls, ty, exp, got, _, inp in bad:
        key = "c09_noexcept:%s:%s" % (fn, cls)
        if key in seen:
            continue
        seen.add(key)
        what = "%s (%s) on input class %s: the model / documentation says %s, the shipped build does: %s" % (fn, ty, cls, exp, got)
        if got == "terminate":
            what += " — an exception meets a `noexcept` boundary (std::terminate aborts the process; the documented exception can never be caught)"
        chk.fail(NOEXCEPT_OBL, key, what, {"function": fn, "input_class": cls, "element_type": ty, "input": inp, "expected": exp, "observed": got,
                                           "replay": "build harness/corr/c09_noexcept.cpp against the tree (tools/lib.cxx_build) and run it"}, True)


def run(chk):
    chk.trusted = ["Lean 4.33 kernel; axioms propext/Classical.choice/Quot.sound at most",
                   "Mathlib's Matrix.mul / det / transpose / vecMul, Real.sin/cos/arccos/sqrt (only in the non-vacuity examples)",
                   "translator harness/sym, validated each run by TV (bitwise at float and double for EVERY entry, nextFrame included; "
                   "emitted Lean text at Rat for every entry of both tags)",
                   "Spec/TransformSpec.lean: dot, cross, LenSpec, nrm, IsRot/IsFrame, axis rotations, Rodrigues' formula, alignZSpec",
                   "long double evaluation as the oracle of the measured rounding residue",
                   "fork()/waitpid and std::set_terminate as the observer of exception / terminate behaviour (harness/corr/c09_noexcept.cpp)"]
    chk.assumptions = [
        "Vec3::length() enters as the opaque Gen.V3.length tmin tmax sqrt with the hypothesis LenSpec (len v ^ 2 = v·v, 0 ≤ len v); "
        "what the extracted length() really computes is C08's subject (lenSpec_of_sqrt discharges LenSpec from C08's theorem)",
        "sin/cos/acos are parameters: theorems assume only sin²+cos²=1 (and, for nextFrame_tangent, cos(acos x)=x, 0≤sin(acos x) on [-1,1], cos 0=1)",
        "the extractor compiles the headers as shipped (IMATH_NOEXCEPT not overridden); that a `.error` leaf of the model is an exception "
        "that reaches the caller in the shipped build is OBSERVED by harness/corr/c09_noexcept.cpp, not proved",
        "rounding: NOT proved; measured against a long double evaluation with bounds c*eps (partial)",
        "Lean-side emitter validation (lean_tv) runs for all 52 entries (opaque callees are evaluated by the real templates at exact "
        "fractions), but on 3-8 (c09) / 6-12 (c09up) random rational inputs per entry: it does not reach the fallback leaves of the big "
        "trees; the emitted text of those leaves is checked by the `_spec` equalities with the transcription specs only",
        "magnitudes: the theorems idealise length()==0 <=> v = 0 and exact products; overflow / underflow for long / short direction "
        "arguments is measured separately per function (residue-magnitudes:*; alignZAxisWithTargetDir rescales its arguments since 8e640b7)"]
    chk.rule = ("theorems: all current matrices (16 free entries), all parameter vectors, all angles, over any commutative ring / ordered field. "
                "residue: angles in 5 classes (small … thousands of periods, quarter turns); current matrices integer lattice (exact) / well scaled / "
                "graded, never affine; direction pairs in 13 classes (generic, graded 2^±40 / 2^±300, nearly parallel, exactly parallel, opposite, "
                "axis-aligned, zero first/second/both, perpendicular lattice, huge lengths 1e10…1e37 / 1e100…1e300, tiny lengths, nearly opposite with angles "
                "π−1e-1 … π−few eps); S ≠ T argument overloads; "
                "float and double; class hit counts and the arm of Quat::setRotation taken are recorded. noexcept: 34 degenerate calls of the frame "
                "builders in fork()ed children of a TU compiled with the shipped configuration")
    bins = troute.build_extractors(chk, [dict(name="sym_leaf", source="sym/sym_leaf.cpp"), dict(name="sym_c09", source="sym/sym_c09.cpp"),
                                         dict(name="sym_c09up", source="sym/sym_c09up.cpp"),
                                         dict(name="c09_residue", source="corr/c09_residue.cpp")])
    leaf_idx = os.path.join(troute.GEN, "index_leaf.txt")
    c09_idx = os.path.join(troute.GEN, "index_c09.txt")
    index, state = [], {}
    before = gen_defs()
    binaries = {"c09": (bins.get("sym_c09"), [leaf_idx]), "c09up": (bins.get("sym_c09up"), [leaf_idx, c09_idx])}
    if bins.get("sym_leaf") and bins.get("sym_c09") and bins.get("sym_c09up"):
        troute.regenerate(chk, bins["sym_leaf"], "leaf")
        index, _ = troute.regenerate(chk, bins["sym_c09"], "c09", idx_deps=[leaf_idx])
        index2, _ = troute.regenerate(chk, bins["sym_c09up"], "c09up", idx_deps=[leaf_idx, c09_idx])
        for d in index:
            d["bin"] = "c09"
        for d in index2:
            d["bin"] = "c09up"
        n = 400 if chk.thorough else 64
        troute.tv(chk, bins["sym_c09"], "c09", n, idx_deps=[leaf_idx])
        troute.tv(chk, bins["sym_c09up"], "c09up", n, idx_deps=[leaf_idx, c09_idx])
        tv_reach(chk)
        troute.lean_tv(chk, bins["sym_c09"], "c09", index, n=8 if chk.thorough else 3, idx_deps=[leaf_idx])
        # tag c09up: the opaque callees (alignZAxisWithTargetDir, Quat::setRotation, length) are evaluated by the REAL templates at exact
        # fractions (Native::q in sym_c09up.cpp), so the emitted text of rotationMatrixWithUpDir / rotationMatrix is validated too
        troute.lean_tv(chk, bins["sym_c09up"], "c09up", index2, n=12 if chk.thorough else 6, idx_deps=[leaf_idx, c09_idx])
        throwing = sorted(d["name"] for d in index + index2 if d.get("throws") == "1")
        chk.extra["entries_with_error_leaves"] = throwing
        for d in index[:4] + index[-3:] + index2:
            chk.sample({"entry": d["name"], "paths": d.get("paths")})
        index = index + index2
    after = gen_defs()
    changed = sorted(f for f in after if before.get(f) != after[f]) if before else []
    if changed:
        chk.extra["gen_functions_changed_since_last_run"] = changed
    budget = {"left": 24}

    def make_search(module):
        def search(name):
            if budget["left"] <= 0:
                return None
            budget["left"] -= 1
            # 1. statements without analytic hypotheses: evaluate at Rat and replay on the real code
            try:
                rep = rat_search(chk, module, name, binaries, index)
            except Exception as ex:
                lib.log("rat_search(%s) raised %r" % (name, ex))
                rep = None
            if rep:
                return rep
            # 2. otherwise (hypotheses on length, existential statements): the residue harness compares the REAL code with the
            #    documented behaviour on structured inputs — report its first failing input for the function the theorem is about
            fn = next((r for (t, r) in RESIDUE_OF if name.startswith(t) or (t in name)), None)
            if fn and bins.get("c09_residue"):
                if "out" not in state:
                    state["out"] = run_residue(chk, bins["c09_residue"], 4000)[1]
                for l in state["out"].split("\n"):
                    if l.startswith("RESIDUE-FAIL " + fn):
                        mm = re.match(r"RESIDUE-FAIL (.+):([^:]+):(float|double) (err/eps=\S+ > \S+) in=(.*)", l)
                        if mm:
                            return {"key": "theorem:" + name, "found_by": "harness/corr/c09_residue (real code vs documented behaviour)",
                                    "check": mm.group(1), "input_class": mm.group(2), "element_type": mm.group(3), "error": mm.group(4),
                                    "input": mm.group(5)}
            return None
        return search

    if index:
        # one lake invocation first: the four modules are independent and build in parallel (a failing one does not stop the others)
        lib.lake_build([m for m, _ in MODULES])
        for module, required in MODULES:
            chk.check_theorems(module, required=required, search=make_search(module))
    noexcept_probe(chk, chk.extra.get("entries_with_error_leaves"))
    if bins.get("c09_residue"):
        residue(chk, bins["c09_residue"], 30000 if chk.thorough else 4000, state)
    if chk.thorough:
        for module, _ in MODULES:
            chk.leanchecker(module)
