"""C16 — Frustum projection, depth mapping, planes and culling are mutually consistent.

T-route: harness/sym/sym_c16.cpp instantiates ImathFrustum.h / ImathFrustumTest.h at the symbolic scalar (every method incl. operator=,
constructors, ==/!=, the real body of DepthToZ with its `long (…)` operand recorded, ZToDepth at concrete integer triples; perspective and
orthographic copies separately) and regenerates Gen/C16Frustum.lean, Gen/C16Test.lean on every run; Props/C16.lean, Props/C16Z.lean (integer
depth mapping) and Props/C16Cull.lean (culling about the frustum, unit normals, mirrored cameras, witnesses) are re-elaborated against them.
H-route: `planes (p, M)` (double (_nearPlane)): hand transcript harness/sym/c16_hand.h emitted by sym_c16m.cpp into Gen/C16PlanesM.lean, tied by
bitwise TV at double; the machine-integer parts of ZToDepth / DepthToZ: lean/ImathVerif/Model/FrustumZ.lean, evaluated and compared with the
real code by harness/corr/c16_corr.cpp (zmodel).  Residue (measured, never presented as proof): c16_corr.cpp at float and double."""
import os, re
import lib, troute

PROPS = "ImathVerif.Props.C16"
PROPS_Z = "ImathVerif.Props.C16Z"
PROPS_CULL = "ImathVerif.Props.C16Cull"
PROPS_LINK = "ImathVerif.Props.C16PlaneLink"   # imports Props.C15: planes (p, M) = Plane3::operator* (M) on planes (p)
PROPS_MORE = [PROPS_CULL, PROPS_LINK]
REQUIRED_LINK = [
    "plane_eq_of_pos_multiple", "planeThroughIf_affine_det", "plane_link_affine", "planesM_persp_eq_mulM44",
    "planesM_ortho_eq_mulM44", "triple_projective", "planeThroughIf_projective", "plane_link_projective", "witness_planes_persp",
    "witness_planesM_rot", "witness_planeMul_0", "witness_planeMul_1", "witness_planeMul_2", "witness_planeMul_3",
    "witness_planeMul_4", "witness_planeMul_5", "witness_planeLink",
]
REQUIRED_Z = [
    "DepthToZExc_persp_ok", "DepthToZExc_ortho_ok", "DepthToZExc_persp_error", "DepthToZExc_ortho_error",
    "depthToZp_persp_real_body", "depthToZp_ortho_real_body", "depthToZ_persp_3_10", "depthToZ_ortho_3_10", "zdiffLong_eq",
    "zvalWrapped_inrange", "zvalWrapped_wrap", "zNormalized_inrange", "zNormalized_wrap", "zToDepth_persp_inrange",
    "zToDepth_ortho_inrange", "zToDepth_persp_wrap", "zToDepth_ortho_wrap", "ZToDepth_persp_5_0_10", "ZToDepth_persp_11_0_10",
    "ZToDepth_persp_12_0_10", "ZToDepth_persp_m3_m10_10", "ZToDepth_persp_w32", "ZToDepth_ortho_5_0_10", "ZToDepth_ortho_11_0_10",
    "ZToDepth_ortho_12_0_10", "ZToDepth_ortho_m3_m10_10", "ZToDepth_ortho_w32", "ZToDepth_persp_small_cases",
    "ZToDepth_ortho_small_cases", "depthToZ_operand_persp", "depthToZ_operand_ortho", "depthToZ_zToDepth_persp",
    "depthToZ_zToDepth_ortho", "depthToZ_zToDepth_persp_within_one", "depthToZ_zToDepth_ortho_within_one", "zToDepth_persp_ends",
    "zToDepth_ortho_ends", "witness_zToDepth_24bit", "witness_zToDepth_32bit", "former_narrowing_defect",
]
REQUIRED_CULL = [
    "mulM44_affinePre", "affinePre_mulM44", "isVisiblePoint_persp_world", "isVisiblePoint_ortho_world",
    "isVisibleSphere_persp_touches", "isVisibleSphere_ortho_touches", "isVisibleBox_persp_touches", "isVisibleBox_ortho_touches",
    "completelyContainsSphere_persp_inside", "completelyContainsSphere_ortho_inside", "completelyContainsBox_persp_inside",
    "completelyContainsBox_ortho_inside", "planesM_persp_unit", "planesM_ortho_unit", "planesM_persp_mirrored",
    "planesM_ortho_mirrored", "isVisiblePoint_persp_mirrored", "isVisiblePoint_ortho_mirrored", "witness_planesM_ortho",
    "witness_planesM_persp", "witness_tangent_outside_not_visible", "witness_box_ortho", "witness_sphere_ortho", "witness_point_ortho", "witness_sphere_persp",
    "witness_box_persp", "witness_point_persp", "regionPersp_iff_ndc", "regionOrtho_iff_ndc", "corner_mem_regionPersp",
    "corner_mem_regionOrtho", "planesM_ortho_identity_far_lt_near", "planes_persp_eval_inverted",
]
REQUIRED_MORE = {PROPS_CULL: REQUIRED_CULL, PROPS_LINK: REQUIRED_LINK}
# every theorem except pure helper lemmas (deleting any of them must be noticed)
REQUIRED = [
    "ctor_persp", "ctor_ortho", "set_persp", "set_ortho", "setOrthographic_persp", "setOrthographic_ortho", "degenerate_persp",
    "degenerate_ortho", "projectionMatrix_persp_corners", "projectionMatrix_ortho_corners",
    "projectionMatrix_persp_corners_homog", "projectionMatrix_ortho_corners_homog", "projectPointToScreen_persp",
    "projectPointToScreen_ortho", "localToScreen_screenToLocal", "screenToLocal_localToScreen", "screenToLocal_ortho_eq",
    "localToScreen_ortho_eq", "screenToLocal_corners", "projectScreenToRay_persp_shape", "projectScreenToRay_ortho_shape",
    "projectScreenToRay_persp_projects", "projectScreenToRay_persp_complete", "projectScreenToRay_ortho_projects",
    "projectScreenToRay_ortho_complete", "normalizedZToDepth_persp_depthToZp", "depthToZp_persp_normalizedZToDepth",
    "normalizedZToDepth_persp_defined", "projectionMatrix_persp_depth", "projectionMatrix_persp_normalizedZ",
    "normalizedZToDepth_ortho_depthToZp", "depthToZp_ortho_normalizedZToDepth", "projectionMatrix_ortho_depth",
    "projectionMatrix_ortho_normalizedZ", "normalizedZToDepth_persp_ends", "normalizedZToDepth_ortho_ends",
    "worldRadius_screenRadius", "screenRadius_worldRadius", "screenRadius_ortho_eq", "worldRadius_ortho_eq", "screenRadius_spec",
    "aspect_persp", "aspect_ortho", "fovx_persp", "fovy_persp", "fovx_ortho", "fovy_ortho", "setFov_fovx_form",
    "setFov_fovy_form", "setFov_ortho_eq", "ctorFov_eq", "setFov_fovx_aspect", "setFov_fovy_aspect", "setFov_fovx_fovx",
    "setFov_fovy_fovy", "window_persp", "window_ortho", "window_full", "modifyNearAndFar_ortho", "modifyNearAndFar_persp",
    "planes_persp_struct", "planes_ortho_struct", "planes_ortho_eval", "planes_ortho_region", "planes_ortho_interior",
    "planes_ortho_unit", "planes_persp_eval", "planes_persp_region", "planes_persp_interior", "planes_persp_unit",
    "planesM_persp_struct", "planesM_ortho_struct", "planesM_persp_normals_le_one", "planesM_ortho_normals_le_one",
    "planesM_persp_identity", "planesM_ortho_identity", "setFrustum_persp", "setFrustum_ortho", "isVisiblePoint_persp",
    "isVisiblePoint_ortho", "isVisibleSphere_persp_eq", "isVisibleSphere_ortho_eq", "completelyContainsSphere_persp_eq",
    "completelyContainsSphere_ortho_eq", "isVisibleBox_persp_eq", "isVisibleBox_ortho_eq", "completelyContainsBox_persp_eq",
    "completelyContainsBox_ortho_eq", "isVisibleSphere_persp_false", "isVisibleSphere_ortho_false",
    "completelyContainsSphere_persp_true", "completelyContainsSphere_ortho_true", "isVisibleBox_persp_false",
    "isVisibleBox_ortho_false", "completelyContainsBox_persp_true", "completelyContainsBox_ortho_true",
    "isVisiblePoint_persp_identity", "isVisiblePoint_ortho_identity", "planesM_persp_affine", "planesM_ortho_affine",
    "isVisiblePoint_persp_affine", "isVisiblePoint_ortho_affine", "assign_persp", "assign_ortho", "copyCtor_persp",
    "copyCtor_ortho", "hitherYon_persp", "hitherYon_ortho", "defaultCtor", "eq_persp_persp", "eq_ortho_ortho", "eq_persp_ortho",
    "eq_ortho_persp", "stores_persp", "stores_ortho", "frustumTest_defaultCtor", "V3mulM44_eq", "projectPointToScreen_persp_z0",
    "projectScreenToRay_persp_forward", "projectScreenToRay_ortho_forward", "fovx_setFov", "fovy_setFov", "aspect_setFov_fovx",
    "aspect_setFov_fovy", "witness_projectionMatrix_persp", "witness_projectionMatrix_ortho",
    "witness_projectPointToScreen_depth", "witness_planes_persp_region_real",
]

# theorem-name prefix -> group of the executable specification (c16_corr spec) used to look for a failing input
GROUPS = [("witness_planeLink", "planesM"), ("witness_planeMul", "planesM"), ("plane_link", "planesM"), ("plane_eq", "planesM"), ("planeThroughIf", "planesM"),
          ("triple_projective", "planesM"), ("witness_box", "frustumtest"), ("witness_sphere", "frustumtest"), ("witness_point", "frustumtest"), ("witness_planesM", "planesM|frustumtest"),
          ("assign", "ctor"), ("copyCtor", "ctor"), ("hitherYon", "ctor"), ("defaultCtor", "ctor"), ("eq_", "ctor"), ("stores", "frustumtest"),
          ("frustumTest_defaultCtor", "frustumtest|ctor"), ("V3mulM44", "projectionMatrix"), ("region", "projectionMatrix|planes"),
          ("corner_mem", "planes|projectionMatrix"), ("witness_projectionMatrix", "projectionMatrix"), ("witness_projectPointToScreen", "projectPointToScreen|depth"),
          ("witness_planes", "planes"), ("projectionMatrix", "projectionMatrix|depth"), ("projectPointToScreen", "projectPointToScreen"),
          ("projectScreenToRay", "projectScreenToRay"), ("localToScreen", "screenLocal"), ("screenToLocal", "screenLocal"),
          ("normalizedZToDepth", "depth"), ("depthToZp", "depth"), ("worldRadius", "radius"), ("screenRadius", "radius"),
          ("setFov", "fov"), ("ctorFov", "fov"), ("aspect", "fov"), ("fov", "fov"), ("window", "window"), ("modifyNearAndFar", "modify"),
          ("planesM", "planesM|frustumtest"), ("planes", "planes"), ("setFrustum", "frustumtest"), ("isVisible", "frustumtest"),
          ("completelyContains", "frustumtest"), ("ctor", "ctor"), ("set_", "ctor"), ("setOrthographic", "ctor"), ("degenerate", "ctor")]


def run_spec(chk, binary):
    rc, out = lib.sh([binary, "spec", str(chk.seed)], timeout=600)
    m = re.search(r"C16SPEC evals=(\d+) failures=(\d+)", out)
    fails = [l for l in out.split("\n") if l.startswith("SPECFAIL")]
    return rc, m, fails, out


ZLEAN = """import ImathVerif.Model.FrustumZ
open ImathVerif.FrustumZ
#eval show IO Unit from do
  let s ← IO.FS.readFile "%s"
  let mut out := ""
  for line in s.splitOn "\\n" do
    match line.splitOn " " with
    | ["A", z, zmin, zmax] => out := out ++ protoArgs z.toInt! zmin.toInt! zmax.toInt! ++ "\\n"
    | ["T", num, den, zmin] => out := out ++ protoTail num.toInt! den.toNat! zmin.toInt! ++ "\\n"
    | _ => pure ()
  IO.FS.writeFile "%s" out
"""

# (zmin, zmax): 8/16/24/31-bit z-buffers, signed ranges, and ranges whose width does not fit an `int`
ZRANGES = [(0, 255), (0, 65535), (0, 16777215), (0, 2147483647), (-1000, 1000), (-2147483648, -1), (0, 10), (3, 10),
           (0, 2147483648), (0, 4294967295), (-2147483648, 2147483648), (-2147483648, 2147483647), (7, 7 + 2 ** 40)]


def run_lean_model(chk, lines, name):
    d = lib.ensure_dir(os.path.join(lib.BUILD, "scratch"))
    fin, fout = os.path.join(d, "c16z_%s_%d.in" % (name, os.getpid())), os.path.join(d, "c16z_%s_%d.out" % (name, os.getpid()))
    open(fin, "w").write("\n".join(lines) + "\n")
    if os.path.exists(fout):
        os.remove(fout)
    rc, out = lib.lean_run_file(ZLEAN % (fin, fout), timeout=600, name="c16z_" + name)
    res = open(fout).read().split("\n")[:-1] if os.path.exists(fout) else None
    for f in (fin, fout):
        try:
            os.remove(f)
        except OSError:
            pass
    return rc, out, res


def run_zmodel(chk, binary, small=False):
    """Integer depth mapping: the Lean machine-integer model (Model/FrustumZ.lean) is EVALUATED; its integers drive the exact
    comparison with the real ZToDepth, its tail is run on the operand of the real DepthToZ's cast.
    small=True: EXHAUSTIVE over all zmin <= zmax in [-8, 8] and all z in [zmin - 20, zmax + 20] (zmin = zmax included: division by zero on both
    sides), two frusta (perspective, orthographic) x float, double, one depth per case."""
    rng = chk.rng
    triples = []
    if small:
        for zmin in range(-8, 9):
            for zmax in range(zmin, 9):
                triples += [(z, zmin, zmax) for z in range(zmin - 20, zmax + 21)]
    else:
        for zmin, zmax in ZRANGES:
            w = zmax - zmin
            zs = [zmin, zmin + 1, zmin + w // 2, zmax - 1, zmax, zmax + 1, zmax + 2, zmax + w // 2, zmax + w, zmax + w + 1, zmax + w + 2,
                  zmin - 1, zmin - w // 3]
            zs += [rng.randint(zmin, zmax) for _ in range(3)] + [rng.randint(zmax + 2, zmax + w + 1) for _ in range(2)]
            triples += [(z, zmin, zmax) for z in zs]
    rc, out, res = run_lean_model(chk, ["A %d %d %d" % t for t in triples], "args")
    name = (("H:zmodel-small: EXHAUSTIVE over all %d triples (z, zmin, zmax) with zmin <= zmax in [-8, 8], z in [zmin - 20, zmax + 20]: " % len(triples)
             if small else "H:zmodel: ") +
            "ZToDepth = normalizedZToDepth of the Lean model's machine integers (long zdiff, wrap above zmax + 1), bitwise; "
            "DepthToZ = Lean tail long (x) + zmin on the real operand; float and double")
    if rc != 0 or res is None or len(res) != len(triples):
        chk.oblige(name, "correspondence", False, out[-600:])
        chk.fail("H:zmodel", "c16_corr:zmodel:lean-run", "the Lean model of the integer prologue could not be evaluated", {"output": out[-1500:]}, False)
        return
    d = lib.ensure_dir(os.path.join(lib.BUILD, "scratch"))
    argsf = os.path.join(d, "c16z_cases_%d.txt" % os.getpid())
    open(argsf, "w").write("\n".join(res) + "\n")
    rc, out = lib.sh([binary, "zmodel", str(chk.seed), argsf] + (["2", "1"] if small else []), timeout=900)
    os.remove(argsf)
    m = re.search(r"C16Z cases=(\d+) evals=(\d+) judged=(\d+) wide_judged=(\d+) wrap_judged=(\d+) tails=(\d+) failures=(\d+)", out)
    fails = [l for l in out.split("\n") if l.startswith("C16Z-FAIL")]
    keys = dict((a, int(b)) for a, b in re.findall(r"C16ZKEY (\S+) (\d+)", out))
    # Lean tail on the real operands
    tails = [l.split() for l in out.split("\n") if l.startswith("ZT ")]
    tl = []
    for t in tails:
        num, den = float.fromhex(t[2]).as_integer_ratio()
        tl.append("T %d %d %s" % (num, den, t[3]))
    rc2, out2, res2 = run_lean_model(chk, tl, "tail") if tl else (0, "", [])
    tail_bad = []
    if rc2 != 0 or res2 is None or len(res2) != len(tails):
        tail_bad = ["lean tail run failed: " + out2[-300:]]
    else:
        for t, r in zip(tails, res2):
            if int(r) != int(t[4]):
                tail_bad.append("%s: operand x=%s (=%r) zmin=%s: real DepthToZ=%s, Lean long(x)+zmin=%s" % (t[1], t[2], float.fromhex(t[2]), t[3], t[4], r))
    hfail = [l for l in fails if l.split()[1].startswith("H:")]
    sfails = [l for l in fails if not l.split()[1].startswith("H:")]
    okrun = rc in (0, 1) and m is not None
    chk.oblige(name, "correspondence", okrun and not hfail and not tail_bad, (hfail + tail_bad)[:5] or (None if okrun else out[-400:]))
    chk.oblige(("spec:ZToDepth-small: the same exhaustive small sweep: " if small else "spec:ZToDepth: ") +
               "value = depth of the normalised position in [zmin, zmax] (long double, `long` width; z > zmax + 1 wraps by zmax - zmin)" +
               ("" if small else ", ranges up to 2^40 wide"), "correspondence", okrun and not sfails, sfails[:5] or None)
    if m:
        chk.count(int(m.group(2)) + int(m.group(6)), int(m.group(3)) + int(m.group(6)))
        chk.extra["zmodel_small_exhaustive" if small else "zmodel"] = {"integer_triples": len(triples), "ZToDepth_exact_comparisons": int(m.group(2)), "judged_against_expectation": int(m.group(3)),
                               "of_which_range_ge_2^31": int(m.group(4)), "of_which_wrapped": int(m.group(5)), "DepthToZ_tail_comparisons": int(m.group(6)),
                               "negative_operands": sum(1 for t in tails if float.fromhex(t[2]) < 0), "failure_keys": keys}
        for a, b in re.findall(r"C16MAX (\S+) (\S+)", out):
            chk.residues.setdefault("C16Z", {})[a + (":small" if small else "")] = float(b)
    seen = set()
    for l in fails:
        key = l.split()[1]
        if key in seen:
            continue
        seen.add(key)
        chk.fail(("correspondence:" if key.startswith("H:") else "spec:") + key, "c16_corr:" + key,
                 ("real ZToDepth disagrees with the Lean machine-integer model: " if key.startswith("H:") else
                  "real ZToDepth is not the depth of the normalised z-buffer value: ") + key,
                 {"line": l[:900], "replay_cmd": "c16_corr zmodel %d <file written by the Lean model>" % chk.seed}, True)
    for b in tail_bad[:1]:
        chk.fail("correspondence:H:zmodel:DepthToZ-tail", "c16_corr:H:zmodel:DepthToZ-tail", "real DepthToZ disagrees with the Lean tail long (x) + zmin",
                 {"case": b, "more": tail_bad[1:5]}, True)
    if not okrun:
        chk.fail("H:zmodel", "c16_corr:zmodel:run", "zmodel harness did not run", {"output": out[-1500:]}, False)


# ---------------------------------------------------------------------------
# C++-side TV on DIRECTED inputs with a leaf-coverage obligation (audit r2 N1): troute.tv draws unstructured inputs, which reach 143 of the
# 300 leaves of the 27 branching trees (never e.g. the empty-box exits along y or z only, or the 7th comparison of operator==).
# `sym_c16 tvin` validates the inputs below at double and float and reports the leaves reached and, recomputed from the CURRENT tree, the
# number of paths on which `length (literal non-zero vector) == 0` is true (unreachable).  The remaining unreachable leaves are counted
# by an INDEPENDENT enumeration of the decisions, written from the source (not from the tree):
#   planes (p), perspective: the four side cross products vanish iff  top: r=l or (n=0 and t=0); bottom: r=l or (n=0 and b=0);
#       right: t=b or (n=0 and r=0); left: t=b or (n=0 and l=0)                       -> 12 reachable patterns of 16;
#   modifyNearAndFar, perspective: |(l,b,-n)| = 0 iff l=b=n=0; |(r,t,-n)| = 0 iff r=t=n=0; both `normal . dir == 0` tests hold iff n = 0
#       -> 5 reachable patterns of 16;
#   projectScreenToRay, orthographic: the direction is (x - x, y - y, -1): its length is never 0 -> 1 of 2.
import itertools
def tvin_inputs(rng):
    L = []
    add = lambda fn, vals: L.append(fn + " " + " ".join(v if isinstance(v, str) else repr(float(v)) for v in vals))
    ID = [1,0,0,0, 0,1,0,0, 0,0,1,0, 0,0,0,1]
    for k in ("persp", "ortho"):
        for fr in ((1,1,0,1,1,0), (1,2,3,3,1,0), (1,2,0,1,5,5), (1,2,0,1,1,0)):
            add("Frustum.degenerate_" + k, fr)
        for fovx in (0, 0.5):
            add("Frustum.setFov_" + k, (1,2,0,1,1,0, 1, 10, fovx, 0.75, 1.5))
    for fovx in (0, 0.5):
        add("Frustum.ctorFov", (1, 10, fovx, 0.75, 1.5))
    base = [1, 2, -3, 4, 5, -6]
    for id_ in ("persp_persp", "ortho_ortho", "persp_ortho", "ortho_persp"):
        add("Frustum.eq_" + id_, base + base)
        for q in range(6):
            other = list(base); other[q] += 1
            add("Frustum.eq_" + id_, base + other)
    for (n, f, d) in (("1e200", "1e150", "1e-200"), (0.25, 0.25, 0.5), (0.25, 0.75, 0.5), (1, 3, 0.5), (0.25, 0.25, 2), (0.25, 0.75, 2), (1, 3, 2)):
        add("Frustum.DepthToZExc_persp_3_10", (n, f, -1, 1, 1, -1, d))
    for (n, f, d) in ((0.25, 0.25, 1), (0.25, 0.75, 1), (1, 3, 1)):
        add("Frustum.DepthToZExc_ortho_3_10", (n, f, -1, 1, 1, -1, d))
    add("Frustum.projectScreenToRay_persp", (0, 2, 0, 0, 0, 0, 0.25, -0.5))
    add("Frustum.projectScreenToRay_persp", (1, 2, -1, 2, 3, -1, 0.25, -0.5))
    add("Frustum.projectScreenToRay_ortho", (1, 2, -1, 2, 3, -1, 0.25, -0.5))
    add("Frustum.projectScreenToRay_ortho", (0, 2, 0, 0, 0, 0, 0, 0))
    add("Frustum.projectPointToScreen_persp", (1, 2, -1, 2, 3, -1, 1, 2, 0))
    add("Frustum.projectPointToScreen_persp", (1, 2, -1, 2, 3, -1, 1, 2, -3))
    # planes (p) and modifyNearAndFar: lattice with zeros (zero-length cross products / rays)
    for (n, l, r, t, b) in itertools.product((0, 1), (0, 1, 2), (0, 1, 2), (0, 1, 2), (0, 1, 2)):
        add("Frustum.planes_persp", (n, 3, l, r, t, b))
        add("Frustum.modifyNearAndFar_persp", (n, 3, l, r, t, b, rng.choice((0, 2)), 5))
    add("Frustum.planes_ortho", (1, 2, 0, 1, 1, 0))
    add("Frustum.planes_ortho", (0, 0, 0, 0, 0, 0))
    # FrustumTest: identity camera; objects beyond exactly one plane (the i-th), inside, and (boxes) empty along exactly one axis
    frs = {"persp": ((1, 2, -1, 1, 1, -1), [(0, 3, -1.5), (3, 0, -1.5), (0, -3, -1.5), (-3, 0, -1.5), (0, 0, -0.5), (0, 0, -3), (0, 0, -1.5)]),
           "ortho": ((1, 2, 0, 1, 1, 0), [(0.5, 2, -1.5), (2, 0.5, -1.5), (0.5, -1, -1.5), (-1, 0.5, -1.5), (0.5, 0.5, -0.5), (0.5, 0.5, -3), (0.5, 0.5, -1.5)])}
    for k, (fr, pts) in frs.items():
        for p in pts:
            add("FrustumTest.isVisiblePoint_" + k, list(fr) + ID + list(p))
            for rad in (0.0625,):
                add("FrustumTest.isVisibleSphere_" + k, list(fr) + ID + list(p) + [rad])
                add("FrustumTest.completelyContainsSphere_" + k, list(fr) + ID + list(p) + [rad])
            h = 0.0625
            bx = [p[0] - h, p[1] - h, p[2] - h, p[0] + h, p[1] + h, p[2] + h]
            for fn in ("isVisibleBox_", "completelyContainsBox_"):
                add("FrustumTest." + fn + k, list(fr) + ID + bx)
        for ax in range(3):
            bx = [0.25, 0.25, -1.75, 0.75, 0.75, -1.25]
            bx[ax], bx[ax + 3] = bx[ax + 3], bx[ax]
            for fn in ("isVisibleBox_", "completelyContainsBox_"):
                add("FrustumTest." + fn + k, list(fr) + ID + bx)
    return L


def _reachable_by_source():
    lat = list(itertools.product((0, 1), (0, 1, 2), (0, 1, 2), (0, 1, 2), (0, 1, 2)))
    planes = set((r == l or (n == 0 and t == 0), t == b or (n == 0 and r == 0), r == l or (n == 0 and b == 0), t == b or (n == 0 and l == 0))
                 for (n, l, r, t, b) in lat)
    mod = set((l == 0 and b == 0 and n == 0, r == 0 and t == 0 and n == 0, n == 0, n == 0) for (n, l, r, t, b) in lat)
    return {"Frustum.planes_persp": len(planes), "Frustum.modifyNearAndFar_persp": len(mod), "Frustum.projectScreenToRay_ortho": 1}


def structured_tv(chk, binary, idx_deps):
    import random
    lines = tvin_inputs(random.Random(chk.seed * 7919 + 16))
    cmd = [binary, "tvin"]
    for d in idx_deps:
        cmd += ["--idx", d]
    rc, out = lib.sh(cmd, timeout=900, stdin="\n".join(lines) + "\n")
    m = re.search(r"TVIN evaluations=(\d+) failures=(\d+)", out)
    sums = dict((mm.group(1), {"inputs": int(mm.group(2)), "hit": int(mm.group(3)), "paths": int(mm.group(4)), "unreach_literal_length": int(mm.group(5))})
                for mm in re.finditer(r"TVINSUM (\S+) inputs=(\d+) hit=(\d+) paths=(\d+) unreach_literal_length=(\d+)", out))
    fails = [l for l in out.split("\n") if l.startswith("TVFAIL") or l.startswith("TVINERR")]
    unlisted = re.findall(r"TVINUNLISTED (\S+) paths=(\d+)", out)
    ok = m is not None and int(m.group(2)) == 0 and not fails
    chk.oblige("tv:c16:directed: extracted trees = real instantiations, bitwise, on %d directed inputs (boxes empty along exactly one axis, frusta equal "
               "except in one field, objects beyond exactly one plane, zero-length rays / cross products, fired overflow guards of DepthToZExc)" % len(lines),
               "translation-validation", ok, None if ok else (fails[:5] or out[-500:]))
    if m:
        chk.count(int(m.group(1)), int(m.group(1)))
    for l in fails[:10]:
        mm = re.match(r"TVFAIL (\S+) (\S+) :: (.*?) :: in=(.*)", l)
        if mm:
            chk.fail("tv:c16:directed", "tv:%s:%s" % (mm.group(2), mm.group(1)),
                     "extracted model of %s disagrees with the real instantiation at %s on a directed input" % (mm.group(2), mm.group(1)),
                     {"function": mm.group(2), "element_type": mm.group(1), "detail": mm.group(3), "input": mm.group(4).split()}, True)
    if not ok and not [l for l in fails if l.startswith("TVFAIL")]:
        chk.fail("tv:c16:directed", "tv:c16:directed", "directed translator validation did not run to completion", {"output": out[-1500:]}, False)
    src = _reachable_by_source()
    short = {}
    for fn, v in sums.items():
        cand = v["paths"] - v["unreach_literal_length"]
        expect = src.get(fn, cand)
        if expect > cand or v["hit"] != expect:
            short[fn] = {"hit": v["hit"], "expected_reachable": expect, "paths": v["paths"], "unreachable_by_literal_length_rule": v["unreach_literal_length"]}
    okc = bool(sums) and not short and not unlisted
    tot_hit, tot_paths = sum(v["hit"] for v in sums.values()), sum(v["paths"] for v in sums.values())
    chk.oblige("tv:c16:leaves: every REACHABLE leaf of the %d branching trees is compared bitwise with the real code (%d of %d leaves; the other %d need "
               "length (non-zero literal) == 0 [recomputed from the tree] or an impossible pattern of zero lengths [enumerated from the source])"
               % (len(sums), tot_hit, tot_paths, tot_paths - tot_hit), "translation-validation", okc, None if okc else {"short": short, "unlisted_trees": unlisted})
    if not okc:
        chk.fail("tv:c16:leaves", "tv:c16:leaf-coverage", "the directed TV inputs do not reach every reachable leaf of the extracted trees, or a branching entry is "
                 "missing from the tvin table of sym_c16.cpp (the tree changed shape: extend tvin_inputs in tools/props/c16.py)",
                 {"short": short, "unlisted_trees": unlisted}, False)
    chk.extra.setdefault("tv", {})["c16_directed"] = {"inputs": len(lines), "leaves_hit": tot_hit, "leaves": tot_paths,
                                                     "per_tree[hit, paths, unreachable_literal_length]": dict((k, [v["hit"], v["paths"], v["unreach_literal_length"]]) for k, v in sorted(sums.items())),
                                                     "reachable_patterns_enumerated_from_source": src}


def run_ft_lattice(chk, binary):
    """Lean TEXT of the FrustumTest entries (Gen/C16Test.lean calling Gen/C16PlanesM.lean and Gen/Leaf.lean: the entries the Rat-side
    translator validation skips) evaluated at Rat == the REAL FrustumTest<double> on an exact dyadic lattice."""
    from fractions import Fraction
    name = ("lean-real:FrustumTest: generated Lean definitions evaluated at Rat (sqrt := id, unit-cube orthographic frustum, signed-permutation "
            "cameras with dyadic translation) = real FrustumTest<double>, all five queries, exact")
    rc, out = lib.sh([binary, "ftlattice", str(chk.seed)], timeout=300)
    q = lambda h: "(%s : Rat)" % (lambda f: ("(%d)" % f.numerator) if f.denominator == 1 else "((%d) / %d)" % (f.numerator, f.denominator))(Fraction(float.fromhex(h)))
    cams, cur = [], None
    for l in out.split("\n"):
        w = l.split()
        if l.startswith("FTL-CAM") and len(w) == 17:
            cur = {"M": "(⟨" + ", ".join(q(x) for x in w[1:]) + "⟩ : M44 Rat)", "objs": [], "raw": l}
            cams.append(cur)
        elif l.startswith("FTL-OBJ") and cur is not None and len(w) == 16:
            cur["objs"].append(w[1:])
    nobj = sum(len(c["objs"]) for c in cams)
    if rc != 0 or not nobj:
        chk.oblige(name, "correspondence", False, out[-400:])
        chk.fail("lean-real:FrustumTest", "c16_corr:ftlattice:run", "lattice harness did not run", {"output": out[-1000:]}, False)
        return
    lines = ["import ImathVerif.Gen.C16Test", "open ImathVerif ImathVerif.Gen",
             "def b2s (b : Bool) : String := if b then \"1\" else \"0\"",
             "def ftAll (M : M44 Rat) (o : V3 Rat × Sphere3 Rat × Box3 Rat) : String :=",
             "  b2s (FrustumTest.isVisiblePoint_ortho (0 : Rat) 1000000 id 1 2 0 1 1 0 M o.1) ++ b2s (FrustumTest.isVisibleSphere_ortho (0 : Rat) 1000000 id 1 2 0 1 1 0 M o.2.1) ++",
             "  b2s (FrustumTest.isVisibleBox_ortho (0 : Rat) 1000000 id 1 2 0 1 1 0 M o.2.2) ++ b2s (FrustumTest.completelyContainsSphere_ortho (0 : Rat) 1000000 id 1 2 0 1 1 0 M o.2.1) ++",
             "  b2s (FrustumTest.completelyContainsBox_ortho (0 : Rat) 1000000 id 1 2 0 1 1 0 M o.2.2)"]
    for i, c in enumerate(cams):
        objs = ["((⟨%s, %s, %s⟩ : V3 Rat), (⟨⟨%s, %s, %s⟩, %s⟩ : Sphere3 Rat), (⟨⟨%s, %s, %s⟩, ⟨%s, %s, %s⟩⟩ : Box3 Rat))"
                % tuple(q(x) for x in (o[0], o[1], o[2], o[0], o[1], o[2], o[3], o[4], o[5], o[6], o[7], o[8], o[9])) for o in c["objs"]]
        lines.append("#eval IO.println (\"FTLEAN %d \" ++ String.intercalate \",\" ([%s].map (ftAll %s)))" % (i, ", ".join(objs), c["M"]))
    rcl, lout = lib.lean_run_file("\n".join(lines) + "\n", timeout=900, name="c16ft")
    got = dict((int(m.group(1)), m.group(2).split(",")) for m in re.finditer(r"FTLEAN (\d+) (\S+)", lout))
    bad, dist = [], {}
    for i, c in enumerate(cams):
        g = got.get(i)
        for j, o in enumerate(c["objs"]):
            real = "".join(o[10:15])
            dist[real] = dist.get(real, 0) + 1
            if g is None or j >= len(g) or g[j] != real:
                bad.append({"camera_matrix_hex": c["raw"][8:], "object_hex(point/centre, radius, box min, box max)": " ".join(o[:10]),
                            "real_code(isVisible point, sphere, box; completelyContains sphere, box)": real,
                            "generated_Lean_at_Rat": (g[j] if g is not None and j < len(g) else "not evaluated: " + lout[-300:])})
    chk.oblige(name, "correspondence", not bad, bad[:3] or None)
    chk.count(5 * nobj, 5 * nobj)
    chk.extra["ft_lattice"] = {"cameras": len(cams), "objects": nobj, "answer_patterns(point,sphere,box,containsSphere,containsBox)": dist}
    if bad:
        chk.fail("lean-real:FrustumTest", "c16_corr:ftlattice:lean-vs-real", "the generated Lean definitions of FrustumTest, evaluated exactly, disagree with "
                 "the real FrustumTest<double> on an exact input (emitted text / opaque call wiring / hand transcript of planes (p, M))", bad[0], True)


def run(chk):
    chk.trusted = ["Lean 4.33 kernel; axioms propext/Classical.choice/Quot.sound at most; Mathlib (ordered fields, Real.sqrt, Real.arctan)",
                   "translator harness/sym, validated on every run: TV bitwise at float and double, emitted Lean text at Rat (entries without opaque calls); "
                   "for the FrustumTest entries (opaque planes (p, M)) the emitted Lean text is evaluated at Rat against the REAL FrustumTest<double> on an exact lattice",
                   "hand transcript harness/sym/c16_hand.h of planes (p, M): ONE template with the type of the far-corner scale as a parameter; the instantiation with the "
                   "source's `double` at the cast points is compared BITWISE with the real planes (p, M) at float and double on every run; the extracted instantiation "
                   "(casts = identities, the only one a symbolic scalar can run) is bitwise TV'd at double and differs from the real float body only by that rounding "
                   "(measured: normals and distance within 32 eps k).  The transcript of DepthToZ's Zp is no longer trusted: it is PROVED equal to the "
                   "operand of the real body's long (…) cast (Gen.Frustum.DepthToZ_*_3_10, extracted with sym.h's recording `operator long`, TV at double with a "
                   "recording double wrapper harness/sym/sym_c16.cpp C16CapD, itself compared with Frustum<double>::DepthToZ on every TV input)",
                   "hand model lean/ImathVerif/Model/FrustumZ.lean of the machine-integer prologue / epilogue of ZToDepth / DepthToZ (LP64, wrapping long, modular "
                   "long arithmetic): EVALUATED on every run, its integers drive the bitwise comparison with the real ZToDepth; T-route theorems at concrete integer triples",
                   "Spec/FrustumSpec.lean (regions, plane equation, LenSpec); regions cross-validated against the projection matrix (regionPersp/Ortho_iff_ndc); "
                   "long double evaluation as the oracle of the measured residue"]
    chk.assumptions = ["Vec3::length is an opaque call: theorems that depend on normalisation assume LenSpec (Gen.V3.length tmin tmax sqrt) "
                       "(>= 0, squares to x^2+y^2+z^2); shown for the extracted 129-path length over R with Real.sqrt (lenSpec_real)",
                       "atan2/tan enter set(fov)/fovx/fovy as parameters with the hypotheses atan2 (n tan h) n = h at h = +-fov/2 "
                       "(example over R: arctan (y/x), x > 0, |h| < pi/2); no theorem identifies atan2 with Complex.arg",
                       "NON-DEGENERATE is read as: projection half (corners, projectPointToScreen, rays, depth, radii, window, fov): near != far, l != r, b != t "
                       "(near, far != 0 for perspective); planes / culling half: l < r, b < t, 0 < near (perspective; and near < far where stated), near < far "
                       "(orthographic planes (p, M)).  Outside: recorded by theorems planes_persp_eval_inverted (inverted window: side normals inward) and "
                       "planesM_ortho_identity_far_lt_near (the two overloads disagree on the side planes)",
                       "TOUCHES is read as: the object contains the image of a point of the OPEN frustum (the property's own phrase for the point query is "
                       "'membership in the interior of that region', and FrustumTest tests `>= 0`): closed tangency from outside is reported NOT visible "
                       "(negative witness witness_tangent_outside_not_visible), tangency from inside is NOT completely contained",
                       "CAMERA MATRICES are affine (last column 0,0,0,1) with det3 > 0: rigid, uniform and non-uniform positive scale, shear.  EXPLICIT EXCLUSION "
                       "(decided by the property owner; the quantifier 'all camera matrices (rigid and scaled)' is read as orientation preserving: a rigid motion "
                       "and a positive scale; a reflection is neither): mirrored M (det3 < 0) — proved: all six normals of planes (p, M) then point "
                       "INTO the frustum and FrustumTest::isVisible (point) is false for every point (planesM_*_mirrored, isVisiblePoint_*_mirrored); the real code "
                       "is measured to behave exactly so (obligation mirrored).  planes (p, M) = Plane3::operator* (M) (C15's regenerated Gen.Plane3.mulM44) applied to planes (p), "
                       "plane by plane, normal and distance, for every affine M with det3 != 0 (Props/C16PlaneLink.lean; C15's Gen modules are regenerated and "
                       "Plane3.mulM44 is TV'd in this run).  Projective M: only the pointwise proportionality plane_link_projective (w != 0 on the construction "
                       "points; the side can differ by the sign of the product of those w)",
                       "ZToDepth / DepthToZ: proved mutually inverse on [zmin, zmax] over an ordered field for every range whose width fits a long, with a "
                       "cast that is exact on integers; all rounding is measured (round trip within +-1 plus an allowance).  The defect found by this check "
                       "(ZToDepth narrowed zmax - zmin to int: wrong depths for ranges >= 2^31 wide, e.g. a 32-bit z-buffer; key "
                       "c16_corr:ZToDepth:zrange-ge-2^31) is FIXED in /repo (6489c36); its inputs stay in the zmodel sweep and as theorems "
                       "(ZToDepth_*_w32, witness_zToDepth_32bit; former_narrowing_defect records what the old code computed)",
                       "the former finding planesM:float:far-plane-normal-overflow is FIXED in /repo (16a5ca8, Vec length() takes the scaled path on overflow); "
                       "its input is kept as the full-strength obligation probe:far-plane, which must pass; the residue sweep has no domain exclusion",
                       "Exc spellings (setExc, ZToDepthExc, DepthToZExc, ...): C07 (pair agreement); Frustum<T>() default near plane is T (0.1): the extracted literal "
                       "is the double nearest 1/10 (at float the real value is 0.1f)"]
    chk.rule = ("theorems: all frusta/points/matrices over any ordered field under the hypotheses listed in assumptions; culling theorems conclude about the "
                "FRUSTUM region (composition with planesM_*_affine) and are accompanied by evaluated witnesses with both answers (Rat; exact ties on "
                "axis and slanted planes). TV: structured inputs incl. zeros, signed zeros, extremes. c16_corr: frusta with near over 6 decades, far/near in "
                "{1.001 … 1e6}, asymmetric/off-axis windows, both kinds, float and double; random rigid+uniform-scale cameras (culling: 2/3 signed "
                "permutations, 1/3 general rotations; the judged share is obliged); objects on, across (+-1/2 size) and beside (+-1.5, +-3 size) each of the six planes; ambiguous "
                "(within the rounding margin of a boundary) cases are counted, not judged. zmodel-small: EXHAUSTIVE over zmin <= zmax in [-8,8], z in [zmin-20, zmax+20] (7,089 triples) x 2 frusta x 2 types. "
                "tv:c16:directed: directed inputs reaching every reachable leaf of the 27 branching trees. zmodel: 13 z-ranges (8…40 bits wide, signed, non-int widths) x "
                "{ends, mid, zmax+1, zmax+2, wrap region, below zmin, random} x 16 frusta x 2 types. spec: 240 dyadic lattice frusta (+24 inverted / "
                "negative-near ones for the projection half), exact ties for >= against >")
    bins = troute.build_extractors(chk, [dict(name="sym_leaf", source="sym/sym_leaf.cpp"),
                                         dict(name="sym_c16m", source="sym/sym_c16m.cpp"),
                                         dict(name="sym_c16", source="sym/sym_c16.cpp"),
                                         # C15's extractors: Gen.Plane3.mulM44 / setPoints (Props/C16PlaneLink.lean) come from the CURRENT tree in a C16-only run too
                                         dict(name="sym_c15", source="sym/sym_c15.cpp"), dict(name="sym_c15b", source="sym/sym_c15b.cpp"),
                                         dict(name="c16_corr", source="corr/c16_corr.cpp")])
    leaf_idx = os.path.join(troute.GEN, "index_leaf.txt")
    m_idx = os.path.join(troute.GEN, "index_c16m.txt")
    ok_gen = all(bins.get(k) for k in ("sym_leaf", "sym_c16m", "sym_c16"))
    if ok_gen:
        troute.regenerate(chk, bins["sym_leaf"], "leaf")
        idx_m, _ = troute.regenerate(chk, bins["sym_c16m"], "c16m", idx_deps=[leaf_idx])
        index, _ = troute.regenerate(chk, bins["sym_c16"], "c16", idx_deps=[leaf_idx, m_idx])
        if bins.get("sym_c15") and bins.get("sym_c15b"):
            c15_idx = os.path.join(troute.GEN, "index_c15.txt")
            troute.regenerate(chk, bins["sym_c15"], "c15", idx_deps=[leaf_idx])
            troute.regenerate(chk, bins["sym_c15b"], "c15b", idx_deps=[leaf_idx, c15_idx])
            troute.tv(chk, bins["sym_c15b"], "c15b", 200 if chk.thorough else 64, idx_deps=[leaf_idx, c15_idx])   # Plane3::operator* (M44): tree = real, bitwise
        ntv = 600 if chk.thorough else 100
        # H-route correspondence of the transcript: bitwise at double against the REAL planes (p, M)
        troute.tv(chk, bins["sym_c16m"], "c16m", ntv, idx_deps=[leaf_idx])
        troute.tv(chk, bins["sym_c16"], "c16", ntv, idx_deps=[leaf_idx, m_idx])
        structured_tv(chk, bins["sym_c16"], [leaf_idx, m_idx])
        troute.lean_tv(chk, bins["sym_c16m"], "c16m", idx_m, n=6 if chk.thorough else 2, idx_deps=[leaf_idx])
        troute.lean_tv(chk, bins["sym_c16"], "c16", index, n=6 if chk.thorough else 2, idx_deps=[leaf_idx, m_idx])
        for d in index[:6]:
            chk.sample({"entry": d["name"], "paths": d.get("paths")})

    spec_cache = {}

    def search(name):
        """failing input for a broken theorem: evaluate the executable specification of its group on the real code"""
        if not bins.get("c16_corr"):
            return None
        if "spec" not in spec_cache:
            spec_cache["spec"] = run_spec(chk, bins["c16_corr"])
        rc, m, fails, out = spec_cache["spec"]
        groups = None
        for pre, g in GROUPS:
            if name.startswith(pre):
                groups = g.split("|")
                break
        if not groups:
            return None
        for l in fails:
            parts = l.split(" ", 2)
            if len(parts) >= 3 and parts[1] in groups:
                return {"key": "theorem:" + name, "relation_group": parts[1], "failing_input_on_real_code_at_double": parts[2][:600],
                        "replay_cmd": "%s spec %d" % (os.path.relpath(bins["c16_corr"], lib.VERIF), chk.seed)}
        return None

    zcache = {}

    def search_z(name):
        """broken theorem about the integer depth mapping: the zmodel correspondence / the depth relations of the specification"""
        if not bins.get("c16_corr"):
            return None
        if "z" not in zcache:
            sub = lib.Check("C16", tier=chk.tier, seed=chk.seed)
            run_zmodel(sub, bins["c16_corr"])
            zcache["z"] = list(sub.failures)
        for f in zcache["z"]:
            return {"key": "theorem:" + name, "failing_input_on_real_code": f.get("replay"), "what": f.get("what")}
        return search("depthToZp_" + name)

    if ok_gen:
        chk.check_theorems(PROPS, required=REQUIRED, search=search)
        chk.check_theorems(PROPS_Z, required=REQUIRED_Z, search=search_z)
        for mod in PROPS_MORE:
            chk.check_theorems(mod, required=REQUIRED_MORE.get(mod, []), search=search)
    if bins.get("c16_corr") and ok_gen:
        run_zmodel(chk, bins["c16_corr"])
        run_zmodel(chk, bins["c16_corr"], small=True)
        run_ft_lattice(chk, bins["c16_corr"])

    if bins.get("c16_corr"):
        # executable specification on the real code (second tie, exact-arithmetic relations incl. the >= ties)
        rc, m, fails, out = spec_cache.get("spec") or run_spec(chk, bins["c16_corr"])
        ok = rc == 0 and m is not None and int(m.group(2)) == 0
        chk.oblige("spec: real code satisfies the proved relations on lattice frusta (double, ties exact)", "correspondence", ok,
                   None if ok else (fails[:5] or out[-400:]))
        if m:
            chk.count(int(m.group(1)), int(m.group(1)))
        seen = set()
        for l in fails:
            parts = l.split(" ", 2)
            if len(parts) >= 3 and parts[1] not in seen:
                seen.add(parts[1])
                chk.fail("spec:" + parts[1], "c16_corr:spec:" + parts[1],
                         "the real code violates the specified relation '%s' on a concrete frustum" % parts[1],
                         {"input_and_observed": parts[2][:800], "replay_cmd": "c16_corr spec %d" % chk.seed}, True)
        if not ok and not fails:
            chk.fail("spec", "c16_corr:spec:run", "specification harness did not run", {"output": out[-1500:]}, False)

        # correspondence (hand models) + residue
        n = 2000 if chk.thorough else 300
        rc, out = lib.sh([bins["c16_corr"], str(chk.seed), str(n)], timeout=3000)
        m = re.search(r"C16CORR evals=(\d+) failures=(\d+)", out)
        fl = [l for l in out.split("\n") if l.startswith("C16CORR-FAIL")]
        hits = dict((a, int(b)) for a, b in re.findall(r"C16HIT (\S+) (\d+)", out))
        maxima = dict((a, float(b)) for a, b in re.findall(r"C16MAX (\S+) (\S+)", out))
        hfail = [l for l in fl if l.split()[1].startswith("H:") and not l.split()[1].startswith("H:planesM:cast-faithful")]
        mfail = [l for l in fl if l.split()[1].startswith("mirroredM:")]
        rfail = [l for l in fl if not l.split()[1].startswith("H:") and not l.split()[1].startswith("mirroredM:")]
        okrun = rc in (0, 1) and m is not None
        chk.oblige("H-route: DepthToZ/ZToDepth = transcript formulas exactly; planes(p,M) = transcript (double bitwise, float normals and distance to rounding)",
                   "correspondence", okrun and not hfail, hfail[:5] or None)
        # the transcript of planes (p, M) with the far-corner scale in double AS THE SOURCE WRITES IT = the real code, bit for bit, float and double
        cfail = [l for l in fl if l.split()[1].startswith("H:planesM:cast-faithful")]
        ncf = dict((t, hits.get("H:planesM:cast-faithful:" + t, 0)) for t in ("float", "double"))
        chk.oblige("H-route: planes (p, M) = the transcript instantiated with `double` at the source's cast points (c16_planesM<T, double>), BITWISE, at float "
                   "(%d planes) and double (%d planes); the extracted instantiation (casts = identities) differs from it at float in %d planes of this run"
                   % (ncf["float"], ncf["double"], hits.get("info:planesM:float:double-scale_changes_the_bits", 0)),
                   "correspondence", okrun and not cfail and min(ncf.values()) > 0, cfail[:5] or None)
        # judged share of the culling cases (a harness / environment change that turns most cases "ambiguous" must not stay green); 1/7 of the
        # point cases sit exactly on a plane by design
        ms = re.search(r"C16MARGINSCALE (\S+)", out)
        scale = ms.group(1) if ms else "?"
        floors = {("point", "float"): 0.65, ("point", "double"): 0.85, ("sphere", "float"): 0.78, ("sphere", "double"): 0.95,
                  ("box", "float"): 0.78, ("box", "double"): 0.95}
        shares, low = {}, {}
        for (q, t), fl_ in floors.items():
            tot = hits.get("cull:%s:%s" % (q, t), 0)
            amb = hits.get("cull:%s:ambiguous:%s" % (q, t), 0)
            sh = (tot - amb) / tot if tot else 0.0
            shares["%s:%s" % (q, t)] = round(sh, 4)
            if sh < fl_:
                low["%s:%s" % (q, t)] = {"judged_share": round(sh, 4), "floor": fl_, "cases": tot}
        okj = okrun and not low and scale == "1" and not os.environ.get("C16_MARGIN_SCALE")
        chk.oblige("cull:judged-share: the share of culling cases that is JUDGED (not within the rounding margin of a boundary) is at least "
                   "65 % (float points; 1/7 lie on a plane by design), 78 % (float spheres, boxes), 85 % / 95 % (double); margin scale = 1 "
                   "(environment variable C16_MARGIN_SCALE not set)", "residue", okj, None if okj else {"low": low, "C16_MARGIN_SCALE": scale})
        chk.residues.setdefault("C16", {})["judged_share_of_culling_cases"] = shares
        chk.residues["C16"]["C16_MARGIN_SCALE"] = scale
        if not okj:
            chk.fail("cull:judged-share", "c16_corr:cull:judged-share", "too many culling cases are unjudged, or the margin was scaled through the environment",
                     {"low": low, "C16_MARGIN_SCALE": scale, "shares": shares}, False)
        nstrict = dict((t, hits.get("R:depth_roundtrip_judged_strictly(allowance<1,|dz|<=1_required):" + t, 0)) for t in ("float", "double"))
        chk.residues["C16"]["depth_roundtrip_cases_judged_strictly_within_1"] = nstrict
        mj = sum(v for k, v in hits.items() if k.startswith("mirrored_M:judged"))
        chk.oblige("mirrored: camera matrices with det < 0 (explicit exclusion): the real planes (p, M) / FrustumTest behave as PROVED "
                   "(planesM_*_mirrored: all six normals inward; isVisiblePoint_*_mirrored: the frustum centre is reported invisible), float and double",
                   "correspondence", okrun and not mfail and mj > 0, mfail[:5] or ({"judged": mj} if mj else "no mirrored case was judged"))
        chk.oblige("residue: corners->cube, depth round trip within +-1 (+ rounding allowance), planes(p,M) = mapped planes(p), "
                   "culling decisions vs extended-precision oracle", "residue", okrun and not rfail, rfail[:5] or None)
        if m:
            chk.count(int(m.group(1)), int(m.group(1)) - sum(v for k, v in hits.items() if "ambiguous" in k))
        chk.residues.setdefault("C16", {}).update({"maxima_in_units_of_the_stated_bound_factor": maxima, "hit_counts": hits,
                               "bounds": {"corners/depth": "8*eps*k (k: window asymmetry (|r|+|l|)/(r-l), depth (3f+n)/(f-n))",
                                          "round trip": "|dz| <= 1 + 8*eps*zdiff*(f+n)/(f-n)",
                                          "planes(p,M)": "16*eps*kT*kW (kT: translation/size, kW: window extent/size; orthographic: "
                                                         "times (1+f/size)*(f+n)/(f-n))",
                                          "culling": "margin 4e-6 (float) / 1e-13 (double) relative, times (1+|T|/(s*near))"}})
        seen = set()
        for l in fl:
            key = l.split()[1]
            if key in seen:
                continue
            seen.add(key)
            chk.fail(("correspondence:" if key.startswith("H:") or key.startswith("mirroredM:") else "residue:") + key, "c16_corr:" + key,
                     "real code disagrees with the " + ("hand model" if key.startswith("H:") else "proved behaviour for mirrored camera matrices"
                                                        if key.startswith("mirroredM:") else "measured bound / oracle") + ": " + key,
                     {"line": l[:900], "replay_cmd": "c16_corr %d %d" % (chk.seed, n)}, True)
        if not okrun:
            chk.fail("c16_corr", "c16_corr:run", "correspondence harness did not run", {"output": out[-1500:]}, False)
        # fixed probe (the input of the repaired finding planesM:float:far-plane-normal-overflow): far/near = 1e6 with a window of several near distances, float,
        # identity camera.  Expected: far plane (0,0,-1 | far) and the interior point visible.
        pm = re.search(r"C16PROBE far-plane (frustum=\S+) camera=identity planes\(p,M\)\[5\]\.normal=\(([^,]+),([^,]+),([^)]+)\) distance=(\S+) "
                       r"point=(\S+) isVisible=(\d)", out)
        if not pm:
            chk.oblige("probe:far-plane: planes(p,M) far plane at float, far/near = 1e6, wide window", "correspondence", False, "probe line missing")
            chk.fail("probe:far-plane", "planesM:float:far-plane-probe:not-run", "the far-plane probe did not run", {"output": out[-800:]}, False)
        else:
            nx, ny, nz, dist, vis = float(pm.group(2)), float(pm.group(3)), float(pm.group(4)), float(pm.group(5)), pm.group(7) == "1"
            normal_ok = abs(nx) <= 1e-5 and abs(ny) <= 1e-5 and abs(nz + 1) <= 1e-5 and abs(dist - 390092352.0) <= 1e-5 * 390092352.0
            chk.oblige("probe:far-plane: planes(p,M) at float, far/near = 1e6, wide window: normal (0,0,-1), interior point visible",
                       "correspondence", normal_ok and vis, None if (normal_ok and vis) else pm.group(0)[:400])
            chk.count(1, 1)
            replay = {"frustum": "Frustumf(near=390.092346, far=390092352, left=1154.62439, right=6716.17383, top=944.499451, bottom=-4814.44336, perspective)",
                      "camera_matrix": "identity", "interior_point": "Vec3f(3000,-2000,-1000)",
                      "real_code_returns": {"planes(p,M)[5].normal": [nx, ny, nz], "planes(p,M)[5].distance": dist,
                                            "FrustumTest::isVisible(point)": vis},
                      "expected": {"normal": [0, 0, -1], "distance": 390092352.0, "isVisible": True},
                      "replay_cmd": "c16_corr %d 1   (line C16PROBE)" % chk.seed}
            if not (normal_ok and vis):
                if nx == 0 and ny == 0 and nz == 0:
                    chk.fail("probe:far-plane", "planesM:float:far-plane-normal-overflow",
                             "planes(p, M) at float: the far plane's normal is (0,0,0) (Vec3::length overflows on the far-corner cross "
                             "product), FrustumTest then reports an interior point invisible", replay, True)
                elif not normal_ok:
                    chk.fail("probe:far-plane", "planesM:float:far-plane-probe:wrong-plane",
                             "planes(p, M) at float: far plane is neither (0,0,-1 | far) nor the known degenerate (0,0,0)", replay, True)
                else:
                    chk.fail("probe:far-plane", "planesM:float:far-plane-probe:interior-point-invisible",
                             "FrustumTest::isVisible is false for an interior point although the far plane is correct", replay, True)
    if chk.thorough and ok_gen:
        chk.leanchecker(PROPS)
        chk.leanchecker(PROPS_Z)
        for mod in PROPS_MORE:
            chk.leanchecker(mod)
