"""C16 — Frustum projection, depth mapping, planes and culling are mutually consistent.

T-route: harness/sym/sym_c16.cpp instantiates ImathFrustum.h / ImathFrustumTest.h at the symbolic scalar (every method,
perspective and orthographic copies separately) and regenerates Gen/C16Frustum.lean, Gen/C16Test.lean on every run;
Props/C16.lean is re-elaborated against them.
H-route: `planes (p, M)` (double (_nearPlane)) and the real-valued core of `DepthToZ` (long (...)) cannot be instantiated
symbolically; their hand transcripts (harness/sym/c16_hand.h) are emitted by sym_c16m.cpp into Gen/C16PlanesM.lean and
tied to the real code by bitwise translation validation at double plus the exact correspondences of harness/corr/c16_corr.cpp.
Residue (measured, never presented as proof): c16_corr.cpp at float and double."""
import os, re
import lib, troute

PROPS = "ImathVerif.Props.C16"
REQUIRED = [
    "projectionMatrix_persp_corners", "projectionMatrix_ortho_corners", "projectPointToScreen_persp", "projectPointToScreen_ortho",
    "projectScreenToRay_persp_projects", "projectScreenToRay_persp_complete", "projectScreenToRay_ortho_projects",
    "projectScreenToRay_ortho_complete", "localToScreen_screenToLocal", "screenToLocal_localToScreen",
    "normalizedZToDepth_persp_depthToZp", "depthToZp_persp_normalizedZToDepth", "projectionMatrix_persp_depth",
    "projectionMatrix_persp_normalizedZ", "normalizedZToDepth_ortho_depthToZp", "depthToZp_ortho_normalizedZToDepth",
    "projectionMatrix_ortho_depth", "projectionMatrix_ortho_normalizedZ", "worldRadius_screenRadius", "screenRadius_worldRadius",
    "setFov_fovx_form", "setFov_fovy_form", "setFov_fovx_aspect", "setFov_fovy_aspect", "setFov_fovx_fovx", "setFov_fovy_fovy",
    "window_persp", "window_ortho", "window_full", "modifyNearAndFar_persp", "modifyNearAndFar_ortho",
    "planes_persp_eval", "planes_persp_region", "planes_persp_interior", "planes_persp_unit",
    "planes_ortho_eval", "planes_ortho_region", "planes_ortho_interior", "planes_ortho_unit",
    "planesM_persp_struct", "planesM_ortho_struct", "planesM_persp_normals_le_one", "planesM_ortho_normals_le_one",
    "planesM_persp_identity", "planesM_ortho_identity", "planesM_persp_affine", "planesM_ortho_affine",
    "setFrustum_persp", "setFrustum_ortho", "isVisiblePoint_persp", "isVisiblePoint_ortho",
    "isVisiblePoint_persp_affine", "isVisiblePoint_ortho_affine",
    "isVisibleSphere_persp_false", "isVisibleSphere_ortho_false", "completelyContainsSphere_persp_true",
    "completelyContainsSphere_ortho_true", "isVisibleBox_persp_false", "isVisibleBox_ortho_false",
    "completelyContainsBox_persp_true", "completelyContainsBox_ortho_true",
]

# theorem-name prefix -> group of the executable specification (c16_corr spec) used to look for a failing input
GROUPS = [("witness_projectionMatrix", "projectionMatrix"), ("witness_projectPointToScreen", "projectPointToScreen|depth"),
          ("witness_planes", "planes"), ("projectionMatrix", "projectionMatrix|depth"), ("projectPointToScreen", "projectPointToScreen"),
          ("projectScreenToRay", "projectScreenToRay"), ("localToScreen", "screenLocal"), ("screenToLocal", "screenLocal"),
          ("normalizedZToDepth", "depth"), ("depthToZp", "depth"), ("worldRadius", "radius"), ("screenRadius", "radius"),
          ("setFov", "fov"), ("ctorFov", "fov"), ("aspect", "fov"), ("fov", "fov"), ("window", "window"), ("modifyNearAndFar", "modify"),
          ("planesM", "planesM|frustumtest"), ("planes", "planes"), ("setFrustum", "frustumtest"), ("isVisible", "frustumtest"),
          ("completelyContains", "frustumtest"), ("ctor", "ctor"), ("set_", "ctor"), ("setOrthographic", "ctor"), ("degenerate", "ctor")]


def run_spec(chk, binary):
    rc, out = lib.sh([binary, "spec", str(chk.seed)], timeout=600)
    m = re.search(r"C16SPEC evals=(\d+) failures=(\d+)", out)
    fails = [l for l in out.split("\n") if l.startswith("SPECFAIL")]
    return rc, m, fails, out


def run(chk):
    chk.trusted = ["Lean 4.33 kernel; axioms propext/Classical.choice/Quot.sound at most; Mathlib (ordered fields, Real.sqrt, Real.arctan)",
                   "translator harness/sym, validated on every run: TV bitwise at float and double, emitted Lean text at Rat",
                   "hand transcripts harness/sym/c16_hand.h of planes(p,M) and DepthToZ's real-valued core: tied by bitwise TV at double "
                   "against the real planes(p,M), exact equality of DepthToZ/ZToDepth with the transcript formulas at float and double",
                   "Spec/FrustumSpec.lean (regions, plane equation, LenSpec); long double evaluation as the oracle of the measured residue"]
    chk.assumptions = ["Vec3::length is an opaque call: theorems that depend on normalisation assume LenSpec (Gen.V3.length tmin sqrt) "
                       "(>= 0, squares to x^2+y^2+z^2); shown for the extracted 129-path length over R with Real.sqrt (lenSpec_real)",
                       "atan2/tan enter set(fov)/fovx/fovy as parameters with the hypotheses atan2 (n tan h) n = h at h = +-fov/2 "
                       "(example over R: arctan (y/x), x > 0, |h| < pi/2)",
                       "planes(p,M) = planes(p) mapped by M is proved for affine M with positive determinant (rigid, uniform and "
                       "non-uniform positive scale); mirrored M (normals then point inwards: measured) and projective M are NOT covered (_partial)",
                       "the long truncation of ZToDepth/DepthToZ and all rounding are NOT proved: measured (residue). The random residue sweep has "
                       "no domain exclusion any more (far/near up to 1e6 with wide windows included, float and double): the former finding "
                       "planesM:float:far-plane-normal-overflow was repaired by /repo 16a5ca8 (Vec length() takes the scaled path on overflow); "
                       "its input is kept as the full-strength obligation probe:far-plane, which must pass"]
    chk.rule = ("theorems: all frusta/points/matrices over any ordered field under the stated non-degeneracy hypotheses. "
                "TV: structured inputs incl. zeros, signed zeros, extremes. c16_corr: frusta with near over 6 decades, far/near in "
                "{1.001 … 1e6}, asymmetric/off-axis windows, both kinds, float and double; random rigid+uniform-scale cameras; objects on, "
                "across (+-1/2 size) and beside (+-1.5, +-3 size) each of the six planes; ambiguous (within the rounding margin of a "
                "boundary) cases are counted, not judged. spec: 240 dyadic lattice frusta, exact ties for >= against >")
    bins = troute.build_extractors(chk, [dict(name="sym_leaf", source="sym/sym_leaf.cpp"),
                                         dict(name="sym_c16m", source="sym/sym_c16m.cpp"),
                                         dict(name="sym_c16", source="sym/sym_c16.cpp"),
                                         dict(name="c16_corr", source="corr/c16_corr.cpp")])
    leaf_idx = os.path.join(troute.GEN, "index_leaf.txt")
    m_idx = os.path.join(troute.GEN, "index_c16m.txt")
    ok_gen = all(bins.get(k) for k in ("sym_leaf", "sym_c16m", "sym_c16"))
    if ok_gen:
        troute.regenerate(chk, bins["sym_leaf"], "leaf")
        idx_m, _ = troute.regenerate(chk, bins["sym_c16m"], "c16m", idx_deps=[leaf_idx])
        index, _ = troute.regenerate(chk, bins["sym_c16"], "c16", idx_deps=[leaf_idx, m_idx])
        ntv = 600 if chk.thorough else 100
        # H-route correspondence of the transcript: bitwise at double against the REAL planes (p, M)
        troute.tv(chk, bins["sym_c16m"], "c16m", ntv, idx_deps=[leaf_idx])
        troute.tv(chk, bins["sym_c16"], "c16", ntv, idx_deps=[leaf_idx, m_idx])
        troute.lean_tv(chk, bins["sym_c16m"], "c16m", idx_m, n=6 if chk.thorough else 2, idx_deps=[leaf_idx])
        troute.lean_tv(chk, bins["sym_c16"], "c16", index, n=6 if chk.thorough else 2, idx_deps=[leaf_idx, m_idx])
        for d in index[:6]:
            chk.sample({"entry": d["name"], "paths": d.get("paths")})

    spec_cache = {}

    def search(name):
        """failing input for a broken theorem: evaluate the executable specification of its group on the real code"""
        if not bins.get("c16_corr"):
            return None
        if "spec" not in spec_cache:
            spec_cache["spec"] = run_spec(chk, bins["c16_corr"])
        rc, m, fails, out = spec_cache["spec"]
        groups = None
        for pre, g in GROUPS:
            if name.startswith(pre):
                groups = g.split("|")
                break
        if not groups:
            return None
        for l in fails:
            parts = l.split(" ", 2)
            if len(parts) >= 3 and parts[1] in groups:
                return {"key": "theorem:" + name, "relation_group": parts[1], "failing_input_on_real_code_at_double": parts[2][:600],
                        "replay_cmd": "%s spec %d" % (os.path.relpath(bins["c16_corr"], lib.VERIF), chk.seed)}
        return None

    if ok_gen:
        chk.check_theorems(PROPS, required=REQUIRED, search=search)

    if bins.get("c16_corr"):
        # executable specification on the real code (second tie, exact-arithmetic relations incl. the >= ties)
        rc, m, fails, out = spec_cache.get("spec") or run_spec(chk, bins["c16_corr"])
        ok = rc == 0 and m is not None and int(m.group(2)) == 0
        chk.oblige("spec: real code satisfies the proved relations on lattice frusta (double, ties exact)", "correspondence", ok,
                   None if ok else (fails[:5] or out[-400:]))
        if m:
            chk.count(int(m.group(1)), int(m.group(1)))
        seen = set()
        for l in fails:
            parts = l.split(" ", 2)
            if len(parts) >= 3 and parts[1] not in seen:
                seen.add(parts[1])
                chk.fail("spec:" + parts[1], "c16_corr:spec:" + parts[1],
                         "the real code violates the specified relation '%s' on a concrete frustum" % parts[1],
                         {"input_and_observed": parts[2][:800], "replay_cmd": "c16_corr spec %d" % chk.seed}, True)
        if not ok and not fails:
            chk.fail("spec", "c16_corr:spec:run", "specification harness did not run", {"output": out[-1500:]}, False)

        # correspondence (hand models) + residue
        n = 2000 if chk.thorough else 300
        rc, out = lib.sh([bins["c16_corr"], str(chk.seed), str(n)], timeout=3000)
        m = re.search(r"C16CORR evals=(\d+) failures=(\d+)", out)
        fl = [l for l in out.split("\n") if l.startswith("C16CORR-FAIL")]
        hits = dict((a, int(b)) for a, b in re.findall(r"C16HIT (\S+) (\d+)", out))
        maxima = dict((a, float(b)) for a, b in re.findall(r"C16MAX (\S+) (\S+)", out))
        hfail = [l for l in fl if l.split()[1].startswith("H:")]
        rfail = [l for l in fl if not l.split()[1].startswith("H:")]
        okrun = rc in (0, 1) and m is not None
        chk.oblige("H-route: DepthToZ/ZToDepth = transcript formulas exactly; planes(p,M) = transcript (double bitwise, float to rounding)",
                   "correspondence", okrun and not hfail, hfail[:5] or None)
        chk.oblige("residue: corners->cube, depth round trip within +-1 (+ rounding allowance), planes(p,M) = mapped planes(p), "
                   "culling decisions vs extended-precision oracle", "residue", okrun and not rfail, rfail[:5] or None)
        if m:
            chk.count(int(m.group(1)), int(m.group(1)) - sum(v for k, v in hits.items() if "ambiguous" in k))
        chk.residues["C16"] = {"maxima_in_units_of_the_stated_bound_factor": maxima, "hit_counts": hits,
                               "bounds": {"corners/depth": "8*eps*k (k: window asymmetry (|r|+|l|)/(r-l), depth (3f+n)/(f-n))",
                                          "round trip": "|dz| <= 1 + 8*eps*zdiff*(f+n)/(f-n)",
                                          "planes(p,M)": "16*eps*kT*kW (kT: translation/size, kW: window extent/size; orthographic: "
                                                         "times (1+f/size)*(f+n)/(f-n))",
                                          "culling": "margin 4e-6 (float) / 1e-13 (double) relative, times (1+|T|/(s*near))"}}
        seen = set()
        for l in fl:
            key = l.split()[1]
            if key in seen:
                continue
            seen.add(key)
            chk.fail(("correspondence:" if key.startswith("H:") else "residue:") + key, "c16_corr:" + key,
                     "real code disagrees with the " + ("hand model" if key.startswith("H:") else "measured bound / oracle") + ": " + key,
                     {"line": l[:900], "replay_cmd": "c16_corr %d %d" % (chk.seed, n)}, True)
        if not okrun:
            chk.fail("c16_corr", "c16_corr:run", "correspondence harness did not run", {"output": out[-1500:]}, False)
        # fixed probe (the input of the repaired finding planesM:float:far-plane-normal-overflow): far/near = 1e6 with a window of several near distances, float,
        # identity camera.  Expected: far plane (0,0,-1 | far) and the interior point visible.
        pm = re.search(r"C16PROBE far-plane (frustum=\S+) camera=identity planes\(p,M\)\[5\]\.normal=\(([^,]+),([^,]+),([^)]+)\) distance=(\S+) "
                       r"point=(\S+) isVisible=(\d)", out)
        if not pm:
            chk.oblige("probe:far-plane: planes(p,M) far plane at float, far/near = 1e6, wide window", "correspondence", False, "probe line missing")
            chk.fail("probe:far-plane", "planesM:float:far-plane-probe:not-run", "the far-plane probe did not run", {"output": out[-800:]}, False)
        else:
            nx, ny, nz, dist, vis = float(pm.group(2)), float(pm.group(3)), float(pm.group(4)), float(pm.group(5)), pm.group(7) == "1"
            normal_ok = abs(nx) <= 1e-5 and abs(ny) <= 1e-5 and abs(nz + 1) <= 1e-5 and abs(dist - 390092352.0) <= 1e-5 * 390092352.0
            chk.oblige("probe:far-plane: planes(p,M) at float, far/near = 1e6, wide window: normal (0,0,-1), interior point visible",
                       "correspondence", normal_ok and vis, None if (normal_ok and vis) else pm.group(0)[:400])
            chk.count(1, 1)
            replay = {"frustum": "Frustumf(near=390.092346, far=390092352, left=1154.62439, right=6716.17383, top=944.499451, bottom=-4814.44336, perspective)",
                      "camera_matrix": "identity", "interior_point": "Vec3f(3000,-2000,-1000)",
                      "real_code_returns": {"planes(p,M)[5].normal": [nx, ny, nz], "planes(p,M)[5].distance": dist,
                                            "FrustumTest::isVisible(point)": vis},
                      "expected": {"normal": [0, 0, -1], "distance": 390092352.0, "isVisible": True},
                      "replay_cmd": "c16_corr %d 1   (line C16PROBE)" % chk.seed}
            if not (normal_ok and vis):
                if nx == 0 and ny == 0 and nz == 0:
                    chk.fail("probe:far-plane", "planesM:float:far-plane-normal-overflow",
                             "planes(p, M) at float: the far plane's normal is (0,0,0) (Vec3::length overflows on the far-corner cross "
                             "product), FrustumTest then reports an interior point invisible", replay, True)
                elif not normal_ok:
                    chk.fail("probe:far-plane", "planesM:float:far-plane-probe:wrong-plane",
                             "planes(p, M) at float: far plane is neither (0,0,-1 | far) nor the known degenerate (0,0,0)", replay, True)
                else:
                    chk.fail("probe:far-plane", "planesM:float:far-plane-probe:interior-point-invisible",
                             "FrustumTest::isVisible is false for an interior point although the far plane is correct", replay, True)
    if chk.thorough and ok_gen:
        chk.leanchecker(PROPS)
