"""C14 — ray-box and line-box intersection are geometrically exact.

Theorems: lean/ImathVerif/Props/C14.lean over the hand model Model/RayBox.lean
(statement-by-statement transcription of findEntryAndExitPoints / intersects in
/repo/src/Imath/ImathBoxAlgo.h), generic scalar, TMAX a parameter.

Tie to the current source, every run:
  (a) EXHAUSTIVE integer lattice: boxes (incl. flat and inverted) x origins in
      [-2,2]^3 x un-normalised directions in [-2,2]^3\\{0}; the real code at double
      and float (harness/corr/raybox_corr.cpp) vs the model at exact Rat
      (lean/Driver/RayBox.lean): the results always and entry/exit/ip whenever the
      result is true compared EXACTLY (all lattice quantities are dyadic rationals,
      exactly representable) — per-box hashes, bisection on mismatch.  Out-parameters
      left behind by a `false` result are unspecified by the property: differences
      there are counted in chk.extra as an observation, not an obligation;
  (b) the same outputs vs the SPEC oracle (exact interval intersection in Rat,
      written independently of the model): hit booleans, entry/exit/ip when hit;
  (a') deterministic NON-DYADIC direction lattice: directions {0,+-1,+-3,+-5,+-7}^3\\{0} x integer origins
      in [-4,4]^3 (thorough [-5,5]^3, more boxes, plus a seeded translation) x cube / slab / flat /
      single-point boxes, so that edge/corner grazing (tFrontMax == tBackMin exactly, the same
      rational from two different axes) occurs tens of thousands of times: hit/miss of the real code
      vs the exact oracle (must be equal: correctly rounded quotients of small integers preserve
      equality and order), and every specified output vs the MODEL EXECUTED AT Float/Float32 in the
      same operation order, BIT FOR BIT (catches d*(1/dir) for d/dir and similar rewrites);
  (c) float guard sweep (residue, measured): direction components in
      {0, +-1, +-denorm_min, +-1e-30, +-1e30, +-max/2}, origins below/on/inside/on/above
      each slab; blocks: FIRST the deterministic ones (fixed ordinary box, half-infinite box with a
      face at numeric_limits::max, box/origin at opposite extremes so that face-pos overflows,
      off-centre box, Box::makeInfinite), then VERIF_SEED-dependent ones (ordinary, half-infinite;
      thorough: off-centre scaled, flat, huge).  The implementation's hit/miss must equal the exact
      rational answer whenever that answer is ROBUST (the same on the box eroded and dilated per axis
      by eta*max(|min|,|max|,|pos|), eta = 1e-9 double / 1e-4 float).  Every flip is classified by
      function, direction and CAUSE (all-components-fail-guard | box-face-at-TMAX |
      face-minus-pos-overflows | other-*) and reported under the key guard-sweep:<class>; the
      canonical witness of a class is its first flip in block order (deterministic blocks first)."""
import os, re, math
import lib

DRV = os.path.join(lib.LEAN, ".lake", "build", "bin", "drv_raybox")
MODULE = "ImathVerif.Props.C14"
REQUIRED = ["findEntryAndExitPoints_empty", "intersects_empty",
            "findEntryAndExitPoints_guardpath", "intersects_guardpath", "intersects_never_misses",
            "findEntryAndExitPoints_iff_window", "intersects_iff_window",
            "findEntryAndExitPoints_iff", "intersects_iff", "intersectsBool_iff",
            "intersects_ip_inside", "intersects_ip_first_contact", "findEntryAndExitPoints_points",
            "findEntryAndExitPoints_guard_miss_witness", "findEntryAndExitPoints_guard_falsehit_witness",
            "intersects_guard_falsehit_witness", "findEntryAndExitPoints_overflow_witness"]

# per-axis (min,max) pairs; boxes = pairs^3.  (1,0) is inverted (empty box), (a,a) flat.
QUICK_PAIRS = "-1:1,0:2,1:1,1:0,-1:0"
THOROUGH_PAIRS = "-1:-1,-1:0,-1:1,-1:2,0:0,0:1,0:2,1:1,1:2,2:2,1:0"
CASES_PER_BOX = 125 * 124


def build_driver():
    rc, out = lib.lake_build(["drv_raybox"])
    return rc == 0, out


def parse_fields(s):
    """'fe=1 entry=a,b,c exit=.. is=1 ip=.. [isb=1]' -> dict"""
    return dict(kv.split("=", 1) for kv in s.strip().split(" ") if "=" in kv)


def lattice_args(pairs, off):
    return [pairs, str(off[0]), str(off[1]), str(off[2]), str(off[3])]


def first_diff_in_box(binary, pairs, off, bi, ftype):
    """Per-case comparison inside one box.  Returns a replay dict for the first case where the
    implementation differs from the model or from the spec oracle, or None."""
    la = lattice_args(pairs, off)
    rc, a = lib.sh([binary, "lines"] + la + [str(bi), ftype], timeout=600)
    rc2, b = lib.sh([DRV, "lines"] + la + [str(bi)], timeout=600)
    al, bl = a.strip().split("\n"), b.strip().split("\n")
    for x, y in zip(al, bl):
        head, impl = x.split(" | I ")
        parts = y.split(" | ")
        model, spec = parts[1][2:], parts[2][2:]
        I, M, S = parse_fields(impl), parse_fields(model), parse_fields(spec)
        spec_bad = []
        if I["fe"] != S["fe"]:
            spec_bad.append("findEntryAndExitPoints:result")
        elif I["fe"] == "1":
            if S["entry"] != "-" and I["entry"] != S["entry"]:
                spec_bad.append("findEntryAndExitPoints:entry")
            if S["exit"] != "-" and I["exit"] != S["exit"]:
                spec_bad.append("findEntryAndExitPoints:exit")
        if I["is"] != S["is"]:
            spec_bad.append("intersects:result")
        elif I["is"] == "1" and I["ip"] != S["ip"]:
            spec_bad.append("intersects:ip")
        if I.get("isb") != I["is"]:
            spec_bad.append("intersects(box,ray):differs-from-3-arg-form")
        # model tie on what the property specifies: booleans always, points only when the result is true
        model_bad = []
        if I["fe"] != M["fe"]:
            model_bad.append("findEntryAndExitPoints:result")
        elif I["fe"] == "1" and (I["entry"] != M["entry"] or I["exit"] != M["exit"]):
            model_bad.append("findEntryAndExitPoints:points")
        if I["is"] != M["is"]:
            model_bad.append("intersects:result")
        elif I["is"] == "1" and I["ip"] != M["ip"]:
            model_bad.append("intersects:ip")
        if I.get("isb") != M.get("isb"):
            model_bad.append("intersects(box,ray):result")
        if model_bad or spec_bad:
            hd = parse_fields(head.split(" ", 1)[1])
            vals = hd["box"].replace(";", ",").split(",") + hd["pos"].split(",") + hd["dir"].split(",")
            return {"case_index": int(head.split(" ")[0]), "box_index": bi, "float_type": ftype,
                    "box_min_max": hd["box"], "pos": hd["pos"], "dir": hd["dir"],
                    "implementation": impl.strip(), "model": model.strip(), "spec_exact": spec.strip(),
                    "differs_from_spec": spec_bad, "differs_from_model": model_bad,
                    "replay_cmd": "%s case %s %s" % (os.path.relpath(binary, lib.VERIF), ftype, " ".join(vals)),
                    "model_cmd": "lean/.lake/build/bin/drv_raybox case double " + " ".join(vals)}
    return None


def run_lattice(chk, binary, pairs, off, name):
    la = lattice_args(pairs, off)
    rc, a = lib.sh([binary, "lattice"] + la, timeout=1800)
    rc2, b = lib.sh([DRV, "lattice"] + la, timeout=3600)
    impl = [l.split() for l in a.strip().split("\n")] if rc == 0 else []
    mod = [l.split() for l in b.strip().split("\n")] if rc2 == 0 else []
    nb = len(pairs.split(",")) ** 3
    okshape = len(impl) == nb and len(mod) == nb
    bad = {"model_d": [], "model_f": [], "spec_d": [], "spec_f": [], "model_vs_spec": []}
    unspec = {"d": [], "f": []}   # boxes where only out-parameters of a `false` result differ (unspecified by the property)
    nfe = nis = 0
    if okshape:
        for i, (x, y) in enumerate(zip(impl, mod)):
            # x: box fullD specD fullF specF nFe nIs tieD tieF ; y: box full spec nFe nIs nDiff tie
            if x[7] != y[6]: bad["model_d"].append(i)
            elif x[1] != y[1]: unspec["d"].append(i)
            if x[8] != y[6]: bad["model_f"].append(i)
            elif x[3] != y[1]: unspec["f"].append(i)
            if x[2] != y[2]: bad["spec_d"].append(i)
            if x[4] != y[2]: bad["spec_f"].append(i)
            if y[5] != "0": bad["model_vs_spec"].append(i)
            nfe += int(x[5]); nis += int(x[6])
    ncases = nb * CASES_PER_BOX
    chk.oblige("corr:%s:model=impl(double):results+points-when-true" % name, "correspondence", okshape and not bad["model_d"])
    chk.oblige("corr:%s:model=impl(float):results+points-when-true" % name, "correspondence", okshape and not bad["model_f"])
    chk.oblige("corr:%s:spec-oracle=impl(double):hit+points" % name, "correspondence", okshape and not bad["spec_d"])
    chk.oblige("corr:%s:spec-oracle=impl(float):hit+points" % name, "correspondence", okshape and not bad["spec_f"])
    chk.oblige("corr:%s:model=spec-oracle(executable form of the theorems)" % name, "correspondence",
               okshape and not bad["model_vs_spec"])
    chk.count(2 * ncases, nfe + nis)
    chk.extra.setdefault("lattice", {})[name] = {
        "pairs": pairs, "offset": off[:3], "scale_log2": off[3], "boxes": nb, "cases": ncases,
        "findEntryAndExitPoints_true": nfe, "intersects_true": nis,
        "mismatching_boxes": {k: len(v) for k, v in bad.items()}}
    # observation only: out-parameters left behind by a `false` result are unspecified by the property
    obs = {"boxes_double": len(unspec["d"]), "boxes_float": len(unspec["f"])}
    if okshape and (unspec["d"] or unspec["f"]):
        ft = "d" if unspec["d"] else "f"
        ncs, first = 0, None
        for bi in unspec[ft][:4]:
            rc3, a3 = lib.sh([binary, "lines"] + la + [str(bi), ft], timeout=600)
            rc4, b3 = lib.sh([DRV, "lines"] + la + [str(bi)], timeout=600)
            for xl, yl in zip(a3.strip().split("\n"), b3.strip().split("\n")):
                im, mo = xl.split(" | I ")[1].strip(), yl.split(" | ")[1][2:].strip()
                if im != mo:
                    ncs += 1
                    first = first or {"case": xl.split(" | I ")[0], "implementation": im, "model": mo}
        obs.update({"cases_in_first_%d_boxes(%s)" % (min(4, len(unspec[ft])), ft): ncs, "first": first})
    chk.extra.setdefault("unspecified_outparams_on_false_differ_from_model(observation)", {})[name] = obs
    if not okshape:
        chk.fail("corr:%s" % name, "lattice:run", "lattice run failed or produced the wrong number of lines",
                 {"harness_rc": rc, "driver_rc": rc2, "harness_tail": a[-500:], "driver_tail": b[-500:]}, False)
        return False
    allbad = sorted(set(bad["model_d"] + bad["model_f"] + bad["spec_d"] + bad["spec_f"]))
    if allbad:
        bi = allbad[0]
        ft = "d" if (bi in bad["model_d"] or bi in bad["spec_d"]) else "f"
        rep = first_diff_in_box(binary, pairs, off, bi, ft)
        if rep:
            rep["mismatching_boxes"] = len(allbad)
            if rep["differs_from_spec"]:
                what = ("real code differs from the exact answer on the lattice: %s (box %s, pos %s, dir %s)"
                        % (", ".join(rep["differs_from_spec"]), rep["box_min_max"], rep["pos"], rep["dir"]))
                key = "lattice:%s:box=%s:pos=%s:dir=%s" % (rep["differs_from_spec"][0], rep["box_min_max"], rep["pos"], rep["dir"])
            else:
                what = ("real code differs from the proven model in %s at box %s, pos %s, dir %s"
                        % (", ".join(rep["differs_from_model"]), rep["box_min_max"], rep["pos"], rep["dir"]))
                key = "lattice:model-tie:box=%s:pos=%s:dir=%s" % (rep["box_min_max"], rep["pos"], rep["dir"])
            chk.fail("corr:%s" % name, key, what, rep, True)
        else:
            chk.fail("corr:%s" % name, "lattice:hash-only", "per-box hashes differ but no differing case was isolated",
                     {"boxes": allbad[:8]}, False)
    if bad["model_vs_spec"]:
        chk.fail("corr:%s:model=spec" % name, "lattice:model-vs-spec",
                 "the model disagrees with the spec oracle on the lattice (model or theorem defect, not an implementation finding)",
                 {"boxes": bad["model_vs_spec"][:8]}, False)
    return not allbad and not bad["model_vs_spec"]


ND_QUICK_BOXES = "0,0,0,1,1,1;0,0,-1,2,1,1;0,0,0,0,1,2;1,1,1,1,1,1"          # cube, slab, flat (x), single point
ND_THOROUGH_BOXES = ND_QUICK_BOXES + ";-1,-1,-1,1,1,1;0,0,0,0,0,2;-2,0,1,1,3,1;1,0,0,0,1,1"  # + cube, segment, flat (z), inverted


def nd_first_diff(binary, args, blk, ft):
    rc, a = lib.sh([binary, "ndlines"] + args + [str(blk), ft], timeout=600)
    rc2, b = lib.sh([DRV, "ndlines"] + args + [str(blk), ft], timeout=600)
    for x, y in zip(a.strip().split("\n"), b.strip().split("\n")):
        head, impl = x.split(" | I ")
        parts = y.split(" | ")
        model, spec = parts[1][2:].strip(), parts[2][2:].strip()
        I, S = parse_fields(impl), parse_fields(spec)
        spec_bad = []
        if I["fe"] != S["fe"]: spec_bad.append("findEntryAndExitPoints:result")
        if I["is"] != S["is"]: spec_bad.append("intersects:result")
        if I["isb"] != I["is"]: spec_bad.append("intersects(box,ray):differs-from-3-arg-form")
        if spec_bad or impl.strip() != model:
            v = head.split("in=")[1].split()
            return {"block": blk, "case_index": int(head.split(" ")[0]), "float_type": ftype_name(ft),
                    "box_min": v[0:3], "box_max": v[3:6], "pos": v[6:9], "dir": v[9:12],
                    "implementation(points as double bit patterns)": impl.strip(),
                    "model_at_%s(same operation order)" % ftype_name(ft): model, "exact_oracle": spec,
                    "differs_from_exact_oracle": spec_bad, "differs_from_float_model": impl.strip() != model,
                    "replay_cmd": "%s case %s %s" % (os.path.relpath(binary, lib.VERIF), ft, " ".join(v)),
                    "oracle_cmd": "lean/.lake/build/bin/drv_raybox case %s %s" % (ftype_name(ft), " ".join(v))}
    return None


def ftype_name(ft):
    return "float" if ft == "f" else "double"


def run_nd(chk, binary, boxes, R, off, name):
    """Non-dyadic direction lattice: directions {0,+-1,+-3,+-5,+-7}^3 \\ 0, integer boxes and origins in [-R,R]^3."""
    args = [boxes, str(R), str(off[0]), str(off[1]), str(off[2])]
    rc, a = lib.sh([binary, "nd"] + args, timeout=1800)
    rc2, b = lib.sh([DRV, "nd"] + args, timeout=3600)
    impl = [l.split() for l in a.strip().split("\n")] if rc == 0 else []
    mod = [l.split() for l in b.strip().split("\n")] if rc2 == 0 else []
    nblk = len(boxes.split(";")) * (2 * R + 1)
    okshape = len(impl) == nblk and len(mod) == nblk
    bad = {"model_d": [], "model_f": [], "oracle_d": [], "oracle_f": []}
    nfe = nis = ngr = 0
    if okshape:
        for i, (x, y) in enumerate(zip(impl, mod)):
            # x: blk tieD tieF boolD boolF nFe nIs ; y: blk tie64 tie32 boolsOracle nFe nIs nGraze
            if x[1] != y[1]: bad["model_d"].append(i)
            if x[2] != y[2]: bad["model_f"].append(i)
            if x[3] != y[3]: bad["oracle_d"].append(i)
            if x[4] != y[3]: bad["oracle_f"].append(i)
            nfe += int(y[4]); nis += int(y[5]); ngr += int(y[6])
    ncases = len(boxes.split(";")) * (2 * R + 1) ** 3 * 728
    chk.oblige("corr:%s:exact-oracle=impl(double):hit/miss" % name, "correspondence", okshape and not bad["oracle_d"])
    chk.oblige("corr:%s:exact-oracle=impl(float):hit/miss" % name, "correspondence", okshape and not bad["oracle_f"])
    chk.oblige("corr:%s:model@Float=impl(double):bit-for-bit" % name, "correspondence", okshape and not bad["model_d"])
    chk.oblige("corr:%s:model@Float32=impl(float):bit-for-bit" % name, "correspondence", okshape and not bad["model_f"])
    chk.count(2 * ncases, nfe + nis)
    chk.extra.setdefault("nondyadic_lattice", {})[name] = {
        "boxes": boxes, "origin_radius": R, "offset": off[:3], "cases": ncases, "line_hits": nfe, "ray_hits": nis,
        "grazing_hits(single-parameter interval: edge/corner touch, flat boxes)": ngr,
        "mismatching_blocks": {k: len(v) for k, v in bad.items()}}
    if not okshape:
        chk.fail("corr:%s" % name, "nd:run", "non-dyadic lattice run failed", {"harness_rc": rc, "driver_rc": rc2,
                 "harness_tail": a[-400:], "driver_tail": b[-400:]}, False)
        return
    allbad = sorted(set(sum(bad.values(), [])))
    if allbad:
        # prefer a block where the RESULT differs from the exact oracle
        orc = sorted(set(bad["oracle_d"] + bad["oracle_f"]))
        blk = orc[0] if orc else allbad[0]
        ft = "d" if (blk in bad["oracle_d"] or (not orc and blk in bad["model_d"])) else "f"
        rep = nd_first_diff(binary, args, blk, ft)
        if rep and orc and not rep["differs_from_exact_oracle"]:
            # first differing case of the block is a bits-only one: look for the first result flip
            rc3, a3 = lib.sh([binary, "ndlines"] + args + [str(blk), ft], timeout=600)
            rc4, b3 = lib.sh([DRV, "ndlines"] + args + [str(blk), ft], timeout=600)
            for x, y in zip(a3.strip().split("\n"), b3.strip().split("\n")):
                I, S = parse_fields(x.split(" | I ")[1]), parse_fields(y.split(" | ")[2][2:])
                if I["fe"] != S["fe"] or I["is"] != S["is"]:
                    v = x.split(" | I ")[0].split("in=")[1].split()
                    rep.update({"case_index": int(x.split(" ")[0]), "box_min": v[0:3], "box_max": v[3:6], "pos": v[6:9], "dir": v[9:12],
                                "implementation(points as double bit patterns)": x.split(" | I ")[1].strip(),
                                "model_at_%s(same operation order)" % ftype_name(ft): y.split(" | ")[1][2:].strip(),
                                "exact_oracle": y.split(" | ")[2][2:].strip(),
                                "differs_from_exact_oracle": [n for n, k in (("findEntryAndExitPoints:result", "fe"), ("intersects:result", "is")) if I[k] != S[k]],
                                "differs_from_float_model": True,
                                "replay_cmd": "%s case %s %s" % (os.path.relpath(binary, lib.VERIF), ft, " ".join(v)),
                                "oracle_cmd": "lean/.lake/build/bin/drv_raybox case %s %s" % (ftype_name(ft), " ".join(v))})
                    break
        if rep:
            rep["mismatching_blocks"] = {k: len(v) for k, v in bad.items()}
            where = "box [%s]..[%s], pos (%s), dir (%s)" % (",".join(rep["box_min"]), ",".join(rep["box_max"]),
                                                             ",".join(rep["pos"]), ",".join(rep["dir"]))
            if rep["differs_from_exact_oracle"]:
                key = "nd:%s:%s" % (rep["differs_from_exact_oracle"][0], where.replace(" ", ""))
                what = "real code (%s) differs from the exact answer with a non-dyadic direction: %s at %s" % (
                    rep["float_type"], ", ".join(rep["differs_from_exact_oracle"]), where)
            else:
                key = "nd:float-model-bits:%s" % where.replace(" ", "")
                what = ("real code (%s) is not bit-identical to the proven model executed in floating point with the same "
                        "operation order (a rounding-relevant rewrite) at %s" % (rep["float_type"], where))
            chk.fail("corr:%s" % name, key, what, rep, True)
        else:
            chk.fail("corr:%s" % name, "nd:hash-only", "block hashes differ but no differing case was isolated",
                     {"blocks": allbad[:8]}, False)



def parse_num(s):
    """driver number syntax -> python float (exact for doubles)"""
    if "*2^" in s:
        m, e = s.split("*2^")
        return math.ldexp(int(m), int(e))
    if "/" in s:
        a, b = s.split("/")
        return int(a) / int(b)
    return float(s)


def flip_replay(binary, line):
    """'flip <cat> <tag> box=..;.. pos=.. dir=.. implFe=.. implIs=.. exactLine=.. exactRay=..'"""
    ws = line.split(" ")
    cat, tag = ws[1], ws[2]
    f = dict(kv.split("=", 1) for kv in ws[3:] if "=" in kv)
    vals = f["box"].replace(";", ",").split(",") + f["pos"].split(",") + f["dir"].split(",")
    fl = [parse_num(v) for v in vals]
    ft = "f" if tag.startswith("float") else "d"
    hexes = [x.hex() for x in fl]
    return cat, {"category": cat, "float_type_and_box": tag, "box_min": vals[0:3], "box_max": vals[3:6], "pos": vals[6:9],
                 "dir": vals[9:12], "as_floats": fl,
                 "implementation": {"findEntryAndExitPoints": f.get("implFe"), "intersects": f.get("implIs")},
                 "exact_rational": {"line_meets_box": f.get("exactLine"), "ray_meets_box": f.get("exactRay")},
                 "replay_cmd": "%s case %s %s" % (os.path.relpath(binary, lib.VERIF), ft, " ".join(hexes)),
                 "model_cmd": "lean/.lake/build/bin/drv_raybox case %s %s" % ("float" if ft == "f" else "double", " ".join(vals))}


SWEEP_OBLIGS = ["findEntryAndExitPoints:hit-to-miss", "findEntryAndExitPoints:miss-to-hit",
                "intersects:hit-to-miss", "intersects:miss-to-hit"]


def run_sweep(chk, binary):
    for ft, name in (("d", "double"), ("f", "float")):
        rc, blocks = lib.sh([binary, "sweep", ft, str(chk.seed), "thorough" if chk.thorough else "quick"], timeout=900)
        rc2, out = lib.sh([DRV, "sweep"], stdin=blocks, timeout=3600)
        stats, counts, flips = {}, {}, []
        for l in out.split("\n"):
            ws = l.split(" ")
            if ws[0] == "count" and len(ws) == 3:
                counts[ws[1]] = int(ws[2])
            elif ws[0] == "flip":
                flips.append(l)
            elif len(ws) == 2 and ws[1].isdigit():
                stats[ws[0]] = int(ws[1])
        okrun = rc == 0 and rc2 == 0 and stats.get("cases", 0) > 0 and "case count mismatch" not in out
        chk.oblige("sweep:%s:ran" % name, "residue", okrun, None if okrun else (out[-400:] or blocks[-400:]))
        if not okrun:
            chk.fail("sweep:%s" % name, "guard-sweep:run:" + name, "guard sweep did not run", {"out": out[-1500:]}, False)
            continue
        chk.count(2 * stats["cases"], stats.get("robustLine", 0) + stats.get("robustRay", 0))
        chk.residues["guard_sweep_" + name] = dict(stats, flips=counts, eta=("1e-9" if ft == "d" else "1e-4"),
                                                   bound="0 flips of a robust exact answer")
        chk.extra.setdefault("guard_sweep_flip_counts", {})[name] = counts
        chk.extra.setdefault("guard_branch_hits", {})[name] = {
            k: stats.get(k, 0) for k in ("guardFailAxes", "casesWithGuardFail", "feGuardInside", "feGuardOutside",
                                         "isFrontSubst", "isBackSkip")}
        for ob in SWEEP_OBLIGS:
            n = sum(v for k, v in counts.items() if k.startswith(ob + ":") or k == ob)
            chk.oblige("sweep:%s:%s:never" % (name, ob), "residue", n == 0, None if n == 0 else {"flips": n})
        seen = set()
        for l in flips:
            cat, rep = flip_replay(binary, l)
            if cat in seen:
                continue
            seen.add(cat)
            rep["count_in_this_sweep"] = counts.get(cat)
            fn = cat.split(":")[0]
            chk.fail("sweep:%s:%s" % (name, ":".join(cat.split(":")[:2])), "guard-sweep:" + cat,
                     "%s flips a robust exact answer (%s) at %s: box [%s]..[%s], pos (%s), dir (%s)" % (
                         fn, cat.split(":", 1)[1], name, ",".join(rep["box_min"]), ",".join(rep["box_max"]),
                         ",".join(rep["pos"]), ",".join(rep["dir"])), rep, True)


def run(chk):
    chk.trusted = ["Lean 4.33 kernel; axioms propext, Classical.choice, Quot.sound at most",
                   "hand model Model/RayBox.lean, tied to ImathBoxAlgo.h by exhaustive lattice correspondence "
                   "(harness/corr/raybox_corr.cpp vs lean/Driver/RayBox.lean), results and points-when-true compared exactly",
                   "spec oracle in Driver/RayBox.lean (exact interval intersection over Rat), written independently of the model",
                   "g++ -O1 -ffp-contract=off and the CPU executing the harness"]
    chk.assumptions = ["theorems are about exact arithmetic over an ordered field with TMAX a parameter; rounding is measured "
                       "(guard sweep), not proved", "Spec/RayBoxSpec.lean states closed-box membership and the guards correctly"]
    chk.rule = ("exhaustive lattice: boxes = (per-axis (min,max) pairs incl. flat and inverted)^3, origins [-2,2]^3, directions "
                "[-2,2]^3 minus 0, translated/scaled by a VERIF_SEED-chosen integer offset and power of two; non-trivial = results "
                "that are true.  Non-dyadic lattice: directions {0,+-1,+-3,+-5,+-7}^3 minus 0, integer origins/boxes, deterministic; "
                "model executed at Float/Float32 and compared bit for bit.  Guard sweep: 11^3-1 extreme directions x <=125 origins x boxes; non-trivial = robust exact answers")
    okd, out = build_driver()
    chk.oblige("build:drv_raybox", "build", okd, None if okd else out[-800:])
    ok, binary, o = lib.cxx_build("raybox_corr", ["corr/raybox_corr.cpp"])
    chk.oblige("build:raybox_corr", "build", ok, None if ok else o[-800:])
    off = [chk.rng.randint(-3, 3), chk.rng.randint(-3, 3), chk.rng.randint(-3, 3), chk.rng.randint(-1, 2)]

    def search(name):
        # executable form of the theorems: model vs spec oracle on the lattice, replayed on the real code
        if not os.path.exists(DRV):
            return None
        la = lattice_args(QUICK_PAIRS, off)
        rc, b = lib.sh([DRV, "lattice"] + la, timeout=1800)
        for l in b.strip().split("\n"):
            ws = l.split()
            if len(ws) == 6 and ws[5] != "0":
                rc, t = lib.sh([DRV, "lines"] + la + [ws[0]], timeout=600)
                for y in t.strip().split("\n"):
                    parts = y.split(" | ")
                    M, S = parse_fields(parts[1][2:]), parse_fields(parts[2][2:])
                    diff = (M["fe"] != S["fe"] or M["is"] != S["is"] or
                            (M["fe"] == "1" and S["entry"] != "-" and (M["entry"] != S["entry"] or M["exit"] != S["exit"])) or
                            (M["is"] == "1" and M["ip"] != S["ip"]))
                    if diff:
                        hd = parse_fields(parts[0].split(" ", 1)[1])
                        vals = hd["box"].replace(";", ",").split(",") + hd["pos"].split(",") + hd["dir"].split(",")
                        rep = {"key": "theorem-search:box=%s:pos=%s:dir=%s" % (hd["box"], hd["pos"], hd["dir"]),
                               "box_min_max": hd["box"], "pos": hd["pos"], "dir": hd["dir"], "model": parts[1][2:], "spec_exact": parts[2][2:]}
                        if ok:
                            rc, r = lib.sh([binary, "case", "d"] + vals, timeout=60)
                            rep["implementation"] = r.split("\n")[0]
                        return rep
        return None

    chk.check_theorems(MODULE, required=REQUIRED, search=search)
    if chk.thorough:
        chk.leanchecker(MODULE)
    if not ok:
        chk.fail("build:raybox_corr", "build:raybox_corr", "correspondence harness does not compile against the current tree",
                 {"compiler_output": o[-3000:]}, False)
        return
    if not okd:
        chk.fail("build:drv_raybox", "build:drv_raybox", "model driver does not build", {"output": out[-3000:]}, False)
        return
    run_lattice(chk, binary, QUICK_PAIRS, off, "lattice-quick")
    if chk.thorough:
        off2 = [chk.rng.randint(-3, 3), chk.rng.randint(-3, 3), chk.rng.randint(-3, 3), chk.rng.randint(-1, 2)]
        run_lattice(chk, binary, THOROUGH_PAIRS, off2, "lattice-thorough")
    # deterministic non-dyadic direction lattice (grazing edges/corners in quantity), model executed in floating point
    run_nd(chk, binary, ND_QUICK_BOXES, 4, [0, 0, 0], "nondyadic-quick")
    if chk.thorough:
        run_nd(chk, binary, ND_THOROUGH_BOXES, 5, [0, 0, 0], "nondyadic-thorough")
        run_nd(chk, binary, ND_QUICK_BOXES, 4, [chk.rng.randint(-9, 9), chk.rng.randint(-9, 9), chk.rng.randint(-9, 9)],
               "nondyadic-seeded-offset")
    chk.exhaustive = True
    run_sweep(chk, binary)
    # samples: grazing an edge, flat box, axis-parallel ray, empty box
    for desc, vals in (("skew ray grazing the edge x=y=0..1 of the unit cube", "0 0 0 1 1 1 -1 -1 1/2 2 2 -1/4"),
                       ("flat box hit edge-on", "0 0 0 0 1 1 -1 1/2 1/2 1 0 0"),
                       ("axis-parallel ray on a face plane", "0 0 0 1 1 1 -1 1 1/2 1 0 0"),
                       ("inverted (empty) box", "1 0 0 0 1 1 -1 1/2 1/2 1 0 0")):
        rc, r = lib.sh([binary, "case", "d"] + vals.split(), timeout=60)
        rc2, m = lib.sh([DRV, "case", "double"] + vals.split(), timeout=60)
        chk.sample({"input(box min, box max, pos, dir)": vals, "note": desc, "implementation": r.split("\n")[0],
                    "spec_exact": (m.split("\n") + ["", ""])[1]})
