"""C14 — ray-box and line-box intersection are geometrically exact.

Theorems: lean/ImathVerif/Props/C14.lean over the hand model Model/RayBox.lean
(statement-by-statement transcription of findEntryAndExitPoints / intersects in
/repo/src/Imath/ImathBoxAlgo.h), generic scalar, TMAX a parameter.

Tie to the current source, every run:
  (a) EXHAUSTIVE integer lattice: boxes (incl. flat and inverted) x origins in
      [-2,2]^3 x un-normalised directions in [-2,2]^3\\{0}; the real code at double
      and float (harness/corr/raybox_corr.cpp) vs the model at exact Rat
      (lean/Driver/RayBox.lean): the results always and entry/exit/ip whenever the
      result is true compared EXACTLY (all lattice quantities are dyadic rationals,
      exactly representable) — per-box hashes, bisection on mismatch.  Out-parameters
      left behind by a `false` result are unspecified by the property: differences
      there are counted in chk.extra as an observation, not an obligation;
  (b) the same outputs vs the SPEC oracle (exact interval intersection, Model/RayBoxOracle.lean, written
      independently of the model and PROVED to decide `exists t, pos+t*dir in box` / `exists t >= 0` and to report
      the first / last parameter: oracleLine_iff, oracleRay_iff, spec_entry, spec_exit, spec_ip; the driver executes
      those very definitions at Rat): hit booleans, entry/exit/ip when hit;
  (a') deterministic NON-DYADIC direction lattice: directions {0,+-1,+-3,+-5,+-7}^3\\{0} x integer origins
      in [-4,4]^3 (thorough [-5,5]^3, more boxes, plus a seeded translation) x cube / slab / flat /
      single-point boxes, so that edge/corner grazing (tFrontMax == tBackMin exactly, the same
      rational from two different axes) occurs tens of thousands of times: hit/miss of the real code
      vs the exact oracle (must be equal: correctly rounded quotients of small integers preserve
      equality and order), and every specified output vs the MODEL EXECUTED AT Float/Float32 in the
      same operation order, BIT FOR BIT (catches d*(1/dir) for d/dir and similar rewrites);
  (c) float guard sweep (residue, measured): direction components in
      {+0, -0, +-1, +-denorm_min, +-1e-30, +-1e30, +-max/2}, origins below/on/inside/on/above
      each slab; blocks: FIRST the deterministic ones (fixed ordinary box, half-infinite box with a
      face at numeric_limits::max, box/origin at opposite extremes so that face-pos overflows,
      off-centre box, Box::makeInfinite), then VERIF_SEED-dependent ones (ordinary, half-infinite;
      thorough: off-centre scaled, flat, huge).  The implementation's hit/miss must equal the exact
      rational answer whenever that answer is ROBUST (the same on the box eroded and dilated per axis
      by eta*max(|min|,|max|,|pos|), eta = 1e-9 double / 1e-4 float).  Every flip is classified by
      function, direction and CAUSE (all-components-fail-guard | box-face-at-TMAX |
      face-minus-pos-overflows | other-*) and reported under the key guard-sweep:<class>; the
      canonical witness of a class is its first flip in block order (deterministic blocks first).
      The zero direction is part of the sweep.  ON THE SAME INPUTS:
      (c1) the MODEL is executed at Float / Float32 by the Lean driver (same operations, same order, IEEE
           inf/NaN semantics) and compared BIT FOR BIT with the real code (results always, points when true):
           this ties every branch arm of the model - including the 18 guard-FAIL arms that no lattice with
           T = DBL_MAX reaches - to the code, so the `_guardpath` theorems are statements about the code;
      (c2) every reported point is classified by the harness (in the closed box and on a face / never
           written / NaN / outside): "every reported point lies in the box, on its surface" needs no oracle;
      (c3) the 2-argument wrapper must agree with the 3-argument form on every case;
      (c4) per-class flip counts of the deterministic `fixed-*` blocks are pinned (PINNED below): a count
           above its pin is a violation even when the class itself is an open known finding;
      (c5) in the seed-dependent blocks no class may exceed 2x its largest pinned count; the share of robust
           exact answers must be >= 0.5 (the eta filter must not empty the comparison); reach is obliged per arm
           at IEEE level (36 counters evaluated by the driver at Float/Float32, each >= 1000);
      blocks also cover `face - pos` overflowing on every axis and side, and MID-RANGE magnitudes 1e5..1e15 (extents 2e5/2e7/2e9) with
      unit-order directions (`fixed-mid`);
  (d) guard lattice at a SMALL TMAX: the real templates instantiated at a wrapper scalar `Small` with
      numeric_limits<Small>::max() == 4, directions {0,+-1/8,+-1/2,+-1,+-2}^3 (zero direction included), dyadic
      origins/boxes of magnitude <= 6: all arithmetic exact, all guard-fail arms reached (hit counts obliged),
      outputs compared EXACTLY with the model over Rat at T = 4; the model is also compared with an executable
      interval form of the `_guardpath` theorems and, where every guard as written passes, with the geometric
      oracle restricted to |t| <= T (`_iff_window`);
  (e) "on the ray to within rounding": on the non-dyadic lattice the distance of every reported point of the
      floating-point run (model@Float, bit-identical to the real code by (a')) from the EXACT entry / exit /
      first-contact point is measured in units of eps*max(1,|box|,|pos|) and bounded (residue)."""
import os, re, math
import lib

DRV = os.path.join(lib.LEAN, ".lake", "build", "bin", "drv_raybox")
MODULE = "ImathVerif.Props.C14"
REQUIRED = ["findEntryAndExitPoints_empty", "intersects_empty",
            "findEntryAndExitPoints_guardpath", "intersects_guardpath", "intersects_never_misses",
            "findEntryAndExitPoints_iff_window", "intersects_iff_window",
            "findEntryAndExitPoints_iff", "intersects_iff", "intersectsBool_iff",
            "intersects_ip_inside", "intersects_ip_first_contact", "findEntryAndExitPoints_points",
            "findEntryAndExitPoints_guard_miss_witness", "findEntryAndExitPoints_guard_falsehit_witness",
            "intersects_guard_falsehit_witness", "findEntryAndExitPoints_overflow_witness",
            "intersects_ip_in_box_always", "findEntryAndExitPoints_points_in_box",
            "findEntryAndExitPoints_unwritten", "findEntryAndExitPoints_unwritten_zero_dir",
            "intersects_false_hit_only_if", "findEntryAndExitPoints_false_hit_only_if",
            "findEntryAndExitPoints_unwritten_witness", "findEntryAndExitPoints_near_face_miss_witness",
            "oracleLine_iff", "oracleRay_iff", "spec_feHit_iff", "spec_isHit_iff", "spec_entry", "spec_exit", "spec_ip"]

# per-axis (min,max) pairs; boxes = pairs^3.  (1,0) is inverted (empty box), (a,a) flat.
QUICK_PAIRS = "-1:1,0:2,1:1,1:0,-1:0"
THOROUGH_PAIRS = "-1:-1,-1:0,-1:1,-1:2,0:0,0:1,0:2,1:1,1:2,2:2,1:0"
CASES_PER_BOX = 125 * 124


def build_driver():
    rc, out = lib.lake_build(["drv_raybox"])
    return rc == 0, out


def parse_fields(s):
    """'fe=1 entry=a,b,c exit=.. is=1 ip=.. [isb=1]' -> dict"""
    return dict(kv.split("=", 1) for kv in s.strip().split(" ") if "=" in kv)


def lattice_args(pairs, off):
    return [pairs, str(off[0]), str(off[1]), str(off[2]), str(off[3])]


def first_diff_in_box(binary, pairs, off, bi, ftype):
    """Per-case comparison inside one box.  Returns a replay dict for the first case where the
    implementation differs from the model or from the spec oracle, or None."""
    la = lattice_args(pairs, off)
    rc, a = lib.sh([binary, "lines"] + la + [str(bi), ftype], timeout=600)
    rc2, b = lib.sh([DRV, "lines"] + la + [str(bi)], timeout=600)
    al, bl = a.strip().split("\n"), b.strip().split("\n")
    for x, y in zip(al, bl):
        head, impl = x.split(" | I ")
        parts = y.split(" | ")
        model, spec = parts[1][2:], parts[2][2:]
        I, M, S = parse_fields(impl), parse_fields(model), parse_fields(spec)
        spec_bad = []
        if I["fe"] != S["fe"]:
            spec_bad.append("findEntryAndExitPoints:result")
        elif I["fe"] == "1":
            if S["entry"] != "-" and I["entry"] != S["entry"]:
                spec_bad.append("findEntryAndExitPoints:entry")
            if S["exit"] != "-" and I["exit"] != S["exit"]:
                spec_bad.append("findEntryAndExitPoints:exit")
        if I["is"] != S["is"]:
            spec_bad.append("intersects:result")
        elif I["is"] == "1" and I["ip"] != S["ip"]:
            spec_bad.append("intersects:ip")
        if I.get("isb") != I["is"]:
            spec_bad.append("intersects(box,ray):differs-from-3-arg-form")
        # model tie on what the property specifies: booleans always, points only when the result is true
        model_bad = []
        if I["fe"] != M["fe"]:
            model_bad.append("findEntryAndExitPoints:result")
        elif I["fe"] == "1" and (I["entry"] != M["entry"] or I["exit"] != M["exit"]):
            model_bad.append("findEntryAndExitPoints:points")
        if I["is"] != M["is"]:
            model_bad.append("intersects:result")
        elif I["is"] == "1" and I["ip"] != M["ip"]:
            model_bad.append("intersects:ip")
        if I.get("isb") != M.get("isb"):
            model_bad.append("intersects(box,ray):result")
        if model_bad or spec_bad:
            hd = parse_fields(head.split(" ", 1)[1])
            vals = hd["box"].replace(";", ",").split(",") + hd["pos"].split(",") + hd["dir"].split(",")
            return {"case_index": int(head.split(" ")[0]), "box_index": bi, "float_type": ftype,
                    "box_min_max": hd["box"], "pos": hd["pos"], "dir": hd["dir"],
                    "implementation": impl.strip(), "model": model.strip(), "spec_exact": spec.strip(),
                    "differs_from_spec": spec_bad, "differs_from_model": model_bad,
                    "replay_cmd": "%s case %s %s" % (os.path.relpath(binary, lib.VERIF), ftype, " ".join(vals)),
                    "model_cmd": "lean/.lake/build/bin/drv_raybox case double " + " ".join(vals)}
    return None


def run_lattice(chk, binary, pairs, off, name):
    la = lattice_args(pairs, off)
    rc, a = lib.sh([binary, "lattice"] + la, timeout=1800)
    rc2, b = lib.sh([DRV, "lattice"] + la, timeout=3600)
    impl = [l.split() for l in a.strip().split("\n")] if rc == 0 else []
    mod = [l.split() for l in b.strip().split("\n")] if rc2 == 0 else []
    nb = len(pairs.split(",")) ** 3
    okshape = len(impl) == nb and len(mod) == nb
    bad = {"model_d": [], "model_f": [], "spec_d": [], "spec_f": [], "model_vs_spec": []}
    unspec = {"d": [], "f": []}   # boxes where only out-parameters of a `false` result differ (unspecified by the property)
    nfe = nis = 0
    if okshape:
        for i, (x, y) in enumerate(zip(impl, mod)):
            # x: box fullD specD fullF specF nFe nIs tieD tieF ; y: box full spec nFe nIs nDiff tie
            if x[7] != y[6]: bad["model_d"].append(i)
            elif x[1] != y[1]: unspec["d"].append(i)
            if x[8] != y[6]: bad["model_f"].append(i)
            elif x[3] != y[1]: unspec["f"].append(i)
            if x[2] != y[2]: bad["spec_d"].append(i)
            if x[4] != y[2]: bad["spec_f"].append(i)
            if y[5] != "0": bad["model_vs_spec"].append(i)
            nfe += int(x[5]); nis += int(x[6])
    ncases = nb * CASES_PER_BOX
    chk.oblige("corr:%s:model=impl(double):results+points-when-true" % name, "correspondence", okshape and not bad["model_d"])
    chk.oblige("corr:%s:model=impl(float):results+points-when-true" % name, "correspondence", okshape and not bad["model_f"])
    chk.oblige("corr:%s:spec-oracle=impl(double):hit+points" % name, "correspondence", okshape and not bad["spec_d"])
    chk.oblige("corr:%s:spec-oracle=impl(float):hit+points" % name, "correspondence", okshape and not bad["spec_f"])
    chk.oblige("corr:%s:model=spec-oracle(executable form of the theorems)" % name, "correspondence",
               okshape and not bad["model_vs_spec"])
    chk.count(2 * ncases, nfe + nis)
    chk.extra.setdefault("lattice", {})[name] = {
        "pairs": pairs, "offset": off[:3], "scale_log2": off[3], "boxes": nb, "cases": ncases,
        "findEntryAndExitPoints_true": nfe, "intersects_true": nis,
        "mismatching_boxes": {k: len(v) for k, v in bad.items()}}
    # observation only: out-parameters left behind by a `false` result are unspecified by the property
    obs = {"boxes_double": len(unspec["d"]), "boxes_float": len(unspec["f"])}
    if okshape and (unspec["d"] or unspec["f"]):
        ft = "d" if unspec["d"] else "f"
        ncs, first = 0, None
        for bi in unspec[ft][:4]:
            rc3, a3 = lib.sh([binary, "lines"] + la + [str(bi), ft], timeout=600)
            rc4, b3 = lib.sh([DRV, "lines"] + la + [str(bi)], timeout=600)
            for xl, yl in zip(a3.strip().split("\n"), b3.strip().split("\n")):
                im, mo = xl.split(" | I ")[1].strip(), yl.split(" | ")[1][2:].strip()
                if im != mo:
                    ncs += 1
                    first = first or {"case": xl.split(" | I ")[0], "implementation": im, "model": mo}
        obs.update({"cases_in_first_%d_boxes(%s)" % (min(4, len(unspec[ft])), ft): ncs, "first": first})
    chk.extra.setdefault("unspecified_outparams_on_false_differ_from_model(observation)", {})[name] = obs
    if not okshape:
        chk.fail("corr:%s" % name, "lattice:run", "lattice run failed or produced the wrong number of lines",
                 {"harness_rc": rc, "driver_rc": rc2, "harness_tail": a[-500:], "driver_tail": b[-500:]}, False)
        return False
    allbad = sorted(set(bad["model_d"] + bad["model_f"] + bad["spec_d"] + bad["spec_f"]))
    if allbad:
        bi = allbad[0]
        ft = "d" if (bi in bad["model_d"] or bi in bad["spec_d"]) else "f"
        rep = first_diff_in_box(binary, pairs, off, bi, ft)
        if rep:
            rep["mismatching_boxes"] = len(allbad)
            if rep["differs_from_spec"]:
                what = ("real code differs from the exact answer on the lattice: %s (box %s, pos %s, dir %s)"
                        % (", ".join(rep["differs_from_spec"]), rep["box_min_max"], rep["pos"], rep["dir"]))
                key = "lattice:%s:box=%s:pos=%s:dir=%s" % (rep["differs_from_spec"][0], rep["box_min_max"], rep["pos"], rep["dir"])
            else:
                what = ("real code differs from the proven model in %s at box %s, pos %s, dir %s"
                        % (", ".join(rep["differs_from_model"]), rep["box_min_max"], rep["pos"], rep["dir"]))
                key = "lattice:model-tie:box=%s:pos=%s:dir=%s" % (rep["box_min_max"], rep["pos"], rep["dir"])
            chk.fail("corr:%s" % name, key, what, rep, True)
        else:
            chk.fail("corr:%s" % name, "lattice:hash-only", "per-box hashes differ but no differing case was isolated",
                     {"boxes": allbad[:8]}, False)
    if bad["model_vs_spec"]:
        chk.fail("corr:%s:model=spec" % name, "lattice:model-vs-spec",
                 "the model disagrees with the spec oracle on the lattice (model or theorem defect, not an implementation finding)",
                 {"boxes": bad["model_vs_spec"][:8]}, False)
    return not allbad and not bad["model_vs_spec"]


ND_RESIDUE_BOUND_MILLI = 2000    # calibrated: 0.888 at double and float on the quick and thorough lattices
ND_QUICK_BOXES = "0,0,0,1,1,1;0,0,-1,2,1,1;0,0,0,0,1,2;1,1,1,1,1,1"          # cube, slab, flat (x), single point
ND_THOROUGH_BOXES = ND_QUICK_BOXES + ";-1,-1,-1,1,1,1;0,0,0,0,0,2;-2,0,1,1,3,1;1,0,0,0,1,1"  # + cube, segment, flat (z), inverted


def nd_first_diff(binary, args, blk, ft):
    rc, a = lib.sh([binary, "ndlines"] + args + [str(blk), ft], timeout=600)
    rc2, b = lib.sh([DRV, "ndlines"] + args + [str(blk), ft], timeout=600)
    for x, y in zip(a.strip().split("\n"), b.strip().split("\n")):
        head, impl = x.split(" | I ")
        parts = y.split(" | ")
        model, spec = parts[1][2:].strip(), parts[2][2:].strip()
        I, S = parse_fields(impl), parse_fields(spec)
        spec_bad = []
        if I["fe"] != S["fe"]: spec_bad.append("findEntryAndExitPoints:result")
        if I["is"] != S["is"]: spec_bad.append("intersects:result")
        if I["isb"] != I["is"]: spec_bad.append("intersects(box,ray):differs-from-3-arg-form")
        if spec_bad or impl.strip() != model:
            v = head.split("in=")[1].split()
            return {"block": blk, "case_index": int(head.split(" ")[0]), "float_type": ftype_name(ft),
                    "box_min": v[0:3], "box_max": v[3:6], "pos": v[6:9], "dir": v[9:12],
                    "implementation(points as double bit patterns)": impl.strip(),
                    "model_at_%s(same operation order)" % ftype_name(ft): model, "exact_oracle": spec,
                    "differs_from_exact_oracle": spec_bad, "differs_from_float_model": impl.strip() != model,
                    "replay_cmd": "%s case %s %s" % (os.path.relpath(binary, lib.VERIF), ft, " ".join(v)),
                    "oracle_cmd": "lean/.lake/build/bin/drv_raybox case %s %s" % (ftype_name(ft), " ".join(v))}
    return None


def ftype_name(ft):
    return "float" if ft == "f" else "double"


def run_nd(chk, binary, boxes, R, off, name):
    """Non-dyadic direction lattice: directions {0,+-1,+-3,+-5,+-7}^3 \\ 0, integer boxes and origins in [-R,R]^3."""
    args = [boxes, str(R), str(off[0]), str(off[1]), str(off[2])]
    rc, a = lib.sh([binary, "nd"] + args, timeout=1800)
    rc2, b = lib.sh([DRV, "nd"] + args, timeout=3600)
    impl = [l.split() for l in a.strip().split("\n")] if rc == 0 else []
    mod = [l.split() for l in b.strip().split("\n")] if rc2 == 0 else []
    nblk = len(boxes.split(";")) * (2 * R + 1)
    okshape = len(impl) == nblk and len(mod) == nblk
    bad = {"model_d": [], "model_f": [], "oracle_d": [], "oracle_f": []}
    nfe = nis = ngr = 0
    res64 = res32 = npts = 0
    if okshape:
        for i, (x, y) in enumerate(zip(impl, mod)):
            # x: blk tieD tieF boolD boolF nFe nIs ; y: blk tie64 tie32 boolsOracle nFe nIs nGraze res64 res32 nPts
            if len(y) >= 10:
                res64, res32, npts = max(res64, int(y[7])), max(res32, int(y[8])), npts + int(y[9])
            if x[1] != y[1]: bad["model_d"].append(i)
            if x[2] != y[2]: bad["model_f"].append(i)
            if x[3] != y[3]: bad["oracle_d"].append(i)
            if x[4] != y[3]: bad["oracle_f"].append(i)
            nfe += int(y[4]); nis += int(y[5]); ngr += int(y[6])
    ncases = len(boxes.split(";")) * (2 * R + 1) ** 3 * 728
    chk.oblige("corr:%s:exact-oracle=impl(double):hit/miss" % name, "correspondence", okshape and not bad["oracle_d"])
    chk.oblige("corr:%s:exact-oracle=impl(float):hit/miss" % name, "correspondence", okshape and not bad["oracle_f"])
    chk.oblige("corr:%s:model@Float=impl(double):bit-for-bit" % name, "correspondence", okshape and not bad["model_d"])
    chk.oblige("corr:%s:model@Float32=impl(float):bit-for-bit" % name, "correspondence", okshape and not bad["model_f"])
    # (e) "on the ray to within rounding": reported points of the floating-point run vs the exact points
    okres = okshape and npts > 0 and res64 <= ND_RESIDUE_BOUND_MILLI and res32 <= ND_RESIDUE_BOUND_MILLI
    chk.oblige("residue:%s:reported-points-within-%g-eps-of-exact-point(double,float)" % (name, ND_RESIDUE_BOUND_MILLI / 1000.0),
               "residue", okres, None if okres else {"max_double": res64 / 1000.0, "max_float": res32 / 1000.0, "points": npts})
    chk.residues["on_ray_" + name] = {"unit": "eps * max(1, |box coords|, |pos coords|), eps = 2^-52 / 2^-23",
                                      "max_double": res64 / 1000.0, "max_float": res32 / 1000.0, "points_measured": npts,
                                      "bound": ND_RESIDUE_BOUND_MILLI / 1000.0,
                                      "note": "measured on model@Float/Float32, bit-identical to the real code by the tie obligation"}
    if okshape and not okres:
        chk.fail("residue:%s" % name, "nd:residue:reported-point-off-the-exact-point",
                 "a reported point is further than %g eps*scale from the exact entry/exit/first-contact point (max double %g, float %g)"
                 % (ND_RESIDUE_BOUND_MILLI / 1000.0, res64 / 1000.0, res32 / 1000.0),
                 {"max_double": res64 / 1000.0, "max_float": res32 / 1000.0, "points": npts}, False)
    chk.count(2 * ncases, nfe + nis)
    chk.extra.setdefault("nondyadic_lattice", {})[name] = {
        "boxes": boxes, "origin_radius": R, "offset": off[:3], "cases": ncases, "line_hits": nfe, "ray_hits": nis,
        "grazing_hits(single-parameter interval: edge/corner touch, flat boxes)": ngr,
        "mismatching_blocks": {k: len(v) for k, v in bad.items()}}
    if not okshape:
        chk.fail("corr:%s" % name, "nd:run", "non-dyadic lattice run failed", {"harness_rc": rc, "driver_rc": rc2,
                 "harness_tail": a[-400:], "driver_tail": b[-400:]}, False)
        return
    allbad = sorted(set(sum(bad.values(), [])))
    if allbad:
        # prefer a block where the RESULT differs from the exact oracle
        orc = sorted(set(bad["oracle_d"] + bad["oracle_f"]))
        blk = orc[0] if orc else allbad[0]
        ft = "d" if (blk in bad["oracle_d"] or (not orc and blk in bad["model_d"])) else "f"
        rep = nd_first_diff(binary, args, blk, ft)
        if rep and orc and not rep["differs_from_exact_oracle"]:
            # first differing case of the block is a bits-only one: look for the first result flip
            rc3, a3 = lib.sh([binary, "ndlines"] + args + [str(blk), ft], timeout=600)
            rc4, b3 = lib.sh([DRV, "ndlines"] + args + [str(blk), ft], timeout=600)
            for x, y in zip(a3.strip().split("\n"), b3.strip().split("\n")):
                I, S = parse_fields(x.split(" | I ")[1]), parse_fields(y.split(" | ")[2][2:])
                if I["fe"] != S["fe"] or I["is"] != S["is"]:
                    v = x.split(" | I ")[0].split("in=")[1].split()
                    rep.update({"case_index": int(x.split(" ")[0]), "box_min": v[0:3], "box_max": v[3:6], "pos": v[6:9], "dir": v[9:12],
                                "implementation(points as double bit patterns)": x.split(" | I ")[1].strip(),
                                "model_at_%s(same operation order)" % ftype_name(ft): y.split(" | ")[1][2:].strip(),
                                "exact_oracle": y.split(" | ")[2][2:].strip(),
                                "differs_from_exact_oracle": [n for n, k in (("findEntryAndExitPoints:result", "fe"), ("intersects:result", "is")) if I[k] != S[k]],
                                "differs_from_float_model": True,
                                "replay_cmd": "%s case %s %s" % (os.path.relpath(binary, lib.VERIF), ft, " ".join(v)),
                                "oracle_cmd": "lean/.lake/build/bin/drv_raybox case %s %s" % (ftype_name(ft), " ".join(v))})
                    break
        if rep:
            rep["mismatching_blocks"] = {k: len(v) for k, v in bad.items()}
            where = "box [%s]..[%s], pos (%s), dir (%s)" % (",".join(rep["box_min"]), ",".join(rep["box_max"]),
                                                             ",".join(rep["pos"]), ",".join(rep["dir"]))
            if rep["differs_from_exact_oracle"]:
                key = "nd:%s:%s" % (rep["differs_from_exact_oracle"][0], where.replace(" ", ""))
                what = "real code (%s) differs from the exact answer with a non-dyadic direction: %s at %s" % (
                    rep["float_type"], ", ".join(rep["differs_from_exact_oracle"]), where)
            else:
                key = "nd:float-model-bits:%s" % where.replace(" ", "")
                what = ("real code (%s) is not bit-identical to the proven model executed in floating point with the same "
                        "operation order (a rounding-relevant rewrite) at %s" % (rep["float_type"], where))
            chk.fail("corr:%s" % name, key, what, rep, True)
        else:
            chk.fail("corr:%s" % name, "nd:hash-only", "block hashes differ but no differing case was isolated",
                     {"blocks": allbad[:8]}, False)



def parse_num(s):
    """driver number syntax -> python float (exact for doubles)"""
    if "*2^" in s:
        m, e = s.split("*2^")
        return math.ldexp(int(m), int(e))
    if "/" in s:
        a, b = s.split("/")
        return int(a) / int(b)
    return float(s)


def flip_replay(binary, line):
    """'flip <cat> <tag> box=..;.. pos=.. dir=.. implFe=.. implIs=.. exactLine=.. exactRay=..'"""
    ws = line.split(" ")
    cat, tag = ws[1], ws[2]
    f = dict(kv.split("=", 1) for kv in ws[3:] if "=" in kv)
    vals = f["box"].replace(";", ",").split(",") + f["pos"].split(",") + f["dir"].split(",")
    fl = [parse_num(v) for v in vals]
    ft = "f" if tag.startswith("float") else "d"
    hexes = [x.hex() for x in fl]
    return cat, {"category": cat, "float_type_and_box": tag, "box_min": vals[0:3], "box_max": vals[3:6], "pos": vals[6:9],
                 "dir": vals[9:12], "as_floats": fl,
                 "implementation": {"findEntryAndExitPoints": f.get("implFe"), "intersects": f.get("implIs")},
                 "exact_rational": {"line_meets_box": f.get("exactLine"), "ray_meets_box": f.get("exactRay")},
                 "replay_cmd": "%s case %s %s" % (os.path.relpath(binary, lib.VERIF), ft, " ".join(hexes)),
                 "model_cmd": "lean/.lake/build/bin/drv_raybox case %s %s" % ("float" if ft == "f" else "double", " ".join(vals))}


SWEEP_OBLIGS = ["findEntryAndExitPoints:hit-to-miss", "findEntryAndExitPoints:miss-to-hit",
                "intersects:hit-to-miss", "intersects:miss-to-hit"]

# (c4) Pinned per-class counts of the DETERMINISTIC blocks (seed-independent).  A count above its pin is a violation
# although the class may be an open known finding (new flips inside an already-open class are not silent); a count
# below its pin (a fix in /repo) is recorded in chk.extra and the pin should then be lowered.
# Regenerate: PYTHONPATH=tools python3 tools/props/c14.py   (prints this table from the current tree; review before pasting).
PINNED = {}   # replaced by the generated table at the end of this file


def tie_first_diff(chk, binary, ft, blk, chunk):
    """First case of a sweep chunk where the real code differs from the model executed in floating point."""
    tier = "thorough" if chk.thorough else "quick"
    rc, a = lib.sh([binary, "sweeplines", ft, str(chk.seed), tier, str(blk), str(chunk)], timeout=600)
    lines = [l for l in a.strip().split("\n") if " | I " in l]
    ins = [l.split(" | I ")[0].split("in=")[1].strip() for l in lines]
    rc2, b = lib.sh([DRV, "fcases", ft], stdin="\n".join(ins) + "\n", timeout=600)
    ml = [l[2:].strip() for l in b.strip().split("\n") if l.startswith("M ")]
    for l, i, m in zip(lines, ins, ml):
        impl = l.split(" | I ")[1].split(" | pts=")[0].strip()
        if impl != m:
            I, M = parse_fields(impl), parse_fields(m)
            which = [k for k in ("fe", "entry", "exit", "is", "ip", "isb") if I.get(k) != M.get(k)]
            hexes = i.split()
            fl = [lib_float(h) for h in hexes]
            return {"float_type": ftype_name(ft), "block": blk, "chunk": chunk, "case_in_chunk": int(l.split(" ")[0]),
                    "input_bits(box min, box max, pos, dir)": hexes, "as_floats": fl,
                    "implementation(points as double bit patterns)": impl,
                    "model_at_%s" % ("Float32" if ft == "f" else "Float"): m, "differs_in": which,
                    "replay_cmd": "%s case %s %s" % (os.path.relpath(binary, lib.VERIF), ft, " ".join(hexes)),
                    "model_cmd": "echo '%s' | lean/.lake/build/bin/drv_raybox fcases %s" % (i, ft)}
    return None


def lib_float(h):
    import struct
    return struct.unpack(">d", bytes.fromhex(h[1:].rjust(16, "0")))[0]


def run_sweep(chk, binary):
    from concurrent.futures import ThreadPoolExecutor

    def one(ft):
        rc, blocks = lib.sh([binary, "sweep", ft, str(chk.seed), "thorough" if chk.thorough else "quick"], timeout=900)
        rc2, out = lib.sh([DRV, "sweep"], stdin=blocks, timeout=3600)
        return rc, blocks, rc2, out
    with ThreadPoolExecutor(max_workers=2) as ex:      # the two scalar types side by side
        futs = {ft: ex.submit(one, ft) for ft in ("d", "f")}
        results = {ft: f.result() for ft, f in futs.items()}
    for ft, name in (("d", "double"), ("f", "float")):
        rc, blocks, rc2, out = results[ft]
        stats, counts, flips, bcounts, tiebad = {}, {}, [], {}, []
        arms_line = []
        for l in out.split("\n"):
            ws = l.split(" ")
            if ws[0] == "arms":
                arms_line = [int(w) for w in ws[1:]]
            elif ws[0] == "count" and len(ws) == 3:
                counts[ws[1]] = int(ws[2])
            elif ws[0] == "blockcount" and len(ws) == 4:
                bcounts.setdefault(ws[1].split(":", 1)[1], {})[ws[2]] = int(ws[3])
            elif ws[0] == "tiemismatch" and len(ws) == 4:
                tiebad.append((ws[1], int(ws[2]), int(ws[3])))
            elif ws[0] == "flip":
                flips.append(l)
            elif len(ws) == 2 and ws[1].isdigit():
                stats[ws[0]] = int(ws[1])
        okrun = rc == 0 and rc2 == 0 and stats.get("cases", 0) > 0 and "case count mismatch" not in out
        chk.oblige("sweep:%s:ran" % name, "residue", okrun, None if okrun else (out[-400:] or blocks[-400:]))
        if not okrun:
            chk.fail("sweep:%s" % name, "guard-sweep:run:" + name, "guard sweep did not run", {"out": out[-1500:]}, False)
            continue
        chk.count(2 * stats["cases"], stats.get("robustLine", 0) + stats.get("robustRay", 0))
        flipcounts = {k: v for k, v in counts.items() if not k.startswith("reported-points:")}
        ptcounts = {k: v for k, v in counts.items() if k.startswith("reported-points:")}
        chk.residues["guard_sweep_" + name] = dict(stats, flips=flipcounts, eta=("1e-9" if ft == "d" else "1e-4"),
                                                   bound="0 flips of a robust exact answer")
        chk.extra.setdefault("guard_sweep_flip_counts", {})[name] = flipcounts
        chk.extra.setdefault("guard_sweep_reported_point_classes", {})[name] = ptcounts
        chk.extra.setdefault("guard_branch_hits", {})[name] = {
            k: stats.get(k, 0) for k in ("guardFailAxes", "casesWithGuardFail", "feGuardInside", "feGuardOutside",
                                         "isFrontSubst", "isBackSkip", "zeroDirCases")}
        # ---- (c1) model executed in floating point == real code, bit for bit, on EVERY sweep case
        oktie = stats.get("tieChunks", 0) > 0 and stats.get("tieBad", 1) == 0 and not tiebad
        mt = "Float32" if ft == "f" else "Float"
        chk.oblige("corr:sweep:model@%s=impl(%s):bit-for-bit(results+points-when-true,all guard arms)" % (mt, name),
                   "correspondence", oktie, None if oktie else {"chunks": stats.get("tieChunks"), "bad": stats.get("tieBad")})
        # the guard-fail arms of the model are reached by this tie: PER ARM (axis x sign x kind) at IEEE level, the arm
        # classification being evaluated by the driver at Float/Float32 with the model's own operations; plus, per axis and
        # sign, blocks entered with a NON-FINITE `face - pos`.  Each count must reach SWEEP_ARM_MIN (one case is not enough).
        armv = arms_line
        okarms = len(armv) == len(SWEEP_ARM_NAMES) and all(v >= SWEEP_ARM_MIN for v in armv)
        chk.oblige("reach:sweep:%s:each-of-36-arms>=%d(18 guard-fail arms per axis/sign,|dir|>1-alone,dir>0-fallback,"
                   "non-finite face-pos per axis/sign)" % (name, SWEEP_ARM_MIN), "reach", okarms,
                   dict(zip(SWEEP_ARM_NAMES, armv)) if armv else "no arms line")
        if not okarms:
            low = [n for n, v in zip(SWEEP_ARM_NAMES, armv) if v < SWEEP_ARM_MIN]
            chk.fail("reach:sweep:%s" % name, "sweep-reach:%s:%s" % (name, low[0] if low else "no-arms-line"),
                     "guard sweep no longer reaches arm(s) %s at least %d times" % (", ".join(low[:6]), SWEEP_ARM_MIN),
                     dict(zip(SWEEP_ARM_NAMES, armv)), False)
        # the eta-robustness filter decides which exact answers are compared: its share must not collapse
        eta = "1e-9" if ft == "d" else "1e-4"
        shl = stats.get("robustLine", 0) / max(1, stats["cases"])
        shr = stats.get("robustRay", 0) / max(1, stats["cases"])
        etas = sorted(set(re.findall(r"^eta (\S+)$", blocks, re.M)))       # what the harness actually transmitted
        okshare = shl >= ROBUST_SHARE_MIN and shr >= ROBUST_SHARE_MIN and etas == [ETA_TEXT[ft]]
        chk.oblige("sweep:%s:robust-share(eta=%s)>=%.2f(line,ray)" % (name, eta, ROBUST_SHARE_MIN), "residue", okshare,
                   {"line": round(shl, 4), "ray": round(shr, 4), "cases": stats["cases"], "eta_in_block_headers": etas})
        if not okshare:
            chk.fail("sweep:%s:robust-share" % name, "guard-sweep:robust-share:" + name,
                     "only %.3f / %.3f of the sweep's exact line / ray answers are robust under eta=%s erosion (minimum %.2f): the "
                     "hit/miss comparison has lost its domain (or the harness requests another eta: %s)" % (shl, shr, eta, ROBUST_SHARE_MIN, etas),
                     {"robustLine": stats.get("robustLine"), "robustRay": stats.get("robustRay"), "cases": stats["cases"]}, False)
        chk.count(stats["cases"], stats.get("casesWithGuardFail", 0))
        if tiebad:
            tag, blk, chunk = tiebad[0]
            rep = tie_first_diff(chk, binary, ft, blk, chunk)
            if rep:
                rep["mismatching_chunks"] = len(tiebad)
                rep["block"] = tag
                fn = "findEntryAndExitPoints" if any(w in ("fe", "entry", "exit") for w in rep["differs_in"]) else "intersects"
                chk.fail("corr:sweep:model@%s=impl(%s)" % (mt, name),
                         "sweep-tie:%s:%s:%s:in=%s" % (fn, tag, "+".join(rep["differs_in"]), ",".join(rep["input_bits(box min, box max, pos, dir)"])),
                         "real code (%s) differs from the proven model executed in floating point (%s) on a guard-sweep input: "
                         "box [%s]..[%s], pos (%s), dir (%s)" % (name, ", ".join(rep["differs_in"]),
                             ",".join("%g" % v for v in rep["as_floats"][0:3]), ",".join("%g" % v for v in rep["as_floats"][3:6]),
                             ",".join("%g" % v for v in rep["as_floats"][6:9]), ",".join("%g" % v for v in rep["as_floats"][9:12])),
                         rep, True)
            else:
                chk.fail("corr:sweep:model@%s=impl(%s)" % (mt, name), "sweep-tie:hash-only:%s" % name,
                         "sweep chunk hashes differ but no differing case was isolated", {"chunks": tiebad[:8]}, False)
        # ---- (c3) wrapper
        okw = stats.get("wrapperDiffers", 1) == 0
        chk.oblige("sweep:%s:intersects(box,ray)==intersects(box,ray,ip)" % name, "correspondence", okw,
                   None if okw else {"cases": stats.get("wrapperDiffers")})
        if not okw:
            chk.fail("sweep:%s:intersects(box,ray)" % name, "guard-sweep:wrapper-differs:" + name,
                     "the 2-argument intersects differs from the 3-argument form on %d sweep cases" % stats.get("wrapperDiffers", 0),
                     {"cases": stats.get("wrapperDiffers")}, False)
        # ---- (a) flips of robust exact answers
        for ob in SWEEP_OBLIGS:
            n = sum(v for k, v in flipcounts.items() if k.startswith(ob + ":") or k == ob)
            chk.oblige("sweep:%s:%s:never" % (name, ob), "residue", n == 0, None if n == 0 else {"flips": n})
        # ---- (c2) reported points: in the box and on a face (ip: == pos when the origin is inside)
        for fn, pts in (("findEntryAndExitPoints", "entry/exit"), ("intersects", "ip")):
            n = sum(v for k, v in ptcounts.items() if k.startswith("reported-points:%s:" % fn))
            chk.oblige("sweep:%s:reported-points-in-box-on-surface:%s(%s)" % (name, fn, pts), "residue", n == 0,
                       {"results_true_examined": stats.get("feTrue" if fn.startswith("find") else "isTrueOutside", 0),
                        **({"violations": n} if n else {})})
        seen = set()
        # canonical witness of a reported-point class: its first case in block order with a NON-zero direction, if any
        nonzero_first = sorted(flips, key=lambda l: l.split(" ")[1].endswith(":zero-direction"))
        for l in nonzero_first:
            cat, rep = flip_replay(binary, l)
            if not cat.startswith("reported-points:"):
                continue
            # key: function + point + reason; the guard-failure causes are sub-counts of one finding, but a bad point
            # WITHOUT a failing guard / overflow (cause other-*) is a different finding and gets its own key
            cls = ":".join(cat.split(":")[:3])
            cause = cat.split(":", 3)[3]
            key = cls + (":" + cause if cause.startswith("other-") else "")
            if key in seen:
                continue
            seen.add(key)
            rep["count_in_this_sweep_by_cause"] = {k.split(":", 3)[3]: v for k, v in ptcounts.items() if k.startswith(cls + ":")}
            fn, what = cat.split(":")[1], cat.split(":")[2]
            chk.fail("sweep:%s:reported-points-in-box-on-surface:%s" % (name, fn), "guard-sweep:" + key,
                     "%s returns true with %s at %s: box [%s]..[%s], pos (%s), dir (%s) (%d cases in this sweep)" % (
                         fn, what, name, ",".join(rep["box_min"]), ",".join(rep["box_max"]), ",".join(rep["pos"]),
                         ",".join(rep["dir"]), sum(rep["count_in_this_sweep_by_cause"].values())), rep, True)
        for l in flips:
            cat, rep = flip_replay(binary, l)
            if cat.startswith("reported-points:"):
                continue
            if cat in seen:
                continue
            seen.add(cat)
            rep["count_in_this_sweep"] = counts.get(cat)
            fn = cat.split(":")[0]
            chk.fail("sweep:%s:%s" % (name, ":".join(cat.split(":")[:2])), "guard-sweep:" + cat,
                     "%s flips a robust exact answer (%s) at %s: box [%s]..[%s], pos (%s), dir (%s)" % (
                         fn, cat.split(":", 1)[1], name, ",".join(rep["box_min"]), ",".join(rep["box_max"]),
                         ",".join(rep["pos"]), ",".join(rep["dir"])), rep, True)
        # ---- (c4) pinned per-class counts of the deterministic blocks
        fixed = {b: c for b, c in bcounts.items() if b.startswith("fixed-")}
        chk.extra.setdefault("guard_sweep_fixed_block_counts", {})[name] = fixed
        pins = PINNED.get(name, {})
        grown, shrunk = [], []
        for b in sorted(set(fixed) | set(k for k in pins if k != "fixed-huge" or chk.thorough)):
            for cat in sorted(set(fixed.get(b, {})) | set(pins.get(b, {}))):
                got, pin = fixed.get(b, {}).get(cat, 0), pins.get(b, {}).get(cat, 0)
                if got > pin: grown.append((b, cat, pin, got))
                elif got < pin: shrunk.append((b, cat, pin, got))
        chk.oblige("sweep:%s:fingerprint(fixed blocks):no-class-count-above-its-pin" % name, "residue", bool(pins) and not grown,
                   None if (pins and not grown) else {"grown": grown[:8], "pins_present": bool(pins)})
        if shrunk:
            chk.extra.setdefault("guard_sweep_counts_below_pin(lower the pins in tools/props/c14.py)", {})[name] = shrunk[:20]
        for b, cat, pin, got in grown[:4]:
            ex = [l for l in flips if l.split(" ")[1] == cat and l.split(" ")[2].endswith(":" + b)]
            rep = flip_replay(binary, ex[0])[1] if ex else {}
            rep.update({"block": b, "class": cat, "pinned_count": pin, "count_now": got,
                        "note": "an example of the class in this block (the harness cannot tell which flips are the new ones)"})
            chk.fail("sweep:%s:fingerprint(fixed blocks)" % name, "pin:%s:%s:%s" % (name, b, cat.replace("findEntryAndExitPoints", "fe").replace("intersects", "is").replace("reported-points:", "pts:")),
                     "deterministic sweep block %s (%s): class %s has %d cases, pinned %d - the behaviour changed inside a recorded class"
                     % (b, name, cat, got, pin), rep, bool(ex))

        # ---- (c5) seed-dependent blocks: no class may exceed SEEDED_CEILING_FACTOR x its largest pinned count in a
        # deterministic block (a class that is an open known finding must not grow freely where nothing is pinned)
        ceil_of = {}
        for b, cs in pins.items():
            for cat, n in cs.items():
                ceil_of[cat] = max(ceil_of.get(cat, 0), int(math.ceil(SEEDED_CEILING_FACTOR * n)))
        over = [(b, cat, ceil_of.get(cat, 0), n) for b, cs in sorted(bcounts.items()) if not b.startswith("fixed-")
                for cat, n in sorted(cs.items()) if n > ceil_of.get(cat, 0)]
        chk.oblige("sweep:%s:seeded-blocks:no-class-above-%gx-its-largest-pinned-count" % (name, SEEDED_CEILING_FACTOR), "residue",
                   bool(pins) and not over, None if (pins and not over) else {"over": over[:8]})
        chk.extra.setdefault("guard_sweep_seeded_block_counts", {})[name] = {b: c for b, c in bcounts.items() if not b.startswith("fixed-")}
        for b, cat, ce, got in over[:4]:
            ex = [l for l in flips if l.split(" ")[1] == cat and l.split(" ")[2].endswith(":" + b)]
            rep = flip_replay(binary, ex[0])[1] if ex else {}
            rep.update({"block": b, "class": cat, "ceiling": ce, "count_now": got})
            chk.fail("sweep:%s:seeded-blocks" % name, "ceiling:%s:%s:%s" % (name, b, cat.replace("findEntryAndExitPoints", "fe").replace("intersects", "is").replace("reported-points:", "pts:")),
                     "seed-dependent sweep block %s (%s): class %s has %d cases, ceiling %d" % (b, name, cat, got, ce), rep, bool(ex))


# (d) guard lattice at a small TMAX
SMALL_T = "4"
SMALL_BOXES = "0,0,0,1,1,1;1,5,-1,2,6,1;0,-1,-1,4,1,1;6,-1,-1,6,1,1;-2,0,-4,-1,2,0;1,0,0,0,1,1"
SMALL_POS_QUICK = "-6,-1,0,1/2,2,5"
SMALL_POS_THOROUGH = "-6,-2,-1,0,1/2,1,2,5"
SMALL_DIRS = "0,1/8,-1/8,1/2,-1/2,1,-1,2,-2"
SMALL_ARM_MIN = 500         # clean tree: smallest of the 24 counts is 1,610 (quick)
SWEEP_ARM_MIN = 1000        # clean tree: smallest of the 36 counts is 2,040 (deterministic blocks alone)
ROBUST_SHARE_MIN = 0.5      # clean tree: 0.62 .. 0.68
ETA_TEXT = {"d": "1/1000000000", "f": "1/10000"}   # the erosion the harness must request, per type
SEEDED_CEILING_FACTOR = 2.0
ARM_NAMES = (["fe:%s:dir<0-fallback:%s" % (a, o) for a in "xyz" for o in ("return-false", "fall-through")] +
             ["is:%s:%s:%s" % (a, sg, w) for a in "xyz" for sg in ("dir>0", "dir<0") for w in ("back-update-skipped", "front:=TMAX")] +
             ["fe:%s:guard-true-through-|dir|>1-alone" % a for a in "xyz"] +
             ["fe:%s:dir>0-fallback" % a for a in "xyz"])
SWEEP_ARM_NAMES = (ARM_NAMES + ["fe:%s:%s:non-finite-face-minus-pos" % (a, sg) for a in "xyz" for sg in ("dir>0", "dir<0")] +
                   ["is:%s:%s:non-finite-face-minus-pos" % (a, sg) for a in "xyz" for sg in ("dir>0", "dir<0")])


def run_small(chk, binary, pv, name):
    args = [SMALL_T, SMALL_BOXES, pv, SMALL_DIRS]
    rc, a = lib.sh([binary, "small"] + args, timeout=1800)
    rc2, b = lib.sh([DRV, "small"] + args, timeout=3600)
    impl = [l.split() for l in a.strip().split("\n")] if rc == 0 else []
    mod = [l.split() for l in b.strip().split("\n")] if rc2 == 0 else []
    np_, nd_ = len(pv.split(",")), len(SMALL_DIRS.split(","))
    nblk = len(SMALL_BOXES.split(";")) * np_
    per = np_ * np_ * nd_ ** 3
    okshape = len(impl) == nblk and len(mod) == nblk and all(len(y) == 8 + 36 for y in mod)
    bad, nfe, nis, ng, nw, nwc, nu = [], 0, 0, 0, 0, 0, 0
    arms = [0] * 24
    if okshape:
        for i, (x, y) in enumerate(zip(impl, mod)):
            # x: blk tie nFe nIs nUnwritten ; y: blk tie nFe nIs nGuardDiff nWindowDiff nWindow nUnwritten arms[24]
            if x[1] != y[1]: bad.append(i)
            nfe += int(y[2]); nis += int(y[3]); ng += int(y[4]); nw += int(y[5]); nwc += int(y[6]); nu += int(y[7])
            for k in range(24): arms[k] += int(y[8 + k])
    ncases = nblk * per
    chk.oblige("corr:%s:model(Rat,T=4)=impl(Small,max()=4):results+points-when-true:exact" % name, "correspondence",
               okshape and not bad)
    okarms = okshape and all(v >= SMALL_ARM_MIN for v in arms)
    chk.oblige("reach:%s:each-of-18-guard-fail-arms(+|dir|>1-alone,+dir>0-fallback)>=%d" % (name, SMALL_ARM_MIN), "reach", okarms,
               dict(zip(ARM_NAMES, arms)) if okshape else None)
    chk.oblige("corr:%s:model=guardpath-oracle(executable form of *_guardpath)" % name, "correspondence", okshape and ng == 0)
    chk.oblige("corr:%s:model=geometric-oracle-within-|t|<=T(executable form of *_iff_window)" % name, "correspondence",
               okshape and nw == 0 and nwc > 0)
    chk.count(ncases, nfe + nis)
    chk.extra.setdefault("small_T_lattice", {})[name] = {
        "T": SMALL_T, "boxes": SMALL_BOXES, "pos_values": pv, "dir_values": SMALL_DIRS, "cases": ncases,
        "findEntryAndExitPoints_true": nfe, "intersects_true": nis, "cases_with_all_guards_passing": nwc,
        "fe_true_with_entry_and_exit_never_written(model)": nu, "arm_hits": dict(zip(ARM_NAMES, arms)),
        "mismatching_blocks": len(bad)}
    if not okshape:
        chk.fail("corr:%s" % name, "small:run", "small-T lattice run failed", {"harness_rc": rc, "driver_rc": rc2,
                 "harness_tail": a[-400:], "driver_tail": b[-400:]}, False)
        return
    if bad:
        blk = bad[0]
        rc3, a3 = lib.sh([binary, "smalllines"] + args + [str(blk)], timeout=600)
        rc4, b3 = lib.sh([DRV, "smalllines"] + args + [str(blk)], timeout=600)
        rep = None
        for xl, yl in zip(a3.strip().split("\n"), b3.strip().split("\n")):
            head, im = xl.split(" | I ")
            parts = yl.split(" | ")
            I, M = parse_fields(im), parse_fields(parts[1][2:])
            diff = []
            if I["fe"] != M["fe"]: diff.append("findEntryAndExitPoints:result")
            elif I["fe"] == "1" and (I["entry"] != M["entry"] or I["exit"] != M["exit"]): diff.append("findEntryAndExitPoints:points")
            if I["is"] != M["is"]: diff.append("intersects:result")
            elif I["is"] == "1" and I["ip"] != M["ip"]: diff.append("intersects:ip")
            if I["isb"] != M["isb"]: diff.append("intersects(box,ray):result")
            if diff:
                hd = parse_fields(head.split(" ", 1)[1])
                rep = {"block": blk, "case_index": int(head.split(" ")[0]), "TMAX(numeric_limits<Small>::max())": SMALL_T,
                       "box_min_max": hd["box"], "pos": hd["pos"], "dir": hd["dir"], "implementation(Small)": im.strip(),
                       "model(Rat)": parts[1][2:].strip(), "guardpath_oracle": parts[2][2:].strip(), "differs_in": diff,
                       "mismatching_blocks": len(bad)}
                vals = hd["box"].replace(";", ",").split(",") + hd["pos"].split(",") + hd["dir"].split(",")
                rep["replay_cmd"] = "%s smallcase %s %s" % (os.path.relpath(binary, lib.VERIF), SMALL_T, " ".join(vals))
                rep["model_cmd"] = "lean/.lake/build/bin/drv_raybox case %s %s" % (SMALL_T, " ".join(vals))
                break
        if rep:
            chk.fail("corr:%s" % name, "small-T:%s:box=%s:pos=%s:dir=%s" % (rep["differs_in"][0], rep["box_min_max"], rep["pos"], rep["dir"]),
                     "real templates instantiated at a scalar with max() = %s differ from the proven model in %s at box %s, pos %s, dir %s"
                     % (SMALL_T, ", ".join(rep["differs_in"]), rep["box_min_max"], rep["pos"], rep["dir"]), rep, True)
        else:
            chk.fail("corr:%s" % name, "small-T:hash-only", "block hashes differ but no differing case was isolated",
                     {"blocks": bad[:8]}, False)
    if ng or nw:
        chk.fail("corr:%s:model=guardpath-oracle" % name, "small-T:model-vs-guardpath-oracle",
                 "the model disagrees with the executable form of the _guardpath / _iff_window theorems (model or theorem defect)",
                 {"guardpath_diffs": ng, "window_diffs": nw}, False)


def run(chk):
    chk.trusted = ["Lean 4.33 kernel; axioms propext, Classical.choice, Quot.sound at most",
                   "hand model Model/RayBox.lean, tied to ImathBoxAlgo.h by exhaustive lattice correspondence "
                   "(harness/corr/raybox_corr.cpp vs lean/Driver/RayBox.lean), results and points-when-true compared exactly",
                   "spec oracle Model/RayBoxOracle.lean (exact interval intersection, written independently of the model): the driver "
                   "executes at core Rat exactly the generic definitions PROVED correct over any ordered field (oracleLine_iff, "
                   "oracleRay_iff, spec_entry/exit/ip); trusted is only that core Rat arithmetic is the field arithmetic of Q",
                   "Lean's Float / Float32 operations are the machine's IEEE binary64 / binary32 operations (the sweep tie and the "
                   "non-dyadic lattice compare the model executed at Float with the real code bit for bit)",
                   "the wrapper scalar `Small` in raybox_corr.cpp (a double with numeric_limits<Small>::max() == 4) through which the "
                   "real templates are instantiated for the small-T guard lattice",
                   "g++ -O1 -ffp-contract=off and the CPU executing the harness"]
    chk.assumptions = ["theorems are about exact arithmetic over an ordered field with TMAX a parameter; rounding is measured "
                       "(guard sweep, on-ray residue), not proved", "Spec/RayBoxSpec.lean states closed-box membership and the guards correctly",
                       "the eta-erosion robustness filter of the sweep (eta 1e-9 double / 1e-4 float) selects which exact answers are "
                       "compared with the code's hit/miss; its share is obliged >= 0.5; the bit-for-bit model tie does not depend on it",
                       "no executed case has |coordinates| between 1e15 and 1e30 or a scalar type other than float, double, Small"]
    chk.rule = ("exhaustive lattice: boxes = (per-axis (min,max) pairs incl. flat and inverted)^3, origins [-2,2]^3, directions "
                "[-2,2]^3 minus 0, translated/scaled by a VERIF_SEED-chosen integer offset and power of two; non-trivial = results "
                "that are true.  Non-dyadic lattice: directions {0,+-1,+-3,+-5,+-7}^3 minus 0, integer origins/boxes, deterministic; "
                "model executed at Float/Float32 and compared bit for bit; reported points measured against the exact points.  "
                "Small-T lattice: real templates at a scalar with max() = 4, 6 boxes x origins {-6..5}^3 x directions {0,+-1/8,+-1/2,+-1,+-2}^3, "
                "exact; non-trivial = true results; all 18 guard-fail arms have obliged hit counts.  Guard sweep: 12^3 extreme directions "
                "(+0 and -0 components, the zero directions included) x <=125 origins x boxes; non-trivial = robust exact answers (oracle part), cases with a failing "
                "guard (model@Float tie part); per-class counts of the deterministic blocks pinned, 2x ceiling on seeded blocks; one mid-magnitude "
                "block (1e5..1e15, unit-order directions)")
    okd, out = build_driver()
    chk.oblige("build:drv_raybox", "build", okd, None if okd else out[-800:])
    ok, binary, o = lib.cxx_build("raybox_corr", ["corr/raybox_corr.cpp"])
    chk.oblige("build:raybox_corr", "build", ok, None if ok else o[-800:])
    off = [chk.rng.randint(-3, 3), chk.rng.randint(-3, 3), chk.rng.randint(-3, 3), chk.rng.randint(-1, 2)]

    def search(name):
        # executable form of the theorems: model vs spec oracle on the lattice, replayed on the real code
        if not os.path.exists(DRV):
            return None
        la = lattice_args(QUICK_PAIRS, off)
        rc, b = lib.sh([DRV, "lattice"] + la, timeout=1800)
        for l in b.strip().split("\n"):
            ws = l.split()
            if len(ws) == 6 and ws[5] != "0":
                rc, t = lib.sh([DRV, "lines"] + la + [ws[0]], timeout=600)
                for y in t.strip().split("\n"):
                    parts = y.split(" | ")
                    M, S = parse_fields(parts[1][2:]), parse_fields(parts[2][2:])
                    diff = (M["fe"] != S["fe"] or M["is"] != S["is"] or
                            (M["fe"] == "1" and S["entry"] != "-" and (M["entry"] != S["entry"] or M["exit"] != S["exit"])) or
                            (M["is"] == "1" and M["ip"] != S["ip"]))
                    if diff:
                        hd = parse_fields(parts[0].split(" ", 1)[1])
                        vals = hd["box"].replace(";", ",").split(",") + hd["pos"].split(",") + hd["dir"].split(",")
                        rep = {"key": "theorem-search:box=%s:pos=%s:dir=%s" % (hd["box"], hd["pos"], hd["dir"]),
                               "box_min_max": hd["box"], "pos": hd["pos"], "dir": hd["dir"], "model": parts[1][2:], "spec_exact": parts[2][2:]}
                        if ok:
                            rc, r = lib.sh([binary, "case", "d"] + vals, timeout=60)
                            rep["implementation"] = r.split("\n")[0]
                        return rep
        return None

    chk.check_theorems(MODULE, required=REQUIRED, search=search)
    if chk.thorough:
        chk.leanchecker(MODULE)
    if not ok:
        chk.fail("build:raybox_corr", "build:raybox_corr", "correspondence harness does not compile against the current tree",
                 {"compiler_output": o[-3000:]}, False)
        return
    if not okd:
        chk.fail("build:drv_raybox", "build:drv_raybox", "model driver does not build", {"output": out[-3000:]}, False)
        return
    import time
    t_ = [time.time()]
    def stage(nm):
        t_.append(time.time()); chk.extra.setdefault("stage_wall_s", {})[nm] = round(t_[-1] - t_[-2], 1)
    run_lattice(chk, binary, QUICK_PAIRS, off, "lattice-quick")
    stage("lattice-quick")
    if chk.thorough:
        off2 = [chk.rng.randint(-3, 3), chk.rng.randint(-3, 3), chk.rng.randint(-3, 3), chk.rng.randint(-1, 2)]
        run_lattice(chk, binary, THOROUGH_PAIRS, off2, "lattice-thorough")
    # deterministic non-dyadic direction lattice (grazing edges/corners in quantity), model executed in floating point
    run_nd(chk, binary, ND_QUICK_BOXES, 4, [0, 0, 0], "nondyadic-quick")
    if chk.thorough:
        run_nd(chk, binary, ND_THOROUGH_BOXES, 5, [0, 0, 0], "nondyadic-thorough")
        run_nd(chk, binary, ND_QUICK_BOXES, 4, [chk.rng.randint(-9, 9), chk.rng.randint(-9, 9), chk.rng.randint(-9, 9)],
               "nondyadic-seeded-offset")
    chk.exhaustive = True
    stage("lattice-thorough+nondyadic")
    run_small(chk, binary, SMALL_POS_THOROUGH if chk.thorough else SMALL_POS_QUICK, "small-T-lattice")
    stage("small-T-lattice")
    run_sweep(chk, binary)
    stage("guard-sweep(double+float)")
    # samples: grazing an edge, flat box, axis-parallel ray, empty box
    for desc, vals in (("skew ray grazing the edge x=y=0..1 of the unit cube", "0 0 0 1 1 1 -1 -1 1/2 2 2 -1/4"),
                       ("flat box hit edge-on", "0 0 0 0 1 1 -1 1/2 1/2 1 0 0"),
                       ("axis-parallel ray on a face plane", "0 0 0 1 1 1 -1 1 1/2 1 0 0"),
                       ("inverted (empty) box", "1 0 0 0 1 1 -1 1/2 1/2 1 0 0")):
        rc, r = lib.sh([binary, "case", "d"] + vals.split(), timeout=60)
        rc2, m = lib.sh([DRV, "case", "double"] + vals.split(), timeout=60)
        chk.sample({"input(box min, box max, pos, dir)": vals, "note": desc, "implementation": r.split("\n")[0],
                    "spec_exact": (m.split("\n") + ["", ""])[1]})


def _pins():
    """Print the PINNED table from the current tree (deterministic blocks of the thorough sweep, both types)."""
    import json
    binary = os.path.join(lib.VERIF, ".build", "bin", "raybox_corr")
    res = {}
    for ft, name in (("d", "double"), ("f", "float")):
        rc, blocks = lib.sh([binary, "sweep", ft, "1", "thorough"], timeout=900)
        rc2, out = lib.sh([DRV, "sweep"], stdin=blocks, timeout=3600)
        for l in out.split("\n"):
            ws = l.split(" ")
            if ws[0] == "blockcount" and ws[1].split(":", 1)[1].startswith("fixed-"):
                res.setdefault(name, {}).setdefault(ws[1].split(":", 1)[1], {})[ws[2]] = int(ws[3])
    print("PINNED = " + json.dumps(res, indent=1, sort_keys=True))


# --- generated by `PYTHONPATH=tools python3 tools/props/c14.py` on the tree of 2026-09-26 (after /repo 16a5ca8) ---
# PINNED-BEGIN
PINNED = {
 "double": {
  "fixed-halfinfinite": {
   "findEntryAndExitPoints:hit-to-miss:all-components-fail-guard:t-gt-TMAX": 8,
   "findEntryAndExitPoints:hit-to-miss:box-face-at-TMAX:t-le-TMAX": 40,
   "intersects:miss-to-hit:all-components-fail-guard": 88,
   "intersects:miss-to-hit:box-face-at-TMAX": 208,
   "reported-points:findEntryAndExitPoints:entry-never-written:all-components-fail-guard": 1512,
   "reported-points:findEntryAndExitPoints:entry-never-written:box-face-at-TMAX": 1728,
   "reported-points:findEntryAndExitPoints:entry-never-written:zero-direction": 216,
   "reported-points:findEntryAndExitPoints:exit-never-written:all-components-fail-guard": 1512,
   "reported-points:findEntryAndExitPoints:exit-never-written:box-face-at-TMAX": 1728,
   "reported-points:findEntryAndExitPoints:exit-never-written:zero-direction": 216
  },
  "fixed-huge": {
   "findEntryAndExitPoints:hit-to-miss:all-components-fail-guard:t-gt-TMAX": 128,
   "intersects:miss-to-hit:all-components-fail-guard": 336,
   "reported-points:findEntryAndExitPoints:entry-never-written:all-components-fail-guard": 1512,
   "reported-points:findEntryAndExitPoints:entry-never-written:zero-direction": 216,
   "reported-points:findEntryAndExitPoints:exit-never-written:all-components-fail-guard": 1512,
   "reported-points:findEntryAndExitPoints:exit-never-written:zero-direction": 216
  },
  "fixed-infinite": {
   "reported-points:findEntryAndExitPoints:entry-never-written:all-components-fail-guard": 1512,
   "reported-points:findEntryAndExitPoints:entry-never-written:box-face-at-TMAX": 1216,
   "reported-points:findEntryAndExitPoints:entry-never-written:face-minus-pos-overflows": 19008,
   "reported-points:findEntryAndExitPoints:entry-never-written:zero-direction": 216,
   "reported-points:findEntryAndExitPoints:exit-never-written:all-components-fail-guard": 1512,
   "reported-points:findEntryAndExitPoints:exit-never-written:box-face-at-TMAX": 1216,
   "reported-points:findEntryAndExitPoints:exit-never-written:face-minus-pos-overflows": 19008,
   "reported-points:findEntryAndExitPoints:exit-never-written:zero-direction": 216
  },
  "fixed-mid": {
   "reported-points:findEntryAndExitPoints:entry-never-written:zero-direction": 27,
   "reported-points:findEntryAndExitPoints:exit-never-written:zero-direction": 27
  },
  "fixed-offcentre": {
   "findEntryAndExitPoints:hit-to-miss:all-components-fail-guard:t-gt-TMAX": 112,
   "intersects:miss-to-hit:all-components-fail-guard": 240,
   "reported-points:findEntryAndExitPoints:entry-never-written:all-components-fail-guard": 1512,
   "reported-points:findEntryAndExitPoints:entry-never-written:zero-direction": 216,
   "reported-points:findEntryAndExitPoints:exit-never-written:all-components-fail-guard": 1512,
   "reported-points:findEntryAndExitPoints:exit-never-written:zero-direction": 216
  },
  "fixed-ordinary": {
   "findEntryAndExitPoints:hit-to-miss:all-components-fail-guard:t-gt-TMAX": 144,
   "intersects:miss-to-hit:all-components-fail-guard": 272,
   "reported-points:findEntryAndExitPoints:entry-never-written:all-components-fail-guard": 1512,
   "reported-points:findEntryAndExitPoints:entry-never-written:zero-direction": 216,
   "reported-points:findEntryAndExitPoints:exit-never-written:all-components-fail-guard": 1512,
   "reported-points:findEntryAndExitPoints:exit-never-written:zero-direction": 216
  },
  "fixed-overflow": {
   "findEntryAndExitPoints:hit-to-miss:all-components-fail-guard:t-gt-TMAX": 16,
   "findEntryAndExitPoints:hit-to-miss:face-minus-pos-overflows": 196,
   "findEntryAndExitPoints:miss-to-hit:face-minus-pos-overflows": 8,
   "intersects:hit-to-miss:face-minus-pos-overflows": 58,
   "intersects:miss-to-hit:all-components-fail-guard": 32,
   "intersects:miss-to-hit:face-minus-pos-overflows": 52,
   "reported-points:findEntryAndExitPoints:entry-never-written:face-minus-pos-overflows": 32,
   "reported-points:findEntryAndExitPoints:exit-never-written:face-minus-pos-overflows": 32
  },
  "fixed-overflow-neg-x": {
   "findEntryAndExitPoints:hit-to-miss:all-components-fail-guard:t-gt-TMAX": 16,
   "findEntryAndExitPoints:hit-to-miss:face-minus-pos-overflows": 196,
   "findEntryAndExitPoints:miss-to-hit:face-minus-pos-overflows": 8,
   "intersects:hit-to-miss:face-minus-pos-overflows": 58,
   "intersects:miss-to-hit:all-components-fail-guard": 32,
   "intersects:miss-to-hit:face-minus-pos-overflows": 52,
   "reported-points:findEntryAndExitPoints:entry-never-written:face-minus-pos-overflows": 32,
   "reported-points:findEntryAndExitPoints:exit-never-written:face-minus-pos-overflows": 32
  },
  "fixed-overflow-neg-y": {
   "findEntryAndExitPoints:hit-to-miss:all-components-fail-guard:t-gt-TMAX": 16,
   "findEntryAndExitPoints:hit-to-miss:face-minus-pos-overflows": 196,
   "findEntryAndExitPoints:miss-to-hit:face-minus-pos-overflows": 8,
   "intersects:hit-to-miss:face-minus-pos-overflows": 58,
   "intersects:miss-to-hit:all-components-fail-guard": 32,
   "intersects:miss-to-hit:face-minus-pos-overflows": 52,
   "reported-points:findEntryAndExitPoints:entry-never-written:face-minus-pos-overflows": 32,
   "reported-points:findEntryAndExitPoints:exit-never-written:face-minus-pos-overflows": 32
  },
  "fixed-overflow-neg-z": {
   "findEntryAndExitPoints:hit-to-miss:all-components-fail-guard:t-gt-TMAX": 16,
   "findEntryAndExitPoints:hit-to-miss:face-minus-pos-overflows": 196,
   "findEntryAndExitPoints:miss-to-hit:face-minus-pos-overflows": 8,
   "intersects:hit-to-miss:face-minus-pos-overflows": 58,
   "intersects:miss-to-hit:all-components-fail-guard": 32,
   "intersects:miss-to-hit:face-minus-pos-overflows": 52,
   "reported-points:findEntryAndExitPoints:entry-never-written:face-minus-pos-overflows": 32,
   "reported-points:findEntryAndExitPoints:exit-never-written:face-minus-pos-overflows": 32
  },
  "fixed-overflow-y": {
   "findEntryAndExitPoints:hit-to-miss:all-components-fail-guard:t-gt-TMAX": 16,
   "findEntryAndExitPoints:hit-to-miss:face-minus-pos-overflows": 196,
   "findEntryAndExitPoints:miss-to-hit:face-minus-pos-overflows": 8,
   "intersects:hit-to-miss:face-minus-pos-overflows": 58,
   "intersects:miss-to-hit:all-components-fail-guard": 32,
   "intersects:miss-to-hit:face-minus-pos-overflows": 52,
   "reported-points:findEntryAndExitPoints:entry-never-written:face-minus-pos-overflows": 32,
   "reported-points:findEntryAndExitPoints:exit-never-written:face-minus-pos-overflows": 32
  },
  "fixed-overflow-z": {
   "findEntryAndExitPoints:hit-to-miss:all-components-fail-guard:t-gt-TMAX": 16,
   "findEntryAndExitPoints:hit-to-miss:face-minus-pos-overflows": 196,
   "findEntryAndExitPoints:miss-to-hit:face-minus-pos-overflows": 8,
   "intersects:hit-to-miss:face-minus-pos-overflows": 58,
   "intersects:miss-to-hit:all-components-fail-guard": 32,
   "intersects:miss-to-hit:face-minus-pos-overflows": 52,
   "reported-points:findEntryAndExitPoints:entry-never-written:face-minus-pos-overflows": 32,
   "reported-points:findEntryAndExitPoints:exit-never-written:face-minus-pos-overflows": 32
  },
  "fixed-underflow-t-max": {
   "findEntryAndExitPoints:hit-to-miss:all-components-fail-guard:t-le-TMAX": 304,
   "reported-points:findEntryAndExitPoints:entry-never-written:all-components-fail-guard": 56,
   "reported-points:findEntryAndExitPoints:entry-never-written:zero-direction": 8,
   "reported-points:findEntryAndExitPoints:exit-never-written:all-components-fail-guard": 56,
   "reported-points:findEntryAndExitPoints:exit-never-written:zero-direction": 8
  },
  "fixed-underflow-t-min": {
   "findEntryAndExitPoints:hit-to-miss:all-components-fail-guard:t-le-TMAX": 304,
   "reported-points:findEntryAndExitPoints:entry-never-written:all-components-fail-guard": 56,
   "reported-points:findEntryAndExitPoints:entry-never-written:zero-direction": 8,
   "reported-points:findEntryAndExitPoints:exit-never-written:all-components-fail-guard": 56,
   "reported-points:findEntryAndExitPoints:exit-never-written:zero-direction": 8
  }
 },
 "float": {
  "fixed-halfinfinite": {
   "findEntryAndExitPoints:hit-to-miss:all-components-fail-guard:t-gt-TMAX": 8,
   "findEntryAndExitPoints:hit-to-miss:box-face-at-TMAX:t-le-TMAX": 40,
   "intersects:miss-to-hit:all-components-fail-guard": 88,
   "intersects:miss-to-hit:box-face-at-TMAX": 208,
   "reported-points:findEntryAndExitPoints:entry-never-written:all-components-fail-guard": 1512,
   "reported-points:findEntryAndExitPoints:entry-never-written:box-face-at-TMAX": 1728,
   "reported-points:findEntryAndExitPoints:entry-never-written:zero-direction": 216,
   "reported-points:findEntryAndExitPoints:exit-never-written:all-components-fail-guard": 1512,
   "reported-points:findEntryAndExitPoints:exit-never-written:box-face-at-TMAX": 1728,
   "reported-points:findEntryAndExitPoints:exit-never-written:zero-direction": 216
  },
  "fixed-huge": {
   "findEntryAndExitPoints:hit-to-miss:all-components-fail-guard:t-gt-TMAX": 304,
   "intersects:miss-to-hit:all-components-fail-guard": 1056,
   "reported-points:findEntryAndExitPoints:entry-never-written:all-components-fail-guard": 3672,
   "reported-points:findEntryAndExitPoints:entry-never-written:zero-direction": 216,
   "reported-points:findEntryAndExitPoints:exit-never-written:all-components-fail-guard": 3672,
   "reported-points:findEntryAndExitPoints:exit-never-written:zero-direction": 216
  },
  "fixed-infinite": {
   "reported-points:findEntryAndExitPoints:entry-never-written:all-components-fail-guard": 1512,
   "reported-points:findEntryAndExitPoints:entry-never-written:box-face-at-TMAX": 1216,
   "reported-points:findEntryAndExitPoints:entry-never-written:face-minus-pos-overflows": 19008,
   "reported-points:findEntryAndExitPoints:entry-never-written:zero-direction": 216,
   "reported-points:findEntryAndExitPoints:exit-never-written:all-components-fail-guard": 1512,
   "reported-points:findEntryAndExitPoints:exit-never-written:box-face-at-TMAX": 1216,
   "reported-points:findEntryAndExitPoints:exit-never-written:face-minus-pos-overflows": 19008,
   "reported-points:findEntryAndExitPoints:exit-never-written:zero-direction": 216
  },
  "fixed-mid": {
   "reported-points:findEntryAndExitPoints:entry-never-written:zero-direction": 27,
   "reported-points:findEntryAndExitPoints:exit-never-written:zero-direction": 27
  },
  "fixed-offcentre": {
   "findEntryAndExitPoints:hit-to-miss:all-components-fail-guard:t-gt-TMAX": 112,
   "intersects:miss-to-hit:all-components-fail-guard": 240,
   "reported-points:findEntryAndExitPoints:entry-never-written:all-components-fail-guard": 1512,
   "reported-points:findEntryAndExitPoints:entry-never-written:zero-direction": 216,
   "reported-points:findEntryAndExitPoints:exit-never-written:all-components-fail-guard": 1512,
   "reported-points:findEntryAndExitPoints:exit-never-written:zero-direction": 216
  },
  "fixed-ordinary": {
   "findEntryAndExitPoints:hit-to-miss:all-components-fail-guard:t-gt-TMAX": 144,
   "intersects:miss-to-hit:all-components-fail-guard": 272,
   "reported-points:findEntryAndExitPoints:entry-never-written:all-components-fail-guard": 1512,
   "reported-points:findEntryAndExitPoints:entry-never-written:zero-direction": 216,
   "reported-points:findEntryAndExitPoints:exit-never-written:all-components-fail-guard": 1512,
   "reported-points:findEntryAndExitPoints:exit-never-written:zero-direction": 216
  },
  "fixed-overflow": {
   "findEntryAndExitPoints:hit-to-miss:all-components-fail-guard:t-gt-TMAX": 16,
   "findEntryAndExitPoints:hit-to-miss:face-minus-pos-overflows": 236,
   "findEntryAndExitPoints:miss-to-hit:face-minus-pos-overflows": 16,
   "intersects:hit-to-miss:face-minus-pos-overflows": 78,
   "intersects:miss-to-hit:all-components-fail-guard": 32,
   "intersects:miss-to-hit:face-minus-pos-overflows": 56,
   "reported-points:findEntryAndExitPoints:entry-never-written:face-minus-pos-overflows": 32,
   "reported-points:findEntryAndExitPoints:exit-never-written:face-minus-pos-overflows": 32
  },
  "fixed-overflow-neg-x": {
   "findEntryAndExitPoints:hit-to-miss:all-components-fail-guard:t-gt-TMAX": 16,
   "findEntryAndExitPoints:hit-to-miss:face-minus-pos-overflows": 236,
   "findEntryAndExitPoints:miss-to-hit:face-minus-pos-overflows": 16,
   "intersects:hit-to-miss:face-minus-pos-overflows": 78,
   "intersects:miss-to-hit:all-components-fail-guard": 32,
   "intersects:miss-to-hit:face-minus-pos-overflows": 56,
   "reported-points:findEntryAndExitPoints:entry-never-written:face-minus-pos-overflows": 32,
   "reported-points:findEntryAndExitPoints:exit-never-written:face-minus-pos-overflows": 32
  },
  "fixed-overflow-neg-y": {
   "findEntryAndExitPoints:hit-to-miss:all-components-fail-guard:t-gt-TMAX": 16,
   "findEntryAndExitPoints:hit-to-miss:face-minus-pos-overflows": 236,
   "findEntryAndExitPoints:miss-to-hit:face-minus-pos-overflows": 16,
   "intersects:hit-to-miss:face-minus-pos-overflows": 78,
   "intersects:miss-to-hit:all-components-fail-guard": 32,
   "intersects:miss-to-hit:face-minus-pos-overflows": 56,
   "reported-points:findEntryAndExitPoints:entry-never-written:face-minus-pos-overflows": 32,
   "reported-points:findEntryAndExitPoints:exit-never-written:face-minus-pos-overflows": 32
  },
  "fixed-overflow-neg-z": {
   "findEntryAndExitPoints:hit-to-miss:all-components-fail-guard:t-gt-TMAX": 16,
   "findEntryAndExitPoints:hit-to-miss:face-minus-pos-overflows": 236,
   "findEntryAndExitPoints:miss-to-hit:face-minus-pos-overflows": 16,
   "intersects:hit-to-miss:face-minus-pos-overflows": 78,
   "intersects:miss-to-hit:all-components-fail-guard": 32,
   "intersects:miss-to-hit:face-minus-pos-overflows": 56,
   "reported-points:findEntryAndExitPoints:entry-never-written:face-minus-pos-overflows": 32,
   "reported-points:findEntryAndExitPoints:exit-never-written:face-minus-pos-overflows": 32
  },
  "fixed-overflow-y": {
   "findEntryAndExitPoints:hit-to-miss:all-components-fail-guard:t-gt-TMAX": 16,
   "findEntryAndExitPoints:hit-to-miss:face-minus-pos-overflows": 236,
   "findEntryAndExitPoints:miss-to-hit:face-minus-pos-overflows": 16,
   "intersects:hit-to-miss:face-minus-pos-overflows": 78,
   "intersects:miss-to-hit:all-components-fail-guard": 32,
   "intersects:miss-to-hit:face-minus-pos-overflows": 56,
   "reported-points:findEntryAndExitPoints:entry-never-written:face-minus-pos-overflows": 32,
   "reported-points:findEntryAndExitPoints:exit-never-written:face-minus-pos-overflows": 32
  },
  "fixed-overflow-z": {
   "findEntryAndExitPoints:hit-to-miss:all-components-fail-guard:t-gt-TMAX": 16,
   "findEntryAndExitPoints:hit-to-miss:face-minus-pos-overflows": 236,
   "findEntryAndExitPoints:miss-to-hit:face-minus-pos-overflows": 16,
   "intersects:hit-to-miss:face-minus-pos-overflows": 78,
   "intersects:miss-to-hit:all-components-fail-guard": 32,
   "intersects:miss-to-hit:face-minus-pos-overflows": 56,
   "reported-points:findEntryAndExitPoints:entry-never-written:face-minus-pos-overflows": 32,
   "reported-points:findEntryAndExitPoints:exit-never-written:face-minus-pos-overflows": 32
  },
  "fixed-underflow-t-max": {
   "findEntryAndExitPoints:hit-to-miss:all-components-fail-guard:t-le-TMAX": 304,
   "reported-points:findEntryAndExitPoints:entry-never-written:all-components-fail-guard": 56,
   "reported-points:findEntryAndExitPoints:entry-never-written:zero-direction": 8,
   "reported-points:findEntryAndExitPoints:exit-never-written:all-components-fail-guard": 56,
   "reported-points:findEntryAndExitPoints:exit-never-written:zero-direction": 8
  },
  "fixed-underflow-t-min": {
   "findEntryAndExitPoints:hit-to-miss:all-components-fail-guard:t-le-TMAX": 304,
   "reported-points:findEntryAndExitPoints:entry-never-written:all-components-fail-guard": 56,
   "reported-points:findEntryAndExitPoints:entry-never-written:zero-direction": 8,
   "reported-points:findEntryAndExitPoints:exit-never-written:all-components-fail-guard": 56,
   "reported-points:findEntryAndExitPoints:exit-never-written:zero-direction": 8
  }
 }
}
# PINNED-END

if __name__ == "__main__":
    _pins()
