"""C08 — length() and normalisation are accurate for every non-overflowing vector.

T-route theorems (exact semantics, all real vectors) + MEASURED residue (ulp accuracy, subnormal handling,
no NaN/inf).  The residue is the heart of C08 and is not proved: the property is only PARTIALLY proved."""
import os, re
import lib, troute

# evidence category (lib.Check accepts only the manifest categories); the PARTIAL status — exact semantics proved,
# floating-point accuracy measured — is stated in chk.assumptions, chk.residues and the manifest text
LEVEL = "proof"
PROPS = "ImathVerif.Props.C08"
LEMMAS = ["ImathVerif.Lemmas.C08Lemmas", "ImathVerif.Lemmas.C08LemmasV4"]

FORMS = ["normalize", "normalizeExc", "normalizeNonNull", "normalized", "normalizedExc", "normalizedNonNull"]
REQUIRED = ["hsqrt_real"]
for _v in ("V2", "V3", "V4"):
    REQUIRED += [_v + s for s in ("_length_spec", "_length_spec_real", "_length_eq_zero_iff", "_length2", "_normalized_length_one",
                                  "_normalize_forms_agree", "_normalize_zero", "_normalized_zero", "_normalizeExc_zero",
                                  "_normalizedExc_zero", "_normalizeExc_throws_iff", "_normalizedExc_throws_iff")]
    REQUIRED += ["%s_%s_of_ne_zero" % (_v, f) for f in FORMS]
REQUIRED_LEMMAS = {"ImathVerif.Lemmas.C08Lemmas": ["V2_length_eq", "V3_length_eq", "scaled2", "scaled3"],
                   "ImathVerif.Lemmas.C08LemmasV4": ["V4_length_eq"]}

_lattice_cache = {}


def function_of(theorem):
    """the C++ member a theorem is about, as the residue harness names it (V3.normalizedExc, V4.length, ...)"""
    m = re.match(r"(V[234])_(length2|length|normalizedNonNull|normalizeNonNull|normalizedExc|normalizeExc|normalized|normalize)", theorem)
    return "%s.%s" % (m.group(1), m.group(2)) if m else None


def lattice(chk, binary, fn):
    if fn not in _lattice_cache:
        rc, out = lib.sh([binary, str(chk.seed), "lattice", fn or "all"], timeout=600)
        _lattice_cache[fn] = (rc, out)
    return _lattice_cache[fn]


def make_search(chk, binary):
    def search(name):
        """A theorem stopped elaborating: look for a concrete small-integer vector (four scales: direct branch,
        lengthTiny branch for underflow, subnormal, lengthTiny branch for overflowing squares) on which the REAL code disagrees with the exact norm / quotient.  Only the function
        the theorem is about (and the length() it calls) is consulted, so that a theorem which fails merely because a
        sibling's lemma module no longer builds is reported without a misleading input."""
        if not binary:
            return None
        fn = function_of(name)
        tried = [fn] if fn else []
        if fn and fn.split(".")[1].startswith("normal"):
            tried.append(fn.split(".")[0] + ".length")  # a normalize theorem can break because length() changed
        for f in (tried if fn else [None]):
            rc, out = lattice(chk, binary, f)
            fails = [l for l in out.split("\n") if l.startswith("RESIDUE-FAIL")]
            if fails:
                p = fails[0].split()
                return {"key": "theorem:" + name, "real_code_function": p[1], "element_type": p[2], "what": p[3],
                        "failing_input_hex_floats": p[4][3:], "detail": " ".join(p[5:]), "falsified_lattice_cases": len(fails),
                        "replay_cmd": ".build/bin/c08_residue %d lattice %s" % (chk.seed, f or "all"),
                        "oracle": "113-bit sqrt of the exact sum of squares on the integer lattice [-3,3]^N x {1, 2^(emin/2-8), 2^(eminsub+4), 2^(emax/2+6)}"}
        return None
    return search


def residue(chk, binary):
    reps = 24 if chk.thorough else 2
    rc, out = lib.sh([binary, str(chk.seed), "sweep", str(reps), "1"], timeout=3000)
    m = re.search(r"RESIDUE mode=sweep seed=\d+ vectors=(\d+) evals=(\d+) failures=(\d+)", out)
    ok = rc == 0 and m is not None and int(m.group(3)) == 0
    chk.oblige("residue: length() within the calibrated few-ulp bounds of the 113-bit norm on every exponent x mantissa pattern x "
               "structure x dimension x {float,double}; zero only for zero; normalize*: unit length / sign / ratio / zero->zero / "
               "never NaN or inf (MEASURED, not proved)", "residue", ok)
    agg = {}
    for l in out.split("\n"):
        mm = re.match(r"CLASS (\w+)\|(\w+)\|(\d)\|(\S+) max=([\d.]+) n=(\d+) worst=(\S*)", l)
        if mm:
            metric, ty, dim, cls, mx, n, worst = mm.groups()
            a = agg.setdefault(metric, {}).setdefault(cls if metric != "normalize_subnormal_norm_finite" else "form=" + cls, {})
            a["Vec%s<%s>" % (dim, ty)] = {"max": float(mx), "count": int(n), "worst_input": worst}
    if m:
        chk.count(int(m.group(2)), int(m.group(2)))
        chk.residues["C08"] = {
            "status": "MEASURED, NOT PROVED (level partial): floating-point accuracy of length()/normalize* against a 113-bit reference",
            "vectors": int(m.group(1)), "evaluations": int(m.group(2)), "random_mantissas_per_exponent": reps,
            "exponents": "every binary exponent: float 2^-149..2^126, double 2^-1074..2^1022 (components up to max/2: squares may "
                         "overflow, the length is representable; a reference norm above max would be skipped: %s skipped)" % (
                             (re.search(r"skipped_norm_above_max=(\d+)", out) or [None, "?"])[1]),
            "bounds": {"length_ulps": {"tiny-branch/subnormal-norm": 2.5, "tiny-branch/normal-norm": 3.7, "direct/near-threshold": 3.2, "direct": 2.6,
                                       "scaled-branch/squares-overflow": 3.7},
                       "unit_err_eps": 2.8, "ratio_err_u": 4.9,
                       "how_fixed": "clean-tree maximum over seeds 1-3 (2 and 24 mantissas per exponent) + 1, re-calibrated on /repo 16a5ca8: "
                                    "measured maxima 1.44 / 2.65 / 2.15 / 1.58 ulps, overflow class 2.75 ulps (shares the bound of the "
                                    "normal-norm scaled branch), 1.71 eps, 3.87 u"},
            "measured_this_run": {k: {c: max(v["max"] for v in d.values()) for c, d in cl.items()} for k, cl in agg.items()
                                  if k != "normalize_subnormal_norm_finite"},
            "per_class": agg}
    seen = set()
    for l in [l for l in out.split("\n") if l.startswith("RESIDUE-FAIL")]:
        p = l.split()
        key = "residue:%s:%s:%s" % (p[1], p[2], p[3])
        if key in seen:
            continue
        seen.add(key)
        chk.fail("residue:" + p[1], key, "measured floating-point behaviour of %s<%s> violates C08 (%s): %s" % (p[1], p[2], p[3], l[:400]),
                 {"function": p[1], "element_type": p[2], "what": p[3], "input_hex_floats": p[4][3:], "detail": " ".join(p[5:]),
                  "replay_cmd": ".build/bin/c08_residue %d sweep %d 1" % (chk.seed, reps)}, True)
        if len(seen) >= 40:
            break
    if not ok and not seen:
        chk.fail("residue", "residue:run", "residue harness failed to run", {"output": out[-2000:]}, False)


def run(chk):
    chk.trusted = ["Lean 4.33 kernel; axioms propext/Classical.choice/Quot.sound at most", "Mathlib's ordered fields and Real.sqrt",
                   "translator harness/sym (real Vec2/3/4::length bodies incl. lengthTiny: 9/129/513 paths), validated each run by TV "
                   "(bitwise at float and double) and by evaluating the emitted Lean text at Rat",
                   "__float128 / libquadmath sqrtq as the oracle of the measured residue"]
    chk.assumptions = ["PARTIAL: ulp accuracy of length(), handling of underflowing / subnormal squares, and absence of NaN/inf in the "
                       "normalize family are NOT proved; they are measured against a 113-bit reference with bounds fixed at the "
                       "clean-tree maximum + 1 (structured sweep, not exhaustive)",
                       "theorems are about exact arithmetic over an ordered field with sqrt (and over R with Real.sqrt)"]
    chk.rule = ("theorems: every vector and all limit parameters tmin, tmax. residue: every binary exponent (smallest subnormal .. "
                "max/2, so squares that overflow with a representable length are included) x mantissas {1, 1.5, 1+ulp, 2-ulp, random} x {single non-zero component with signed zeros, all equal, "
                "mixed magnitudes with gaps 0..full range, signed zeros mixed} x Vec2/3/4 x float/double, plus vectors placed around "
                "the 2*min threshold, around norm = min and around the dot = max overflow guard, plus all-zero sign patterns; "
                "integer lattice at four scales")
    bins = troute.build_extractors(chk, [dict(name="sym_leaf", source="sym/sym_leaf.cpp"), dict(name="sym_c08", source="sym/sym_c08.cpp")])
    okr, rbin, rlog = lib.cxx_build("c08_residue", ["corr/c08_residue.cpp"], libs=["-lquadmath"])
    chk.oblige("build:c08_residue", "build", okr, None if okr else rlog[-1500:])
    if not okr:
        chk.fail("build:c08_residue", "build:c08_residue", "the residue harness no longer compiles against the current headers",
                 {"compiler_errors": [l for l in rlog.split("\n") if "error" in l][:12]}, False)
        rbin = None
    leaf_index = os.path.join(troute.GEN, "index_leaf.txt")
    if bins.get("sym_leaf"):
        lindex, _ = troute.regenerate(chk, bins["sym_leaf"], "leaf")
        troute.tv(chk, bins["sym_leaf"], "leaf", 2000 if chk.thorough else 400)
        troute.lean_tv(chk, bins["sym_leaf"], "leaf", lindex, n=6 if chk.thorough else 3)
        for d in lindex:
            chk.sample({"entry": d["name"], "paths": d.get("paths")})
    if bins.get("sym_c08") and bins.get("sym_leaf"):
        index, _ = troute.regenerate(chk, bins["sym_c08"], "c08", idx_deps=[leaf_index])
        troute.tv(chk, bins["sym_c08"], "c08", 400 if chk.thorough else 64, idx_deps=[leaf_index])
        troute.lean_tv(chk, bins["sym_c08"], "c08", index, n=6 if chk.thorough else 3, idx_deps=[leaf_index])
    search = make_search(chk, rbin)
    for mod in LEMMAS:
        chk.check_theorems(mod, required=REQUIRED_LEMMAS[mod], search=search)
    chk.check_theorems(PROPS, required=REQUIRED, search=search)
    if rbin:
        # exact-semantics agreement of the REAL code with the proved spec on the integer lattice (four scales)
        rc, out = lattice(chk, rbin, None)
        m = re.search(r"RESIDUE mode=lattice seed=\d+ vectors=(\d+) evals=(\d+) failures=(\d+)", out)
        okl = rc == 0 and m is not None and int(m.group(3)) == 0
        chk.oblige("lattice: real length/length2/normalize* = norm / quotients on [-3,3]^N at four scales", "correspondence", okl)
        if m:
            chk.count(int(m.group(2)), int(m.group(2)))
            chk.extra["lattice"] = {"vectors": int(m.group(1)), "evaluations": int(m.group(2))}
        if not okl:
            fails = [l for l in out.split("\n") if l.startswith("RESIDUE-FAIL")]
            seen = set()
            for l in fails:
                p = l.split()
                key = "lattice:%s:%s:%s" % (p[1], p[2], p[3])
                if key not in seen:
                    seen.add(key)
                    chk.fail("lattice:" + p[1], key, "real code disagrees with the exact norm / quotient on a small integer vector: " + l[:300],
                             {"line": l, "replay_cmd": ".build/bin/c08_residue %d lattice all" % chk.seed}, True)
            if not fails:
                chk.fail("lattice", "lattice:run", "lattice harness failed to run", {"output": out[-1500:]}, False)
        residue(chk, rbin)
    if chk.thorough:
        for mod in LEMMAS + [PROPS]:
            chk.leanchecker(mod)
