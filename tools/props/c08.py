"""C08 — length() and normalisation are accurate for every non-overflowing vector.

T-route theorems (VALUE: exact semantics, all real vectors, every tmin tmax; SHAPE: the guard, lengthTiny and the quotients as written,
syntactic, own key `shape:<fn>`) + MEASURED residue (ulp accuracy with classes from the reference, bitwise branch probe at both
thresholds, drift against the calibration, bit-exact lattice, subnormal handling, no NaN/inf; thorough: all 2^31 floats in six families).
The residue is the heart of C08 and is not proved: the property is only PARTIALLY proved."""
import os, re
import lib, troute

# evidence category (lib.Check accepts only the manifest categories); the PARTIAL status — exact semantics proved,
# floating-point accuracy measured — is stated in chk.assumptions, chk.residues and the manifest text
LEVEL = "proof"
PROPS = "ImathVerif.Props.C08"
LEMMAS = ["ImathVerif.Lemmas.C08Lemmas", "ImathVerif.Lemmas.C08LemmasV4"]

FORMS = ["normalize", "normalizeExc", "normalizeNonNull", "normalized", "normalizedExc", "normalizedNonNull"]
REQUIRED = ["hsqrt_real"]
for _v in ("V2", "V3", "V4"):
    REQUIRED += [_v + s for s in ("_length_spec", "_length_spec_real", "_length_eq_zero_iff", "_length2", "_normalized_length_one",
                                  "_normalize_forms_agree", "_normalize_zero", "_normalized_zero", "_normalizeExc_zero",
                                  "_normalizedExc_zero", "_normalizeExc_throws_iff", "_normalizedExc_throws_iff")]
    REQUIRED += ["%s_%s_of_ne_zero" % (_v, f) for f in FORMS]
    # (audit W7) the remaining statement-bearing theorems are required too
    REQUIRED += [_v + s for s in ("_length_nonneg", "_dot_self", "_normalized_real")] + ["%s_%s_eq" % (_v, f) for f in ("normalize", "normalized")]
REQUIRED_LEMMAS = {"ImathVerif.Lemmas.C08Lemmas": ["V2_length_eq", "V3_length_eq", "V2_length_sq", "V3_length_sq", "scaled2", "scaled3", "scaled_div",
                                                   "sqrt_unique"],
                   "ImathVerif.Lemmas.C08LemmasV4": ["V4_length_eq", "V4_length_sq"]}
# SHAPE theorems (syntactic; Props/C08Shape.lean): reported under their own key `shape:<function>`
SHAPE = "ImathVerif.Props.C08Shape"
SHAPE_REQUIRED = ["peel_guard", "peel_abs", "peel_max"] + ["%s_%s_shape" % (v, f) for v in ("V2", "V3", "V4") for f in ["length"] + FORMS]

# one PROVED rounding statement (Props/C08Rounding.lean): direct branch of Vec2::length() in the standard model, on the extracted tree run over rounded reals
ROUNDING = "ImathVerif.Props.C08Rounding"
ROUNDING_REQUIRED = ["RoundModel.bounds", "direct2_rounding", "V2_length_direct_eq", "V2_length_direct_rounded"]

# calibration of the measured residue: clean-tree maxima over seeds 1-3 (quick: 2, thorough: 24 random mantissas per exponent), classes
# derived from the REFERENCE dot.  The bounds (harness) are these maxima + 1; the drift obligation allows + DRIFT.
CALIBRATED = {
    "quick": {"length_ulps": {"tiny-branch/subnormal-norm": 1.37, "tiny-branch/normal-norm": 2.46, "direct/near-threshold": 1.54, "direct": 1.35,
                              "scaled-branch/squares-overflow": 2.62},
              "length_ulps_adv": {"two-maxima": 1.44, "max-subnormal": 0.87},
              "unit_err_eps": {"direct": 1.32, "tiny-branch": 1.72, "scaled-overflow": 1.64},
              "ratio_err_u": {"direct": 3.04, "tiny-branch": 3.73, "scaled-overflow": 4.08}},
    "thorough": {"length_ulps": {"tiny-branch/subnormal-norm": 1.49, "tiny-branch/normal-norm": 2.81, "direct/near-threshold": 2.08, "direct": 1.71,
                                 "scaled-branch/squares-overflow": 2.80},
                 "length_ulps_adv": {"two-maxima": 1.50, "max-subnormal": 1.20},
                 "unit_err_eps": {"direct": 1.72, "tiny-branch": 1.70, "scaled-overflow": 1.69},
                 "ratio_err_u": {"direct": 3.43, "tiny-branch": 3.87, "scaled-overflow": 3.90}}}
# bounds = the largest clean-tree maximum of ANY calibration run so far (1.49 / 2.87 / 2.08 / 1.74 / 2.85 ulps, 1.73 eps, 4.08 u) + 1, rounded up to 0.1
BOUNDS = {"length_ulps": {"tiny-branch/subnormal-norm": 2.5, "tiny-branch/normal-norm": 3.9, "direct/near-threshold": 3.1, "direct": 2.8,
                          "scaled-branch/squares-overflow": 3.9}, "unit_err_eps": 2.8, "ratio_err_u": 5.1}      # = harness/corr/c08_residue.cpp
DRIFT = 0.5

_lattice_cache = {}


def function_of(theorem):
    """the C++ member a theorem is about, as the residue harness names it (V3.normalizedExc, V4.length, ...)"""
    m = re.match(r"(V[234])_(length2|length|normalizedNonNull|normalizeNonNull|normalizedExc|normalizeExc|normalized|normalize)", theorem)
    return "%s.%s" % (m.group(1), m.group(2)) if m else None


def lattice(chk, binary, fn):
    if fn not in _lattice_cache:
        rc, out = lib.sh([binary, str(chk.seed), "lattice", fn or "all"], timeout=600)
        _lattice_cache[fn] = (rc, out)
    return _lattice_cache[fn]


def make_search(chk, binary):
    def search(name):
        """A theorem stopped elaborating: look for a concrete small-integer vector (four scales: direct branch,
        lengthTiny branch for underflow, subnormal, lengthTiny branch for overflowing squares) on which the REAL code disagrees with the exact norm / quotient.  Only the function
        the theorem is about (and the length() it calls) is consulted, so that a theorem which fails merely because a
        sibling's lemma module no longer builds is reported without a misleading input."""
        if not binary:
            return None
        fn = function_of(name)
        tried = [fn] if fn else []
        if fn and fn.split(".")[1].startswith("normal"):
            tried.append(fn.split(".")[0] + ".length")  # a normalize theorem can break because length() changed
        for f in (tried if fn else [None]):
            rc, out = lattice(chk, binary, f)
            fails = [l for l in out.split("\n") if l.startswith("RESIDUE-FAIL")]
            if fails:
                p = fails[0].split()
                return {"key": "theorem:" + name, "real_code_function": p[1], "element_type": p[2], "what": p[3],
                        "failing_input_hex_floats": p[4][3:], "detail": " ".join(p[5:]), "falsified_lattice_cases": len(fails),
                        "replay_cmd": ".build/bin/c08_residue %d lattice %s" % (chk.seed, f or "all"),
                        "oracle": "113-bit sqrt of the exact sum of squares on the integer lattice [-3,3]^N x {1, 2^(emin/2-8), 2^(eminsub+4), 2^(emax/2+6)}"}
        return None
    return search


def tv_leaf_coverage(chk, binary, index, tag, idx_deps=()):
    """C++-side TV with RECORDED leaf coverage (audit W5, r2 N3), at double AND float: every leaf reachable with the real limits is visited
    (small integer components incl. the zero vector, at three scales) and the real instantiation equals the extracted tree bit for bit.
    tag "leaf": every non-literal leaf of V2/V3/V4.length + the literal-0 leaf under the underflow guard.
    tag "c08": EVERY leaf of every entry (2/2 for the branching normalize forms: the `length() == 0` leaf is reached by the zero vector)."""
    cmd = [binary, "tvwit"]
    for d in idx_deps:
        cmd += ["--idx", d]
    rc, out = lib.sh(cmd, timeout=600)
    rows = {}
    for l in out.split("\n"):
        m = re.match(r"TVWIT (\S+) (\w+) leaves=(\d+) hit=(\d+) nonconst_leaves=(\d+) nonconst_hit=(\d+) const_leaves=(\d+) const_hit=(\d+) evaluations=(\d+) mismatches=(\d+)", l)
        if m:
            rows[m.group(1) + "@" + m.group(2)] = dict(zip(("leaves", "hit", "nonconst_leaves", "nonconst_hit", "const_leaves", "const_hit", "evaluations", "mismatches"),
                                                           map(int, m.groups()[2:])))
    want = set(d["name"] + "@" + t for d in index for t in ("double", "float"))
    paths = {d["name"]: int(d.get("paths", -1)) for d in index}
    if tag == "leaf":
        full = lambda k, v: v["nonconst_hit"] == v["nonconst_leaves"] and v["const_hit"] >= 1
        text = ("tv:leaf: real length() = extracted tree, bitwise, at double AND float on EVERY leaf reachable with the real limits (%s non-literal leaves per type; "
                "the literal-0 leaf under the underflow guard; under dot > max it needs max < 0)" %
                ", ".join("%s %d/%d" % (k.split("@")[0], v["nonconst_hit"], v["nonconst_leaves"]) for k, v in sorted(rows.items()) if k.endswith("@float")))
    else:
        full = lambda k, v: v["hit"] == v["leaves"]
        nbr = sum(1 for k, v in rows.items() if v["leaves"] > 1)
        text = ("tv:c08: real code = extracted tree, bitwise, at double AND float on EVERY leaf of every entry: %d branching (entry, type) pairs reach 2/2 leaves "
                "(the zero vector takes the `length() == 0` leaf), %d rows in all" % (nbr, len(rows)))
    ok = rc == 0 and set(rows) == want and all(v["mismatches"] == 0 and v["leaves"] == paths[k.split("@")[0]] and full(k, v) for k, v in rows.items())
    chk.oblige(text, "translation-validation", ok, None if ok else out[-600:])
    chk.count(sum(v["evaluations"] for v in rows.values()), sum(v["evaluations"] for v in rows.values()))
    chk.extra.setdefault("tv", {})["%s_per_leaf_double_and_float" % tag] = rows if tag == "leaf" else {
        "rows": len(rows), "branching_rows_with_all_leaves": sum(1 for v in rows.values() if v["leaves"] > 1 and v["hit"] == v["leaves"]),
        "evaluations": sum(v["evaluations"] for v in rows.values()), "mismatches": sum(v["mismatches"] for v in rows.values())}
    if not ok:
        fl = [l for l in out.split("\n") if l.startswith("TVWITFAIL")]
        short = sorted(k for k, v in rows.items() if not full(k, v)) + sorted(want - set(rows))
        chk.fail("tv:" + tag, "tv:%s:leaf-coverage" % tag, "per-leaf translator validation failed or does not reach every required leaf",
                 {"rows_short_of_full_coverage_or_missing": short[:12], "failures": fl[:5], "replay_cmd": ".build/bin/sym_%s tvwit" % tag}, bool(fl))


def _rat(s):
    n, d = s.split("/")
    return "((%s : Rat) / %s)" % (n, d) if d != "1" else "(%s : Rat)" % n


def emitted_text_tv(chk, bins, lindex, index, leaf_index):
    """Lean-side validation of the EMITTED TEXT beyond troute.lean_tv (audit C08 W4/W5), one Lean run for both parts:

    (a) Gen/Leaf.lean: ONE exact rational witness per reachable leaf of V2/V3/V4.length (sym_leaf `ratwit`: components in
        [-4,4]^N x four pairs of limit stubs forcing each outcome of the guard), the emitted definition evaluated at Rat with the
        same stubs must print the same fraction as the extracted tree at Frac.  Obligation: every leaf whose value is not a literal
        is witnessed; the literal-0 leaves (`max == 0`) are reachable only for the zero vector: one per guard.
    (b) Gen/C08.lean: troute.lean_tv skips every entry that calls the opaque length() (18 of 24).  Here the call is COMPOSED:
        sym_c08 `ratargs` gives inputs and the exact arguments of the call, sym_leaf `rateval` the value of the callee's own tree
        on them, sym_c08 `ratwith` the entry's tree with that value of the call; the emitted Lean text (which calls
        `V*.length tmin tmax sqrt ⟨..⟩` in Lean) must print the same fractions."""
    n_per = 16 if chk.thorough else 8
    cases = []      # (kind, fn, tmin, tmax, ins, expected)
    rc, out = lib.sh([bins["sym_leaf"], "ratwit"], timeout=600)
    sums = {}
    for l in out.split("\n"):
        m = re.match(r"WITCASE (\S+) LEAF (\d+) TMIN (\S+) TMAX (\S+) IN(.*?) OUT (exc=\S+ vals=\S* ints=\S*)", l)
        if m:
            cases.append(("leaf", m.group(1), m.group(3), m.group(4), m.group(5).split(), m.group(6)))
        m = re.match(r"WITSUM (\S+) leaves=(\d+) hit=(\d+) nonconst_leaves=(\d+) nonconst_hit=(\d+) const_leaves=(\d+) const_hit=(\d+)", l)
        if m:
            sums[m.group(1)] = dict(zip(("leaves", "hit", "nonconst_leaves", "nonconst_hit", "const_leaves", "const_hit"), map(int, m.groups()[1:])))
    cover_ok = len(sums) == len(lindex) and all(v["nonconst_hit"] == v["nonconst_leaves"] and v["const_hit"] >= 2 and v["leaves"] == int(d.get("paths", -1))
                                                 for d in lindex for v in [sums.get(d["name"], dict(nonconst_hit=-1, nonconst_leaves=0, const_hit=0, leaves=0))])
    chk.oblige("lean-tv:leaf: every leaf of V2/V3/V4.length whose value is not a literal has an exact rational witness (%s), and the "
               "literal-0 leaf is reached once under each guard" % ", ".join("%s %d/%d" % (k, v["nonconst_hit"], v["nonconst_leaves"]) for k, v in sorted(sums.items())),
               "translation-validation", cover_ok, None if cover_ok else sums)
    if not cover_ok:
        chk.fail("lean-tv:leaf", "lean-tv:leaf:leaf-coverage", "not every non-literal leaf of the extracted length() trees is reached by the witness generator "
                 "(the tree changed shape: extend harness/sym/c08_modes.h ratwit)", {"per_function": sums}, False)
    chk.extra["leaf_witnesses"] = sums
    # (b) composition through the opaque call
    idx = ["--idx", leaf_index]
    rc, out = lib.sh([bins["sym_c08"], "ratargs", str(chk.seed), str(n_per)] + idx, timeout=600)
    reqs = []
    for l in out.split("\n"):
        m = re.match(r"CALLARGS (\S+) IN(.*?) CALL (\S+)(.*)$", l)
        if m and " CALL " not in m.group(4):
            reqs.append((m.group(1), m.group(2).split(), m.group(3), m.group(4).split()))
    rc, out = lib.sh([bins["sym_leaf"], "rateval"], timeout=600, stdin="".join("%s %s\n" % (c, " ".join(a)) for (_, _, c, a) in reqs))
    vals = dict((int(m.group(1)), m.group(2)) for m in re.finditer(r"RATVAL (\d+) (-?\d+/\d+),", out))
    feed = "".join("%s IN %s CALLS %s\n" % (fn, " ".join(ins), vals[i]) for i, (fn, ins, _, _) in enumerate(reqs) if i in vals)
    rc, out = lib.sh([bins["sym_c08"], "ratwith"] + idx, timeout=600, stdin=feed)
    ncomp = 0
    for l in out.split("\n"):
        m = re.match(r"RATCASE (\S+) LEAF (\d+) TMIN (\S+) TMAX (\S+) IN(.*?) OUT (exc=\S+ vals=\S* ints=\S*)", l)
        if m:
            cases.append(("call", m.group(1), m.group(3), m.group(4), m.group(5).split(), m.group(6)))
            ncomp += 1
    meta = {d["name"]: d for d in list(lindex) + list(index)}
    called = sorted(set(c[1] for c in cases if c[0] == "call"))
    expected_called = sorted(d["name"] for d in index if "sqrt" in (d.get("extra") or ""))
    lines = ["import ImathVerif.Gen.C08", "open ImathVerif ImathVerif.Gen", troute.LEAN_TV_PRELUDE]
    for i, (kind, fn, tmin, tmax, ins, _) in enumerate(cases):
        d = meta[fn]
        sh = (d.get("params") or "").split(",")[0].partition(":")[2]
        k = troute.ARITY[sh].count("%s")
        arg = "(" + troute.ARITY[sh] % tuple(_rat(x) for x in ins[:k]) + " : %s Rat)" % sh
        call = "(%s %s %s (st1 0) %s)" % (fn, _rat(tmin), _rat(tmax), arg)
        outs = [x for x in (d.get("outs") or "").split(",") if x]
        def body(v):
            if outs == ["-"]:
                return '"exc=- vals=" ++ frs [%s] ++ " ints="' % v
            return '"exc=- vals=" ++ frs [%s] ++ " ints="' % ", ".join("%s.%s" % (v, f) for f in troute.LEAVES[outs[0]])
        if d.get("throws") == "1":
            expr = '(match %s with | .ok v => %s | .error e => "exc=" ++ excName e ++ " vals= ints=")' % (call, body("v"))
        else:
            expr = "(let v := %s; %s)" % (call, body("v"))
        lines.append('#eval IO.println ("RATLEAN %d " ++ %s)' % (i, expr))
    rcb, outb = lib.lake_build(["ImathVerif.Gen.C08"])
    rc, lout = lib.lean_run_file("\n".join(lines) + "\n", timeout=1800, name="c08tv")
    got = dict((int(m.group(1)), m.group(2).strip()) for m in re.finditer(r"RATLEAN (\d+) (.*)", lout))
    bad = [(i, c) for i, c in enumerate(cases) if got.get(i) != c[5].strip()]
    nleaf = sum(1 for c in cases if c[0] == "leaf")
    okl = nleaf > 0 and not [b for b in bad if b[1][0] == "leaf"]
    chk.oblige("lean-tv:leaf: emitted Lean text of V2/V3/V4.length at Rat = extracted tree at exact fractions on one witness per reachable "
               "leaf (%d leaves of %d emitted)" % (nleaf, sum(v["leaves"] for v in sums.values())), "translation-validation", okl)
    okc = ncomp > 0 and called == expected_called and not [b for b in bad if b[1][0] == "call"]
    chk.oblige("lean-tv:c08: emitted Lean text of the %d entries that CALL length() (skipped by the generic lean-tv) = extracted tree with the "
               "callee's tree value, at exact fractions (%d cases incl. zero vectors and both sides of the callee's guard)" % (len(expected_called), ncomp),
               "translation-validation", okc, None if okc else {"entries_validated": called, "entries_expected": expected_called})
    chk.count(len(cases), len(cases))
    chk.extra.setdefault("lean_tv", {})["c08_emitted_text"] = {"leaf_witness_cases": nleaf, "call_composition_cases": ncomp, "entries_with_calls": len(called),
                                                              "mismatches": len(bad)}
    if ncomp == 0 or called != expected_called:
        chk.fail("lean-tv:c08", "lean-tv:c08:call-composition", "the composed validation of the entries that call length() did not cover every such entry",
                 {"validated": called, "expected": expected_called, "output_tail": out[-800:]}, False)
    reported = set()
    for i, (kind, fn, tmin, tmax, ins, exp) in bad:
        if fn in reported:
            continue
        reported.add(fn)
        chk.fail("lean-tv:" + ("leaf" if kind == "leaf" else "c08"), "lean-tv:%s" % fn,
                 "emitted Lean definition of %s evaluates differently from the extracted tree (emitter bug, e.g. order of the limit parameters in a call)" % fn,
                 {"function": fn, "tmin": tmin, "tmax": tmax, "inputs": ins, "tree_at_Frac": exp, "lean_at_Rat": got.get(i),
                  "lean_output_tail": lout[-600:] if got.get(i) is None else None}, True)


BRANCH_WHATS = ("branch-scaled-taken-where-direct-required", "branch-direct-taken-where-scaled-required", "algorithm-neither-direct-nor-scaled")


def _report_fails(chk, out, prefix, obligation_of, replay_cmd, cap=40):
    seen = set()
    for l in [l for l in out.split("\n") if l.startswith("RESIDUE-FAIL")]:
        p = l.split()
        key = "%s:%s:%s:%s" % (prefix, p[1], p[2], p[3])
        if key in seen:
            continue
        seen.add(key)
        chk.fail(obligation_of(p[3]), key, "measured floating-point behaviour of %s<%s> violates C08 (%s): %s" % (p[1], p[2], p[3], l[:400]),
                 {"function": p[1], "element_type": p[2], "what": p[3], "input_hex_floats": p[4][3:], "detail": " ".join(p[5:]), "replay_cmd": replay_cmd}, True)
        if len(seen) >= cap:
            break
    return seen


def residue(chk, binary):
    reps = 24 if chk.thorough else 2
    replay = ".build/bin/c08_residue %d sweep %d 1" % (chk.seed, reps)
    rc, out = lib.sh([binary, str(chk.seed), "sweep", str(reps), "1"], timeout=3000)
    m = re.search(r"RESIDUE mode=sweep seed=\d+ vectors=(\d+) evals=(\d+) failures=(\d+)", out)
    fails = [l.split() for l in out.split("\n") if l.startswith("RESIDUE-FAIL")]
    ran = rc in (0, 1) and m is not None
    acc_fails = [p for p in fails if p[3] not in BRANCH_WHATS]
    br_fails = [p for p in fails if p[3] in BRANCH_WHATS]
    nf = int(m.group(3)) if m else -1          # the harness prints at most 200 FAIL lines: beyond that nothing is known to be fine
    ok = ran and not acc_fails and nf <= 200
    OBL_ACC = ("residue: length() within the calibrated few-ulp bounds of the 113-bit norm on every exponent x mantissa pattern x "
               "structure x dimension x {float,double}, class taken from the REFERENCE dot; zero only for zero; normalize*: unit length / sign / "
               "ratio / zero->zero / never NaN or inf (MEASURED, not proved)")
    chk.oblige(OBL_ACC, "residue", ok)
    agg, branch, probes = {}, {}, {}
    for l in out.split("\n"):
        mm = re.match(r"CLASS (\w+)\|(\w+)\|(\d)\|(\S+) max=([\d.]+) n=(\d+) worst=(\S*)", l)
        if mm:
            metric, ty, dim, cls, mx, n, worst = mm.groups()
            a = agg.setdefault(metric, {}).setdefault(cls if metric != "normalize_subnormal_norm_finite" else "form=" + cls, {})
            a["Vec%s<%s>" % (dim, ty)] = {"max": float(mx), "count": int(n), "worst_input": worst}
        mm = re.match(r"BRANCH (\w+)\|(\d) (.*)", l)
        if mm:
            branch["Vec%s<%s>" % (mm.group(2), mm.group(1))] = dict((k, int(v)) for k, v in (kv.rsplit("=", 1) for kv in mm.group(3).split()))
        mm = re.match(r"EXACTPROBE (\w+)\|(\d)\|(\S+) constructed=(\d+)", l)
        if mm:
            probes.setdefault("Vec%s<%s>" % (mm.group(2), mm.group(1)), {})[mm.group(3)] = int(mm.group(4))
    # ---- branch probe (audit S2): which algorithm did the code run, on which side of the two thresholds
    decided = sum(b.get("decided_direct", 0) + b.get("decided_scaled", 0) for b in branch.values())
    okb = ran and not br_fails and nf <= 200 and len(branch) == 6
    OBL_BR = ("residue: branch probe: length() is BITWISE sqrt(dot) when 2*min <= dot <= max and BITWISE max*sqrt(sum (|x_i|/max)^2) when dot < 2*min "
              "or dot > max (dot = the T-valued x*x+y*y+..., bit-identical to dot()), decided wherever the two algorithms give different bits "
              "(%d vectors), never equal to neither" % decided)
    chk.oblige(OBL_BR, "residue", okb, None if okb else [" ".join(p[:6]) for p in br_fails[:5]])
    need = ("decided_direct", "decided_scaled", "dot==2*min", "dot==pred(2*min)", "dot==max", "within_x4_of_2*min", "within_x4_of_max_or_above")
    thin = ["%s:%s=%d" % (k, f, b.get(f, 0)) for k, b in sorted(branch.items()) for f in need if b.get(f, 0) < (1 if f.startswith("dot==") else 20)]
    thin += ["%s:constructed[%s]=0" % (k, t) for k, d in sorted(probes.items()) for t, n in d.items() if n == 0]
    okreach = ran and len(branch) == 6 and len(probes) == 6 and not thin
    chk.oblige("reach: the branch probe decides vectors on both sides of both thresholds for every type x dimension, including constructed vectors whose "
               "T-valued dot is EXACTLY 2*min (direct: strict <), pred(2*min) (scaled), succ(2*min), max (direct: strict >)", "residue", okreach, thin[:10] or None)
    if ran and not okreach:
        chk.fail("reach", "residue:reach:threshold-probes", "the threshold probes of the residue sweep no longer reach every side of the two thresholds",
                 {"thin": thin, "branch": branch, "constructed": probes, "replay_cmd": replay}, False)
    if m:
        chk.count(int(m.group(2)), int(m.group(2)))
        measured = {k: {c: max(v["max"] for v in d.values()) for c, d in cl.items()} for k, cl in agg.items() if k != "normalize_subnormal_norm_finite"}
        chk.residues["C08"] = {
            "status": "MEASURED, NOT PROVED (level partial): floating-point accuracy of length()/normalize* against a 113-bit reference",
            "vectors": int(m.group(1)), "evaluations": int(m.group(2)), "random_mantissas_per_exponent": reps,
            "exponents": "every binary exponent: float 2^-149..2^126, double 2^-1074..2^1022 (components up to max/2: squares may "
                         "overflow, the length is representable; a reference norm above max would be skipped: %s skipped)" % (
                             (re.search(r"skipped_norm_above_max=(\d+)", out) or [None, "?"])[1]),
            "classes": "from the REFERENCE: exact dot (113 bits) vs 2*min, 2^11*min, max; reference norm vs min; within 16*N*u of a threshold the "
                       "larger of the two adjacent bounds applies",
            "bounds": dict(BOUNDS, how_fixed="clean-tree maximum over seeds 1-3 (2 and 24 mantissas per exponent) + 1, calibrated on /repo 16a5ca8 with "
                           "reference-derived classes", calibrated_maxima=CALIBRATED[chk.tier], drift_allowance=DRIFT),
            "measured_this_run": {k: v for k, v in measured.items() if not k.endswith("_by_form")},
            "measured_per_branch_and_form": {k: v for k, v in measured.items() if k.endswith("_by_form")},
            "branch_probe": branch, "constructed_threshold_probes": probes, "per_class": {k: v for k, v in agg.items() if not k.endswith("_by_form")}}
        # ---- named adversarial classes of the scaled algorithm (audit r2 N6): reach
        adv = agg.get("length_ulps_adv", {})
        thin_adv = ["%s:%s=%d" % (c, k, adv.get(c, {}).get(k, {}).get("count", 0)) for c in ("two-maxima", "max-subnormal")
                    for k in ("Vec%d<%s>" % (n, t) for n in (2, 3, 4) for t in ("float", "double")) if adv.get(c, {}).get(k, {}).get("count", 0) < 100]
        chk.oblige("reach: named adversarial classes of the scaled algorithm, every type x dimension >= 100 vectors each: two-maxima (2..N components equal to "
                   "+-max, the rest max*2^-(p/2+j), j = -2..2) and max-subnormal (subnormal maximum, the others pred(max) / max/2 / denorm_min), judged like every "
                   "vector (ulp bound, zero only for zero, normalize never NaN/inf) and with their own drift class", "residue", not thin_adv, thin_adv or None)
        if thin_adv:
            chk.fail("reach: named adversarial", "residue:reach:adversarial-classes", "the named adversarial classes are no longer generated for every type x dimension",
                     {"thin": thin_adv, "replay_cmd": replay}, False)
        # ---- drift (audit S6): the measured maxima may not exceed the calibration by more than DRIFT although the bound has 1 ulp of room
        drifts, ndrift = [], 0
        calt = CALIBRATED[chk.tier]
        for metric, classes in measured.items():
            # per-form metrics (`unit_by_form`, `ratio_by_form`, class "<branch>/<form>") are calibrated by their branch: on the clean tree the six
            # forms give bit-identical results, so a form that exceeds its branch's calibration has diverged from its siblings
            cal = calt.get({"unit_by_form": "unit_err_eps", "ratio_by_form": "ratio_err_u"}.get(metric, metric))
            if cal is None:
                continue
            for cls, v in classes.items():
                c = cal.get(cls.split("/")[0] if metric.endswith("_by_form") else cls)
                if c is None:
                    drifts.append((metric, cls, v, float("nan")))      # a class without calibration is a failure, not a silent pass
                    continue
                ndrift += 1
                if v > c + DRIFT:
                    drifts.append((metric, cls, v, c))
        # the six normalize forms are bit-identical on the clean tree: within one (type, dimension, branch) their measured maxima must coincide
        spreads = []
        for metric in ("unit_by_form", "ratio_by_form"):
            groups = {}
            for cls, per in agg.get(metric, {}).items():
                for vec, d in per.items():
                    groups.setdefault((vec, cls.split("/")[0]), {})[cls.split("/")[1]] = d
            for (vec, br), forms in groups.items():
                lo = min(forms.items(), key=lambda kv: kv[1]["max"])
                hi = max(forms.items(), key=lambda kv: kv[1]["max"])
                if len(forms) != 6 or hi[1]["max"] - lo[1]["max"] > 0.01:
                    spreads.append((metric, vec, br, hi[0], hi[1]["max"], lo[0], lo[1]["max"], hi[1]["worst_input"]))
        ngroups = sum(len(set((vec, cls.split("/")[0]) for cls, per in agg.get(mt, {}).items() for vec in per)) for mt in ("unit_by_form", "ratio_by_form"))
        chk.oblige("residue: drift: the six normalize forms have the SAME measured unit / ratio maxima within every (type, dimension, branch) group (%d groups; on the "
                   "clean tree they are bit-identical, so any spread means one form computes differently from its siblings)" % ngroups, "residue",
                   not spreads and ngroups == 36, ["%s %s %s: %s %.3f vs %s %.3f" % sp[:7] for sp in spreads[:6]] or None)
        for metric, vec, br, fhi, vhi, flo, vlo, worst in spreads:
            chk.fail("residue: drift: the six normalize forms", "residue:drift:forms-spread:%s:%s:%s" % (metric, vec, br),
                     "%s of %s on the %s branch: form %s measures %.3f, form %s %.3f — the forms no longer compute the same thing at rounding level" % (
                         metric, vec, br, fhi, vhi, flo, vlo), {"metric": metric, "instance": vec, "branch": br, "worst_form": fhi, "worst_input_hex_floats": worst,
                                                             "replay_cmd": replay}, True)
        chk.oblige("residue: drift: every measured maximum — length per reference class and per named adversarial class, unit / ratio error per branch AND per "
                   "(branch, normalize form) — is within %.1f of its calibrated clean-tree maximum (%d classes; the bounds leave 1.0: a regression that costs "
                   "less than the slack is still reported)" % (DRIFT, ndrift), "residue", not drifts and ndrift >= 5 + 2 + 6 + 36,
                   ["%s[%s] measured %.3f calibrated %.2f" % d for d in drifts] or None)
        for metric, cls, v, c in drifts:
            worst = max(agg[metric][cls].items(), key=lambda kv: kv[1]["max"])
            c = -1.0 if c != c else c
            chk.fail("residue: drift", "residue:drift:%s:%s" % (metric, cls),
                     "measured maximum of %s in class %s is %.3f, more than %.1f above the calibrated clean-tree maximum %.2f (still inside the bound): "
                     "accuracy regression below the bound, or re-calibrate CALIBRATED in tools/props/c08.py" % (metric, cls, v, DRIFT, c),
                     {"metric": metric, "class": cls, "measured": v, "calibrated": c, "worst_instance": worst[0], "worst_input_hex_floats": worst[1]["worst_input"],
                      "replay_cmd": replay}, True)
    seen = _report_fails(chk, out, "residue", lambda what: OBL_BR if what in BRANCH_WHATS else OBL_ACC, replay)
    if not ran and not seen:
        chk.fail("residue", "residue:run", "residue harness failed to run", {"output": out[-2000:]}, False)


SLICE = 64
BLOCK = 1 << 14


def exhaustive(chk, binary):
    """(audit S3, r2 N1) the six float families over ALL positive finite floats x <= max/2 — thorough tier — or, in the quick tier, over a SLICE:
    of the blocks of 2^14 consecutive floats those with block number = seed (mod 64): every binade is visited 8 times, 1/64 of all floats, a
    different 1/64 for each seed, so that every run leaves evidence of this sweep."""
    full = 0x7EFFFFFF
    if chk.thorough:
        args, expect, what = [str(lib.NCPU)], full, "ALL %d positive finite floats x <= max/2" % full
    else:
        off = chk.seed % SLICE
        expect = sum(min(BLOCK, full - b * BLOCK) for b in range(off, (full + BLOCK - 1) // BLOCK, SLICE))
        args, what = [str(lib.NCPU), str(SLICE), str(off)], ("SLICE %d/%d of the positive finite floats x <= max/2 (blocks of 2^14 consecutive floats with block "
                                                             "number = %d mod %d: %d floats, 8 blocks in every binade; the thorough tier visits all %d)" % (
                                                                 1, SLICE, off, SLICE, expect, full))
    replay = ".build/bin/c08_residue %d exhaustive %s" % (chk.seed, " ".join(args))
    rc, out = lib.sh([binary, str(chk.seed), "exhaustive"] + args, timeout=6000)
    m = re.search(r"RESIDUE mode=exhaustive seed=\d+ vectors=(\d+) evals=(\d+) failures=(\d+)", out)
    fams = {}
    for l in out.split("\n"):
        mm = re.match(r"EXHAUSTIVE float\|(\d)\|(\S+) vectors=(\d+) evals=(\d+) length_bit_exact=(\d+) subnormal_norm=(\d+) unit_max_eps=([\d.]+)\((\w+)\) ratio_max_u=([\d.]+)\((\w+)\)(.*)", l)
        if mm:
            d = {"vectors": int(mm.group(3)), "evaluations": int(mm.group(4)), "length_bit_exact": int(mm.group(5)), "subnormal_norms": int(mm.group(6)),
                 "unit_max_eps": float(mm.group(7)), "unit_worst_bits": mm.group(8), "ratio_max_u": float(mm.group(9)), "ratio_worst_bits": mm.group(10), "length_max_ulps": {}}
            for c in re.finditer(r"len\[(\S+?)\]=([\d.]+)/n=(\d+)\((\w+)\)", mm.group(11)):
                d["length_max_ulps"][c.group(1)] = {"max": float(c.group(2)), "count": int(c.group(3)), "worst_bits": c.group(4)}
            fams["Vec%sf %s" % (mm.group(1), mm.group(2))] = d
    ok = rc == 0 and m is not None and int(m.group(3)) == 0 and len(fams) == 6 and all(d["vectors"] == expect for d in fams.values())
    name = "exhaustive" if chk.thorough else "exhaustive-slice"
    chk.oblige("%s: %s in each of Vec2f(x,0), Vec3f(0,x,0), Vec4f(0,0,0,x) and (x,x), (x,x,x), (x,x,x,x) "
               "(signs from the low bits): length() within the class bound of |x| resp. |x|*sqrt(N), never 0 / NaN / inf; normalize() and normalized() on "
               "every x (the other four forms on every 8th visited block): signs, zeros kept, unit length (single component: within 1 eps), ratio" % (name, what),
               "residue", ok, None if ok else out[-600:])
    if m:
        chk.count(int(m.group(2)), int(m.group(2)))
    chk.extra["exhaustive_float_families"] = {"mode": "all floats" if chk.thorough else "slice %d mod %d of the blocks of 2^14 floats" % (chk.seed % SLICE, SLICE),
                                              "floats_per_family": expect, "of": full, "families": fams}
    seen = _report_fails(chk, out, name, lambda what: name, replay)
    if not ok and not seen:
        chk.fail(name, name + ":run", "the exhaustive float sweep did not run to completion / did not visit the expected number of floats",
                 {"expected_per_family": expect, "got": {k: v["vectors"] for k, v in fams.items()}, "output": out[-1500:]}, False)


def make_shape_search(chk, rbin, bins):
    """A SHAPE theorem stopped elaborating: the code's shape changed.  Reported under `shape:<function>` so that it is triaged (a harmless
    rewrite is possible).  Evidence, in this order: a float vector on which the real code takes the wrong branch / is not the correctly
    rounded sqrt or quotient (residue harness, lattice mode incl. branch probe); failing that the bare fact."""
    def search(name):
        fn = function_of(name)
        rep = {"key": "shape:" + (fn or name), "shape_theorem": name, "separating_input": None,
               "meaning": "the syntactic shape of the extracted function differs from the pinned one (guard dot < 2*tmin || tmax < dot, lengthTiny as written, "
                          "true division by length()); the value theorems may still hold — compare the residue obligations"}
        if rbin and fn:
            for f in [fn] + ([fn.split(".")[0] + ".length"] if fn.split(".")[1].startswith("normal") else []):
                rc, out = lattice(chk, rbin, f)
                fails = [l for l in out.split("\n") if l.startswith("RESIDUE-FAIL")]
                if fails:
                    p = fails[0].split()
                    rep.update({"separating_input": p[4][3:], "real_code_function": p[1], "element_type": p[2], "what": p[3], "detail": " ".join(p[5:]),
                                "replay_cmd": ".build/bin/c08_residue %d lattice %s" % (chk.seed, f)})
                    break
        return rep
    return search


def run(chk):
    chk.trusted = ["Lean 4.33 kernel; axioms propext/Classical.choice/Quot.sound at most", "Mathlib's ordered fields and Real.sqrt",
                   "translator harness/sym (real Vec2/3/4::length bodies incl. lengthTiny: 9/129/513 paths), validated each run by TV "
                   "(bitwise at float and double, incl. a per-leaf pass over every reachable leaf at both types) and by evaluating the emitted Lean text at Rat: one "
                   "witness per reachable leaf of length(), and the entries that call length() composed with the callee's tree",
                   "tools/pins/extras_leaf.json, extras_c08.json: WHICH numeric_limits constant is the parameter tmin / tmax of the extracted definitions",
                   "__float128 / libquadmath sqrtq as the oracle of the measured residue; IEEE double as the oracle of the exhaustive float families; "
                   "correctly rounded hardware sqrt and division (cross-checked against the 113-bit oracle on the lattice)"]
    chk.assumptions = ["PARTIAL: ulp accuracy of length(), handling of underflowing / subnormal squares, and absence of NaN/inf in the "
                       "normalize family are NOT proved; they are measured against a 113-bit reference with bounds fixed at the "
                       "clean-tree maximum + 1 (structured sweep; exhaustive only for the float single-component and all-equal families: all floats in the thorough tier, "
                       "a 1/64 slice rotating with the seed in the quick tier)",
                       "the ONE proved rounding statement (Props/C08Rounding: direct branch of Vec2::length, relative error <= 2u + u^2) is in the standard model "
                       "|fl t - t| <= u|t| without underflow/overflow; that IEEE float/double arithmetic satisfies it on normal numbers is assumed, not proved",
                       "theorems are about exact arithmetic over an ordered field with sqrt (and over R with Real.sqrt); the SHAPE theorems are syntactic "
                       "(any function sqrt) and say nothing about rounding either: which branch the float code takes is measured by the branch probe"]
    chk.rule = ("theorems: every vector and all limit parameters tmin, tmax (value: any sqrt with sqrt x * sqrt x = x >= 0; shape: any function). residue: every "
                "binary exponent (smallest subnormal .. max/2, so squares that overflow with a representable length are included) x mantissas {1, 1.5, 1+ulp, "
                "2-ulp, random} x {single non-zero component with signed zeros, all equal, mixed magnitudes with gaps 0..full range, signed zeros mixed} x "
                "Vec2/3/4 x float/double, plus vectors placed around the 2*min threshold (factors down to 1 +- 2^-(p-4)), around norm = min and around the "
                "dot = max overflow guard, plus constructed vectors whose T-valued dot is exactly 2*min / pred / succ / max, plus all-zero sign patterns; "
                "named adversarial scaled-branch classes (two equal maxima with the rest at the edge of the sum's last bit; subnormal maximum with near-equal "
                "neighbours); classes from the reference; branch probe on every vector; drift per class / branch / (branch, form); integer lattice at four "
                "scales, bit-exact at scale 1; six float families: thorough all 2^31 floats, quick the blocks of 2^14 floats with number = seed mod 64")
    bins = troute.build_extractors(chk, [dict(name="sym_leaf", source="sym/sym_leaf.cpp"), dict(name="sym_c08", source="sym/sym_c08.cpp")])
    okr, rbin, rlog = lib.cxx_build("c08_residue", ["corr/c08_residue.cpp"], libs=["-lquadmath"])
    chk.oblige("build:c08_residue", "build", okr, None if okr else rlog[-1500:])
    if not okr:
        chk.fail("build:c08_residue", "build:c08_residue", "the residue harness no longer compiles against the current headers",
                 {"compiler_errors": [l for l in rlog.split("\n") if "error" in l][:12]}, False)
        rbin = None
    leaf_index = os.path.join(troute.GEN, "index_leaf.txt")
    lindex = index = None
    if bins.get("sym_leaf"):
        lindex, _ = troute.regenerate(chk, bins["sym_leaf"], "leaf")
        troute.tv(chk, bins["sym_leaf"], "leaf", 2000 if chk.thorough else 400)
        troute.lean_tv(chk, bins["sym_leaf"], "leaf", lindex, n=6 if chk.thorough else 3)
        tv_leaf_coverage(chk, bins["sym_leaf"], lindex, "leaf")
        for d in lindex:
            chk.sample({"entry": d["name"], "paths": d.get("paths")})
    if bins.get("sym_c08") and bins.get("sym_leaf"):
        index, _ = troute.regenerate(chk, bins["sym_c08"], "c08", idx_deps=[leaf_index])
        troute.tv(chk, bins["sym_c08"], "c08", 400 if chk.thorough else 64, idx_deps=[leaf_index])
        troute.lean_tv(chk, bins["sym_c08"], "c08", index, n=6 if chk.thorough else 3, idx_deps=[leaf_index])
        tv_leaf_coverage(chk, bins["sym_c08"], index, "c08", idx_deps=[leaf_index])
        if lindex and index:
            emitted_text_tv(chk, bins, lindex, index, leaf_index)
    search = make_search(chk, rbin)
    for mod in LEMMAS:
        chk.check_theorems(mod, required=REQUIRED_LEMMAS[mod], search=search)
    chk.check_theorems(PROPS, required=REQUIRED, search=search)
    chk.check_theorems(ROUNDING, required=ROUNDING_REQUIRED, search=search)
    # SHAPE theorems: own key, found_input only when a separating float input was found
    n0 = len(chk.failures)
    chk.check_theorems(SHAPE, required=SHAPE_REQUIRED, search=make_shape_search(chk, rbin, bins))
    for f in chk.failures[n0:]:
        if f["key"].startswith("shape:"):
            sep = f["replay"].get("separating_input")
            f["found_input"] = bool(sep)
            f["what"] = "SHAPE theorem %s no longer holds: the shape of the code changed (%s)" % (
                f["replay"].get("shape_theorem"), "float input on which the real code departs from the pinned algorithm: " + sep if sep else
                "no separating float input on the lattice — possibly a harmless rewrite, to be triaged")
    if rbin:
        # exact-semantics agreement of the REAL code with the proved spec on the integer lattice (four scales); bit-exact at scale 1
        rc, out = lattice(chk, rbin, None)
        m = re.search(r"RESIDUE mode=lattice seed=\d+ vectors=(\d+) evals=(\d+) failures=(\d+)", out)
        mx = re.search(r"LATTICE-EXACT checks=(\d+) not_judged_oracles_disagree=(\d+)", out)
        fails = [l for l in out.split("\n") if l.startswith("RESIDUE-FAIL")]
        exact_fails = [l for l in fails if "lattice-not-correctly-rounded" in l]
        okl = rc in (0, 1) and m is not None and not [l for l in fails if l not in exact_fails] and int(m.group(3)) == len(fails)
        chk.oblige("lattice: real length/length2/normalize* = norm / quotients on [-3,3]^N at four scales", "correspondence", okl)
        okx = rc in (0, 1) and mx is not None and int(mx.group(1)) > 30000 and int(mx.group(2)) == 0 and not exact_fails
        chk.oblige("lattice: at scale 1 (exact squares and sum) length() == RN(sqrt(dot)) and every normalize form == RN(v[i] / length()) BIT FOR BIT "
                   "(%s checks, float and double; both oracles — 113-bit and hardware — agree on every case)" % (mx.group(1) if mx else "?"),
                   "correspondence", okx, None if okx else exact_fails[:5])
        if m:
            chk.count(int(m.group(2)), int(m.group(2)))
            chk.extra["lattice"] = {"vectors": int(m.group(1)), "evaluations": int(m.group(2)), "bit_exact_checks_at_scale_1": int(mx.group(1)) if mx else None}
        if fails:
            seen = set()
            for l in fails:
                p = l.split()
                key = "lattice:%s:%s:%s" % (p[1], p[2], p[3])
                if key not in seen:
                    seen.add(key)
                    chk.fail("lattice:" + p[1], key, "real code disagrees with the exact norm / quotient on a small integer vector: " + l[:300],
                             {"line": l, "replay_cmd": ".build/bin/c08_residue %d lattice all" % chk.seed}, True)
        elif not (okl and okx):
            chk.fail("lattice", "lattice:run", "lattice harness failed to run", {"output": out[-1500:]}, False)
        residue(chk, rbin)
        exhaustive(chk, rbin)       # quick: a 1/64 slice rotating with the seed; thorough: every float
    if chk.thorough:
        for mod in LEMMAS + [PROPS, SHAPE, ROUNDING]:
            chk.leanchecker(mod)
