"""C01 — float<->half conversion is exact IEEE-754 binary16, RNE.

Theorems: lean/ImathVerif/Props/C01.lean over the hand model Model/Half.lean.
Tie: (a) Gen/ToFloatTable.lean regenerated from toFloat.h; (b) exhaustive
correspondence of the model with the real imath_float_to_half /
imath_half_to_float and the C++ half(float) / operator float(), default build
configuration, over all 2^32 floats and all 2^16 halves."""
import os
import lib, gen_half, halfcorr, halfspec

REQUIRED = ["h2f_exact", "h2f_nan", "table_eq_shift", "generator_eq_shift", "roundtrip",
            "f2h_nearest", "f2h_sign", "f2h_overflow", "f2h_flush", "f2h_nan"]


def run(chk):
    chk.trusted = ["Lean 4.33 kernel (decide +kernel enumeration through allBits, no native_decide)",
                   "axioms: propext, Classical.choice, Quot.sound at most",
                   "hand model Model/Half.lean, tied by exhaustive 2^32+2^16 correspondence (harness/corr/half_corr.cpp)",
                   "regex translator tools/gen_half.py for toFloat.h", "g++ and the CPU executing the harness"]
    chk.assumptions = ["Spec/HalfSpec.lean states IEEE binary16/binary32 denotation and RNE correctly"]
    chk.rule = ("every float bit pattern (65,536 blocks of 2^16, FNV hash per block, bisection on mismatch) and every half "
                "pattern through the C functions and the C++ constructor/cast; non-trivial = all but +-0")
    ents, changed = gen_half.regenerate()
    chk.extra["toFloat_entries"] = len(ents)
    model_h2f = None

    def search(name):
        # executable form of the per-pattern theorems: compare table / model with the independent Python spec
        if name in ("table_eq_shift",):
            for h, e in enumerate(ents):
                sp = halfspec.spec_h2f(h)
                if e != sp:
                    return {"key": "table[0x%04x]" % h, "half_bits": "0x%04x" % h, "toFloat.h": "0x%08x" % e,
                            "spec_exact": "0x%08x" % sp}
            if len(ents) != 65536:
                return {"key": "table-size", "entries": len(ents)}
        return None

    okd, out = halfcorr.build_driver()
    chk.oblige("build:drv_half", "build", okd, None if okd else out[-800:])
    chk.check_theorems("ImathVerif.Props.C01", required=REQUIRED, search=search)
    if chk.thorough:
        chk.leanchecker("ImathVerif.Props.C01")
    ok, binary, o = lib.cxx_build("half_corr_table", ["corr/half_corr.cpp", os.path.join(lib.REPO, "src/Imath/half.cpp")])
    chk.oblige("build:half_corr(default config)", "build", ok, None if ok else o[-800:])
    if not ok:
        chk.fail("build:half_corr", "build:half_corr", "correspondence harness does not compile against the current tree",
                 {"compiler_output": o[-3000:]}, False)
        return
    if okd:
        halfcorr.compare_config(chk, "table", binary, "C01")
        chk.exhaustive = True
        chk.sample({"float_bits": "0x38801000", "spec_rne16": "0x%04x" % halfspec.spec_f2h(0x38801000), "note": "tie, even significand"})
        chk.sample({"float_bits": "0x477ff000", "spec_rne16": "0x%04x" % halfspec.spec_f2h(0x477ff000), "note": "65520 -> inf"})
        chk.sample({"float_bits": "0x33000001", "spec_rne16": "0x%04x" % halfspec.spec_f2h(0x33000001), "note": "just above 2^-25"})
