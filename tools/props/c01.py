"""C01 — float<->half conversion is exact IEEE-754 binary16, RNE.

Theorems: lean/ImathVerif/Props/C01.lean over the hand model Model/Half.lean
(every theorem of the file is required; statements are pinned).
Tie: (a) Gen/ToFloatTable.lean regenerated from toFloat.h; (b) exhaustive
correspondence of the model with the real imath_float_to_half /
imath_half_to_float and the C++ half(float) / operator float() /
half::operator=(float), default (table) and no-table build configurations, over
all 2^32 floats and all 2^16 halves; (c) the same binary under FE_TOWARDZERO / FE_UPWARD /
FE_DOWNWARD (the conversions are specified as RNE whatever the caller's mode);
(d) the IMATH_HALF_ENABLE_FP_EXCEPTIONS build: results and raised exception
flags against the model f2hExc; (e) the independent Python spec against the
model (standing obligation); (f) the -mf16c build (NaN payload canonicalised),
to-nearest and under the directed modes."""
import os, time
import lib, gen_half, halfcorr, halfspec

# every theorem of Props/C01.lean (deleting or renaming any of them is a failure)
REQUIRED = ["h2f_exact", "h2f_nan", "table_eq_shift", "generator_eq_shift", "roundtrip",
            "f2h_nearest", "f2h_sign", "fval_65520", "fval_strictMono", "fval_le_iff_le",
            "f2h_overflow", "f2h_overflow_val", "f2h_inf", "f2h_flush", "f2h_nan", "f2h_subnormal_correct",
            "IsRNE16_unique", "f2h_is_the_rne",
            "f2hExc_snd", "f2hExc_val", "f2hExc_overflow", "f2hExc_underflow", "f2hExc_flags",
            "h2f_exact_Q", "f2h_nearest_Q", "f2h_overflow_Q", "f2h_flush_Q"]

HALF_CPP = os.path.join(lib.REPO, "src/Imath/half.cpp")


def run(chk):
    chk.trusted = ["Lean 4.33 kernel (decide +kernel enumeration through allBits, no native_decide)",
                   "axioms: propext, Classical.choice, Quot.sound at most",
                   "hand model Model/Half.lean (f2h, h2f, f2hExc), tied by exhaustive 2^32+2^16 correspondence (harness/corr/half_corr.cpp)",
                   "FNV-1a 64-bit block hashes over 65,536 results each (a multi-entry collision would hide a difference; "
                   "a single changed entry always changes the hash)",
                   "regex translator tools/gen_half.py for toFloat.h", "g++ and the CPU executing the harness",
                   "glibc fesetround/fetestexcept/feclearexcept for the rounding-mode and FP-exception observations"]
    chk.assumptions = ["Spec/HalfSpec.lean (scaled naturals) states IEEE binary16/binary32 denotation and RNE correctly; "
                       "reduced by Spec/HalfVal.lean: hval/fval are proved equal to the textbook ℚ-valued formulas times the scale, "
                       "IsRNE16 is proved equivalent to the |·|-based IsRNE16Q and to have a unique solution, and the independent "
                       "Python spec is compared with the model on every run"]
    chk.rule = ("every float bit pattern (65,536 blocks of 2^16, FNV hash per block, bisection on mismatch) and every half "
                "pattern through the C functions, the C++ constructor/cast and half::operator=(float); the same binary under the "
                "three directed rounding modes and the FP-exceptions build (result + raised flags) on every boundary block "
                "(all thresholds and binade edges, both signs) + a seed-offset stride of blocks in quick, all 2^32 in thorough; "
                "non-trivial = all but +-0")
    ents, changed = gen_half.regenerate()
    chk.extra["toFloat_entries"] = len(ents)

    def search(name):
        # executable form of the per-pattern theorems: compare table / model with the independent Python spec
        if name in ("table_eq_shift",):
            for h, e in enumerate(ents):
                sp = halfspec.spec_h2f(h)
                if e != sp:
                    return {"key": "table[0x%04x]" % h, "half_bits": "0x%04x" % h, "toFloat.h": "0x%08x" % e,
                            "spec_exact": "0x%08x" % sp}
            if len(ents) != 65536:
                return {"key": "table-size", "entries": len(ents)}
        return None

    ph = halfcorr.Phases(chk)
    okd, out = halfcorr.build_driver()
    ph.mark("lake build drv_half (incl. waiting for the shared lean lock)")
    chk.oblige("build:drv_half", "build", okd, None if okd else out[-800:])
    chk.check_theorems("ImathVerif.Props.C01", required=REQUIRED, search=search)
    ph.mark("check_theorems (lake build incl. lock wait, axiom audit)")
    halfcorr.check_statement_pins(chk, os.path.join(lib.LEAN, "ImathVerif", "Props", "C01.lean"), "statements_c01.json", "C01")
    if chk.thorough:
        chk.leanchecker("ImathVerif.Props.C01")
    have_f16c = halfcorr.cpu_has_f16c()
    chk.extra["cpu_has_f16c"] = have_f16c
    jobs = [dict(name="half_corr_table", sources=["corr/half_corr.cpp", HALF_CPP]),
            dict(name="c01_fpexc", sources=["corr/half_corr.cpp", HALF_CPP], extra=["-DIMATH_HALF_ENABLE_FP_EXCEPTIONS"])]
    jobs.append(dict(name="c01_notable", sources=["corr/half_corr.cpp", HALF_CPP], extra=["-DIMATH_HALF_NO_LOOKUP_TABLE"]))
    if have_f16c:
        jobs.append(dict(name="c01_f16c", sources=["corr/half_corr.cpp", HALF_CPP], extra=["-mf16c"]))
    res = lib.cxx_build_many(jobs)
    ph.mark("harness builds")
    ok, binary, o = res["half_corr_table"]
    chk.oblige("build:half_corr(default config)", "build", ok, None if ok else o[-800:])
    if not ok:
        chk.fail("build:half_corr", "build:half_corr", "correspondence harness does not compile against the current tree",
                 {"compiler_output": o[-3000:]}, False)
        return
    if not okd:
        chk.fail("build:drv_half", "C01:build:drv_half", "the model driver does not build", {"output": out[-3000:]}, False)
        return
    model_blocks = halfcorr.model_f2h_blocks(False)
    model_h2f = halfcorr.model_h2f_all(False)
    # (b) default build, to-nearest: all 2^32 through c / cxx / asg, all 2^16 through c / cxx
    halfcorr.compare_config(chk, "table", binary, "C01", apis=("c", "cxx", "asg"), model_blocks=model_blocks, model_h2f=model_h2f)
    chk.exhaustive = True
    # (b') the shift/rebias branch itself (-DIMATH_HALF_NO_LOOKUP_TABLE): the branch the model h2f transcribes, so that the
    # h2f_* theorems are tied to their own source lines inside this property (the table is tied by table_eq_shift + (b))
    okn, binn, on = res["c01_notable"]
    chk.oblige("build:half_corr[notable] (-DIMATH_HALF_NO_LOOKUP_TABLE)", "build", okn, None if okn else on[-800:])
    if not okn:
        chk.fail("build:notable", "C01:build:notable", "half.h does not compile with IMATH_HALF_NO_LOOKUP_TABLE", {"compiler_output": on[-3000:]}, False)
    else:
        halfcorr.compare_config(chk, "notable", binn, "C01", apis=("c", "cxx", "asg"), model_blocks=model_blocks, model_h2f=model_h2f)
    ph.mark("model passes + table/notable sweeps")
    # (c) the same binary under the directed rounding modes
    t = time.time()
    chk.extra["rounding_modes"] = halfcorr.rounding_sweep(chk, "table", binary, "C01", model_blocks, model_h2f,
                                                          apis=("c", "cxx", "asg"), canon=False, seed=chk.seed,
                                                          exhaustive=chk.thorough)
    chk.extra["rounding_modes_s"] = round(time.time() - t, 1)
    # (d) FP-exceptions build: values (same hashes as the plain build are implied by the x-hash) + flags
    okx, binx, ox = res["c01_fpexc"]
    chk.oblige("build:half_corr[fpexc] (-DIMATH_HALF_ENABLE_FP_EXCEPTIONS)", "build", okx, None if okx else ox[-800:])
    if not okx:
        chk.fail("build:fpexc", "C01:build:fpexc", "half.h does not compile with IMATH_HALF_ENABLE_FP_EXCEPTIONS",
                 {"compiler_output": ox[-3000:]}, False)
    else:
        t = time.time()
        blocks = halfcorr.sample_blocks(chk.seed, 127)
        if chk.thorough:
            halfcorr.compare_fpexc(chk, "fpexc", binx, "C01", None, apis=("c",))
            halfcorr.compare_fpexc(chk, "fpexc", binx, "C01", blocks, apis=("cxx", "asg"))
        else:
            halfcorr.compare_fpexc(chk, "fpexc", binx, "C01", blocks, apis=("c", "cxx", "asg"))
        halfcorr.compare_h2f(chk, "fpexc", binx, "C01", model_h2f)
        chk.extra["fpexc"] = {"blocks_sampled": len(blocks), "exhaustive_api_c": chk.thorough, "seconds": round(time.time() - t, 1),
                              "observed": "result | raised<<16 after every call; raised = FE_OVERFLOW iff finite -> inf "
                                          "(theorem f2hExc_overflow), FE_UNDERFLOW iff non-zero -> zero (f2hExc_underflow), "
                                          "never anything else (f2hExc_flags; subnormal inexact results raise nothing)"}
    # (f) the hardware path (-mf16c): NaN payloads canonicalised on both sides (the property's own
    # exception), to-nearest exhaustively and under the directed modes
    if not have_f16c:
        chk.oblige("config:f16c", "skipped", True, "this CPU has no F16C; the hardware path cannot be executed here")
    else:
        okf, binf, of = res["c01_f16c"]
        chk.oblige("build:half_corr[f16c] (-mf16c)", "build", okf, None if okf else of[-800:])
        if not okf:
            chk.fail("build:f16c", "C01:build:f16c", "half.h does not compile with -mf16c", {"compiler_output": of[-3000:]}, False)
        else:
            t = time.time()
            mc = halfcorr.model_f2h_blocks(True)
            hc = [halfspec.canon32(x) for x in model_h2f]
            halfcorr.compare_config(chk, "f16c", binf, "C01", apis=("c", "cxx", "asg"), canon=True, model_blocks=mc, model_h2f=hc)
            chk.extra["rounding_modes_f16c"] = halfcorr.rounding_sweep(chk, "f16c", binf, "C01", mc, hc, apis=("c", "cxx", "asg"),
                                                                       canon=True, seed=chk.seed, exhaustive=chk.thorough, f16c=True)
            chk.extra["f16c_s"] = round(time.time() - t, 1)
    ph.mark("rounding modes + fpexc + f16c")
    # (e) independent Python spec vs the model
    t = time.time()
    sb = halfcorr.sample_blocks(chk.seed, 1021 if not chk.thorough else 61)
    halfcorr.compare_spec_model(chk, "C01", model_blocks, model_h2f, sb)
    chk.extra["spec_vs_model"] = {"blocks": len(sb), "seconds": round(time.time() - t, 1)}
    ph.mark("spec-vs-model")
    chk.sample({"float_bits": "0x38801000", "spec_rne16": "0x%04x" % halfspec.spec_f2h(0x38801000), "note": "tie, even significand"})
    chk.sample({"float_bits": "0x477ff000", "spec_rne16": "0x%04x" % halfspec.spec_f2h(0x477ff000), "note": "65520 -> inf"})
    chk.sample({"float_bits": "0x33000001", "spec_rne16": "0x%04x" % halfspec.spec_f2h(0x33000001), "note": "just above 2^-25"})
