"""C04: header <-> extraction-table obligation.

The extraction table harness/sym/ops_c04.h is the coverage list of C04; nothing else would notice a member that is added to
the anchored headers (a new `operator%=`, a new overload, a new `if consteval` body) without an extraction entry.  This
module reads the CURRENT class bodies of Vec2/3/4, Color3/4, Shear6, Quat, Matrix22/33/44 and the free operators of the
five headers, normalises every member-function / constructor / operator declaration, and maps each one through RULES to

  * the extraction entries that exercise it (`["addAssign", "addAssignSelf"]` -> `V3.addAssign`, `V3.addAssignSelf`, which must exist
    in the regenerated index), or
  * a NAMED exclusion (`"skip: ..."`: the member is not a component-wise operator / accessor / constructor in the sense of C04; the
    reason names where it belongs).

A declaration that matches no rule is a violation (`coverage:header:<Class>:<declaration>`): decide whether it needs an entry or an
exclusion.  Exclusions are by exact member name, never by a catch-all pattern."""
import os, re

CLASSES = [("ImathVec.h", ["Vec2", "Vec3", "Vec4"]), ("ImathColor.h", ["Color3", "Color4"]), ("ImathShear.h", ["Shear6"]),
           ("ImathQuat.h", ["Quat"]), ("ImathMatrix.h", ["Matrix22", "Matrix33", "Matrix44"])]
LEAN = {"Vec2": "V2", "Vec3": "V3", "Vec4": "V4", "Color3": "C3", "Color4": "C4", "Shear6": "Shear6", "Quat": "Quat",
        "Matrix22": "M22", "Matrix33": "M33", "Matrix44": "M44"}
VEC, COL, SH, Q, MAT = ["Vec2", "Vec3", "Vec4"], ["Color3", "Color4"], ["Shear6"], ["Quat"], ["Matrix22", "Matrix33", "Matrix44"]
CW = VEC + COL + SH                       # types whose `*` and `/` with an operand of the same type are component-wise
IF_CONSTEVAL = {"ImathVec.h": 3, "ImathColor.h": 0, "ImathShear.h": 0, "ImathQuat.h": 0, "ImathMatrix.h": 0}   # exercised by corr/c04_consteval.cpp

C05 = "skip: products / transposes / minors / determinants (C05)"
C06 = "skip: length and normalisation (C06)"
C07 = "skip: checked / unchecked variants, inverses, homogeneous divide (C07)"
XFORM = "skip: transform builders and point/direction transforms (scale, rotate, shear, translate, mult*Matrix): not a component-wise operator"
TRAIT = "skip: static element-type queries (numeric_limits wrappers, dimensions): no component is addressed"
QUAT = "skip: quaternion algebra / rotations (product, inverse, exp, log, slerp helpers, matrix conversion: C05 / C09)"
DEFAULT = "skip: default constructor / destructor / tag constructor: the property makes no component-wise claim about it"

P = r"\w+"
# (regex matched with re.fullmatch on the normalised declaration, target, classes it may apply to (None = any))
RULES = [
    (r"X operator\+ \(const X& %s\) const" % P, ["add"], None),
    (r"const X& operator\+= \(const X& %s\)" % P, ["addAssign", "addAssignSelf"], None),
    (r"X operator- \(const X& %s\) const" % P, ["sub"], None),
    (r"const X& operator-= \(const X& %s\)" % P, ["subAssign", "subAssignSelf"], None),
    (r"X operator- \(\) const", ["neg"], None),
    (r"const X& negate \(\)", ["negate"], None),
    (r"X operator\* \(const X& %s\) const" % P, ["mul"], CW),
    (r"X operator\* \(const X& %s\) const" % P, C05, MAT),
    (r"const X& operator\*= \(const X& %s\)" % P, ["mulAssign", "mulAssignSelf"], CW),
    (r"const X& operator\*= \(const X& %s\)" % P, C05, MAT + Q),
    (r"X operator\* \(T %s\) const" % P, ["mulS"], None),
    (r"const X& operator\*= \(T %s\)" % P, ["mulSAssign", "mulSAssignAliasFirst", "mulSAssignAliasLast"], None),
    (r"X operator/ \(const X& %s\) const" % P, ["div"], CW),
    (r"const X& operator/= \(const X& %s\)" % P, ["divAssign", "divAssignSelf"], CW),
    (r"const X& operator/= \(const X& %s\)" % P, QUAT, Q),
    (r"X operator/ \(T %s\) const" % P, ["divS"], None),
    (r"const X& operator/= \(T %s\)" % P, ["divSAssign", "divSAssignAliasFirst", "divSAssignAliasLast"], None),
    (r"const X& operator\+= \(T %s\)" % P, ["addSAssign", "addSAssignAliasFirst"], MAT),
    (r"const X& operator-= \(T %s\)" % P, ["subSAssign", "subSAssignAliasFirst"], MAT),
    (r"const X& operator= \(T %s\)" % P, ["assignScalar"], MAT),
    (r"const X& operator= \(const X& %s\)" % P, ["assign"], None),
    (r"(template <class S> )?bool operator== \(const X(<S>)?& %s\) const" % P, ["eq"], None),
    (r"(template <class S> )?bool operator!= \(const X(<S>)?& %s\) const" % P, ["ne"], None),
    (r"bool equalWithAbsError \(const X& %s, T e\) const" % P, ["equalWithAbsError"], None),
    (r"bool equalWithRelError \(const X& %s, T e\) const" % P, ["equalWithRelError"], None),
    (r"T& operator\[\] \(int %s\)" % P, ["setIndexAll"], CW + Q),
    (r"(const T&|T) operator\[\] \(int %s\) const" % P, ["indexAll"], CW + Q),
    (r"T\* operator\[\] \(int %s\)" % P, ["setIndexAll"], MAT),
    (r"const T\* operator\[\] \(int %s\) const" % P, ["indexAll"], MAT),
    (r"T\* getValue \(\)", ["getValuePtr"], None),
    (r"const T\* getValue \(\) const", ["getValuePtr"], None),
    (r"template <class S> void setValue \(S %s(, S %s)+\)" % (P, P), ["setValueS", "narrowSetValueS"], None),
    (r"template <class S> void getValue \(S& %s(, S& %s)+\) const" % (P, P), ["getValueS", "narrowGetValueS"], None),
    (r"template <class S> void setValue \(const X<S>& %s\)" % P, ["setValueV", "narrowSetValueV"], CW),
    (r"template <class S> void getValue \(X<S>& %s\) const" % P, ["getValueV", "narrowGetValueV"], CW),
    (r"template <class S> X& setValue \(const X<S>& %s\)" % P, ["setValueM", "narrowSetValueM"], MAT),
    (r"template <class S> void getValue \(X<S>& %s\) const" % P, ["getValueM", "narrowGetValueM"], MAT),
    (r"template <class S> X& setTheMatrix \(const X<S>& %s\)" % P, ["narrowSetTheMatrix"], MAT),
    # constructors
    (r"X \(\)", DEFAULT, None),
    (r"~X ?\(\) = default", DEFAULT, None),
    (r"X \(Uninitialized\)", DEFAULT, MAT),
    (r"X \(T a\)", ["ctorScalar"], None),
    (r"X \(T a, T b\)", ["ctorElems"], ["Vec2"]),
    (r"X \(T a, T b, T c\)", ["ctorElems"], ["Vec3", "Color3"]),
    (r"X \(T a, T b, T c, T d\)", ["ctorElems"], ["Vec4", "Color4", "Matrix22"]),
    (r"X \(T a, T b, T c, T d, T e, T f, T g, T h, T i\)", ["ctorElems"], ["Matrix33"]),
    (r"X \( ?T a, T b, T c, T d, T e, T f, T g, T h, T i, T j, T k, T l, T m, T n, T o, T p\)", ["ctorElems"], ["Matrix44"]),
    (r"X \(T XY, T XZ, T YZ, T YX, T ZX, T ZY\)", ["ctorElems"], SH),
    (r"X \(T XY, T XZ, T YZ\)", ["ctor3"], SH),
    (r"X \(const Vec3<T>& v\)", ["fromV3"], SH),
    (r"X \(T s, T i, T j, T k\)", ["ctor4"], Q),
    (r"X \(T s, Vec3<T> d\)", ["ctorSV"], Q),
    (r"X \(const X& %s\)" % P, ["copyCtor"], None),
    (r"template <class S> X \(const X<S>& %s\)" % P, ["convertCtor", "narrowCtor"], None),
    (r"template <class S> X \(const Vec3<S>& v\)", ["fromV3", "narrowFromV3"], ["Vec4", "Color3", "Shear6"]),
    (r"template <class S> const X& operator= \(const Vec3<S>& v\)", ["fromV3", "narrowFromV3"], SH),
    (r"template <class S> X \(const Vec4<S>& v(, InfException)?\)", C07, ["Vec3"]),
    (r"X \(const T a\[\d\]\[\d\]\)", ["ctorArray"], MAT),
    (r"X \(Matrix33<T> r, Vec3<T> t\)", ["ctorRT"], ["Matrix44"]),
    # foreign-type interop
    (r"template <typename V, IMATH_ENABLE_IF \(has_xy<V, T>::value\)> (X|const X& operator=) \(const V& v\)", ["interopXY"], ["Vec2"]),
    (r"template <typename V, IMATH_ENABLE_IF \(has_xyz<V, T>::value\)> (X|const X& operator=) \(const V& v\)", ["interopXYZ"], ["Vec3"]),
    (r"template <typename V, IMATH_ENABLE_IF \(has_xyzw<V, T>::value\)> (X|const X& operator=) \(const V& v\)", ["interopXYZW"], ["Vec4"]),
    (r"template < typename V, IMATH_ENABLE_IF \( ?has_subscript<V, T, \d>::value && !has_xyz?w?<V, T>::value\)> (X|const X& operator=) \(const V& v\)",
     ["interopSub", "interopArr"], VEC),
    (r"template < typename M, IMATH_ENABLE_IF \(has_double_subscript<M, T, \d, \d>::value\)> X \(const M& m\)", ["interopSub2"], MAT),
    (r"template < typename M, IMATH_ENABLE_IF \(has_double_subscript<M, T, \d, \d>::value\)> const X& operator= \(const M& m\)",
     ["interopSub2", "interopArr2"], MAT),
]
# named exclusions: exact member name AND the classes that are known to declare it (a new `operator%=` in Color4 is not excused
# by Vec3's cross-product `operator%=`)
M34 = ["Matrix33", "Matrix44"]
TR = VEC + ["Color4"] + SH + MAT
SKIP = [
    (C05, {"dot": VEC, "cross": ["Vec2", "Vec3"], "operator^": VEC, "operator%": ["Vec2", "Vec3"], "operator%=": ["Vec3"], "multiply": ["Matrix44"],
           "transposed": MAT, "transpose": MAT, "determinant": MAT, "trace": MAT, "fastMinor": M34, "minorOf": M34}),
    (C06, dict((n, VEC) for n in ["length", "length2", "lengthTiny", "normalize", "normalizeExc", "normalizeNonNull", "normalized", "normalizedExc",
                                  "normalizedNonNull"])),
    (C07, {"inverse": MAT, "invert": MAT, "gjInverse": M34, "gjInvert": M34}),
    (XFORM, {"makeIdentity": MAT, "translation": M34, "setScale": MAT, "scale": MAT, "rotate": MAT, "setRotation": ["Matrix22", "Matrix33"],
             "setShear": M34, "shear": M34, "setTranslation": M34, "translate": M34, "setEulerAngles": ["Matrix44"], "setAxisAngle": ["Matrix44"],
             "multVecMatrix": M34, "multDirMatrix": MAT}),
    (TRAIT, dict((n, TR) for n in ["baseTypeLowest", "baseTypeMax", "baseTypeSmallest", "baseTypeEpsilon", "dimensions"])),
    (QUAT, dict((n, Q) for n in ["toMatrix33", "toMatrix44", "angle", "axis", "rotateVector", "euclideanInnerProduct", "exp", "log", "identity",
                                 "setRotationInternal", "length", "normalize", "normalized", "inverse", "invert", "setAxisAngle", "setRotation"])),
]

# free operators: (operator, parameter types without names) -> (class the entries belong to, target)
FREE_RULES = [
    (r"<<", r"std::ostream&, const (\w+)<T>&", ["show", "showFixed", "showSci", "showKeepsState"]),
    (r"\*", r"[TS], const (Vec2|Vec3|Vec4|Color4|Shear6|Quat|Matrix22|Matrix33|Matrix44)<T>&", ["smul"]),
    (r"\+", r"const (Quat)<T>&, const Quat<T>&", ["add"]),
    (r"-", r"const (Quat)<T>&, const Quat<T>&", ["sub"]),
    (r"-", r"const (Quat)<T>&", ["neg"]),
    (r"\*", r"const (Quat)<T>&, T", ["mulS"]),
    (r"/", r"const (Quat)<T>&, T", ["divS"]),
    (r"\*|/|\^|~", r"const Quat<T>&(, const Quat<T>&)?", QUAT),
    (r"\*", r"const Matrix33<T>&, const Quat<T>&|const Quat<T>&, const Matrix33<T>&|const Vec3<T>&, const Quat<T>&", QUAT),
    (r"\*=?", r"(const )?Vec\d<S>&, const Matrix\d\d<T>&", C05),
]
ALSO_SERVES = {"Vec3": ["Color3"]}   # Color3 has no operator<< / T * Color3 of its own: Vec3's are used (entries C3.show*, C3.smul)


def strip_comments(s):
    s = re.sub(r"/\*.*?\*/", " ", s, flags=re.S)
    return re.sub(r"//[^\n]*", "", s)


def class_span(src, cls):
    m = re.search(r"class\s+IMATH_EXPORT_TEMPLATE_TYPE\s+%s\b[^{;]*\{" % cls, src)
    if not m:
        return None
    i, d, j = m.end(), 1, m.end()
    while d:
        d += (src[j] == "{") - (src[j] == "}")
        j += 1
    return m.start(), i, j - 1, j


def declarations(body):
    body = re.sub(r"#\s*(if|ifdef|ifndef|else|elif|endif|define)[^\n]*", "", body)
    out, cur, i = [], "", 0
    while i < len(body):
        ch = body[i]
        if ch == "{":                      # inline body: the declaration ends here
            d, i = 1, i + 1
            while d:
                d += (body[i] == "{") - (body[i] == "}")
                i += 1
            out.append(cur); cur = ""
            continue
        if ch == ";":
            out.append(cur); cur = ""; i += 1
            continue
        cur += ch; i += 1
    res = []
    for x in out:
        x = re.sub(r"\b(IMATH_HOSTDEVICE|IMATH_CONSTEXPR14|IMATH_NOEXCEPT|constexpr|inline|explicit|static|public:|private:|protected:)(?![A-Za-z_])", " ", x)
        x = " ".join(x.split())
        if re.search(r"\)\s*:\s", x):       # constructor with an inline member-initialiser list
            x = re.sub(r"\)\s*:\s.*$", ")", x)
        if "(" in x:
            res.append(x.strip())
    return res


def member_name(d):
    m = re.search(r"(operator\s*[^\s(]+|~?\w+)\s*\(", re.sub(r"^template\s*<[^>]*>\s*", "", d))
    return m.group(1).replace(" ", "") if m else None


def scan(repo_src):
    """-> (decls [(class, declaration)], free [(op, params)], consteval {file: n}, classes_found {file: [..]})"""
    decls, free, ce, found = [], [], {}, {}
    for f, cls in CLASSES:
        src = strip_comments(open(os.path.join(repo_src, f)).read())
        ce[f] = len(re.findall(r"\bif\s+consteval\b", src))
        found[f] = re.findall(r"class\s+IMATH_EXPORT_TEMPLATE_TYPE\s+(\w+)\b[^{;]*\{", src)
        rest = src
        for c in cls:
            sp = class_span(src, c)
            if sp is None:
                decls.append((c, None))
                continue
            for d in declarations(src[sp[1]:sp[2]]):
                decls.append((c, d))
        for c in found[f][::-1]:
            sp = class_span(rest, c)
            rest = rest[:sp[0]] + rest[sp[3]:]
        seen = set()
        for m in re.finditer(r"(?<![:\w])operator\s*([^\s(]+)\s*\(([^)]*)\)", rest):
            params = " ".join(m.group(2).split())
            params = re.sub(r"\s*\b\w+\s*(,|$)", r"\1", params)
            if (m.group(1), params) not in seen:
                seen.add((m.group(1), params))
                free.append((m.group(1), params))
    return decls, free, ce, found


def check(repo_src, entry_names):
    """-> dict(unmapped=[...], missing_entries=[...], mapped=n, excluded=n, declarations=n, used_entries=set, consteval=..., classes=...)"""
    decls, free, ce, found = scan(repo_src)
    unmapped, missing, used, n_map, n_skip = [], [], set(), 0, 0
    exclusions = {}

    def want(cls, targets, what, is_free=False):
        nonlocal n_map
        n_map += 1
        for c in [cls] + (ALSO_SERVES.get(cls, []) if is_free else []):
            for t in targets:
                e = "%s.%s" % (LEAN[c], t)
                if e in entry_names:
                    used.add(e)
                else:
                    missing.append((c, what, e))
    for cls, d in decls:
        if d is None:
            unmapped.append((cls, "<class body not found>"))
            continue
        nd = re.sub(r"\b%s<T>" % cls, "X", d)
        nd = re.sub(r"\b%s\b" % cls, "X", nd)
        nd = " ".join(nd.split())
        hit = None
        for rx, target, classes in RULES:
            if (classes is None or cls in classes) and re.fullmatch(rx, nd):
                hit = target
                break
        if hit is None:
            name = member_name(nd)
            for reason, names in SKIP:
                if cls in names.get(name, []):
                    hit = reason
                    break
        if hit is None:
            unmapped.append((cls, d))
        elif isinstance(hit, str):
            n_skip += 1
            exclusions[hit] = exclusions.get(hit, 0) + 1
        else:
            want(cls, hit, d)
    for op, params in free:
        hit = None
        for rop, rpar, target in FREE_RULES:
            m = re.fullmatch(rpar, params)
            if re.fullmatch(rop, op) and m:
                hit = (m.group(1) if m.groups() and m.group(1) in LEAN else None, target)
                break
        if hit is None:
            unmapped.append(("free", "operator%s (%s)" % (op, params)))
        elif isinstance(hit[1], str):
            n_skip += 1
            exclusions[hit[1]] = exclusions.get(hit[1], 0) + 1
        elif hit[0] is None:
            unmapped.append(("free", "operator%s (%s)" % (op, params)))
        else:
            want(hit[0], hit[1], "operator%s (%s)" % (op, params), True)
    return dict(unmapped=unmapped, missing_entries=missing, mapped=n_map, excluded=n_skip, declarations=len(decls) + len(free),
                used_entries=used, exclusions=exclusions, consteval=ce, classes=found)
