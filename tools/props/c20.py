"""C20 — vectorised PyImath operations equal element-wise scalar operations under any task partition.

Theorems: lean/ImathVerif/Props/C20.lean over the hand model Model/Dispatch.lean
(dispatchTask, accessors, execute loops, ExtendByTask).
Tie, on every run, against the module BUILT FROM THE CURRENT TREE:
  * a scripted WorkerPool (harness/py/poolshim.cpp, compiled against the current
    PyImathTask.h, installed through the public WorkerPool::setCurrentPool);
  * harness/py/c20_harness.py enumerates every exported overload from the
    Boost.Python docstrings, generates array / scalar / masked arguments and
    compares bitwise: unsplit (no pool) vs every scripted partition (2-way, 3-way,
    random k-way in random order, one std::thread per range), element by element
    against the scalar binding, mismatched lengths must raise;
  * the same scripts through the Lean model (drv_dispatch) for integer add/sub/
    mul/rsub/iadd/isub/imul on direct, strided and masked views.
"""
import os, re, json, glob, time, subprocess, collections, statistics
from concurrent.futures import ThreadPoolExecutor
import lib, pyimath

LEVEL = "proof"
REQUIRED = ["exec_split", "partition_independent", "partition_independent_footprint", "elementwise_spec",
            "interleaving_independent", "iterations_commute", "noCrossAlias_of",
            "reduction_partition_independent", "reduction_cover_independent", "hull_join_laws",
            "box_extendBy_partition_independent", "dispatch_threshold",
            "measureArguments_mismatch", "length_mismatch_raises", "inplace_length_mismatch_raises",
            # audit W1: an ARBITRARY task (split law + swap law => every partition, every order), refutations of the two slips
            "partition_independent_of_compositional", "ofStep_compositional", "partition_independent_footprint_via_compositional",
            "badIgnoreStart_refuted", "badScratch_refuted",
            # audit W5 / W6: the success path of what the driver executes; accessors are injective
            "applyVectorized_ok", "applyMaskable_ok", "Access.reindex_loc", "applyMaskable_ok_cell",
            "loc_injective_direct", "loc_injective_masked", "noCrossAlias_fresh_ret", "noCrossAlias_fresh_direct", "noCrossAlias_inplace",
            # helpers the statements above lean on (audit r2 N7)
            "loc_injective_of_wellFormed", "dispatch_eq_runRanges", "effectiveScript_ok", "boxExtendBy_eq", "handTask_compositional"]
# audit W7: the reduction laws for the GENERATED Box::extendBy (Gen/C13Box.lean, regenerated from ImathBox.h on every run)
REQUIRED_BOX = ["gen_box%d_%s" % (d, n) for d in (2, 3) for n in ("extendByBox_eq", "extendByPoint_eq", "extendBy_joinLaws",
                "extendByPoint_eq_box", "extendBy_partition_independent", "extendBy_cover_independent")]
HARNESS = os.path.join(lib.VERIF, "harness", "py", "c20_harness.py")
EXTRA = os.path.join(lib.VERIF, "harness", "py", "c20_extra.py")
SCALAR = os.path.join(lib.VERIF, "harness", "py", "c20_scalar.py")

# ---- exact allow-lists (audit W3 / W4): anything not named here must be exercised / must have a scalar reference -----
# Exports that python cannot reach: the C++ signature mentions an array type for which the module registers no python
# class, so no argument can be built (or no result returned).  Named one by one; a NEW unreached export fails the check.
I64_OPS = ["__mul__#3", "__imul__#3", "__div__#3", "__truediv__#3", "__idiv__#3", "__itruediv__#3", "__rmul__#2"]
ALLOW_UNREACHED = {}
for _v in ("V2i64", "V3i64", "V4i64"):
    for _o in I64_OPS:
        ALLOW_UNREACHED["%sArray.%s" % (_v, _o)] = "takes PyImath::FixedArray<long>: no python class (Int64Array) is registered"
    ALLOW_UNREACHED[_v + ".__mul__#4"] = "takes PyImath::FixedArray<long>: no python class (Int64Array) is registered"
    ALLOW_UNREACHED[_v + ".__rmul__#1"] = "takes PyImath::FixedArray<long>: no python class (Int64Array) is registered"
for _k in ("V3c.cross#1", "V3c.dot#1", "V4c.dot#1"):
    ALLOW_UNREACHED[_k] = "takes FixedArray<Vec3/Vec4<unsigned char>>: no python class (V3cArray / V4cArray) is registered"
for _n in ("__div__#1", "__idiv__#1", "__imul__#1", "__itruediv__#1", "__mul__#1", "__rmul__#1", "__truediv__#1"):
    ALLOW_UNREACHED["Color4cArray2D." + _n] = "takes FixedArray2D<unsigned char>: no python class is registered"
# component `add_property` arrays that cannot be used as strided sources: the getter returns an array type without a python class
# (open findings array-raises:no-python-class:*); every OTHER component property must be a carrier of the strided mode
PROPS_NOT_CARRIERS = set(["V2i64Array.x", "V2i64Array.y", "V3i64Array.x", "V3i64Array.y", "V3i64Array.z",
                          "V4i64Array.x", "V4i64Array.y", "V4i64Array.z", "V4i64Array.w"] + ["Color4cArray2D." + c for c in "rgba"])
# rule-based skips (not names): C19's protocol methods and constructors that take no array
RULE_SKIPS = ("indexing/pickling protocol (property C19)", "indexing/construction protocol (property C19)",
              "variable-length array protocol (property C19)", "buffer protocol (property C19)", "constructor without array argument", "static/no self")
# entry points for which NO element-wise scalar reference exists (by Owner.name); everything else must have one
NOREF_ALLOW = {
    "QuatfArray.orientToVectors": "hand-written Task (PyImathQuat.cpp QuatArray_OrientToVectors); Quat has no scalar orientToVectors: "
                                  "partition independence, determinism and length checks only",
    "QuatdArray.orientToVectors": "as QuatfArray.orientToVectors",
    "imath.procrustesRotationAndTranslation": "whole-array function (least-squares fit): no element-wise semantics; partition "
                                              "independence, determinism and length checks only",
}
ULP_TOL = 8

# Failures that share one CAUSE are reported under one key (the keys of KNOWN_FINDINGS.jsonl), but only for the overloads
# / table entries LISTED here: another overload failing for the same cause gets its own key "<cause>:new:<entry>" and is
# therefore a fresh VIOLATION.
_VS = ("V2s", "V3s", "V4s")
_VL = ("V2i64", "V3i64", "V4i64")
CAUSE_MEMBERS = {
    "array-raises:no-python-class:FixedArray<long>": set(
        ["V2i64Array.dot#0", "V2i64Array.dot#1", "V2i64Array.cross#0", "V2i64Array.cross#1", "V2i64Array.length2#0",
         "V3i64Array.dot#0", "V3i64Array.dot#1", "V3i64Array.length2#0", "V4i64Array.dot#0", "V4i64Array.dot#1", "V4i64Array.length2#0",
         "V2i64.dot#1", "V2i64.cross#1", "V3i64.dot#1", "V4i64.dot#1"]),
    "array-raises:no-python-class:FixedArray<Vec3/Vec4<unsigned char>>": set(["V3c.__mul__#4", "V3c.__rmul__#1", "V4c.__mul__#4", "V4c.__rmul__#1"]),
    "scalar-vs-cxx:Vi64-constructor-through-double": set(["V2i64.__init__(l,l)", "V2i64.__init__(l)", "V3i64.__init__(l,l,l)", "V3i64.__init__(l)",
                                                          "V4i64.__init__(l,l,l,l)", "V4i64.__init__(l)"]),
    "scalar-vs-cxx:Vs-Vi64-inplace-division-rejects-own-type": set(["%s.%s(%s,%s)" % (v, m, v, v) for v in _VS + ("V4i64",)
                                                                    for m in ("__idiv__", "__itruediv__")]),
    "scalar-vs-cxx:Vs-Vi64-equalWithError-rejects-own-type": set(["%s.%s(%s,%s,%s)" % (v, m, v, v, "s" if v in _VS else "l") for v in _VS + _VL
                                                                  for m in ("equalWithAbsError", "equalWithRelError")]),
    "scalar-vs-cxx:V2-constructor-range-check": set(["V2f.__init__(f,f)"]),
}
SCALAR_CAUSES = [
    (r"^V[234]i64\.__init__\(l", "scalar-vs-cxx:Vi64-constructor-through-double"),
    (r"^V[234](s|i64)\.__i(true)?div__\(V", "scalar-vs-cxx:Vs-Vi64-inplace-division-rejects-own-type"),
    (r"^V[234](s|i64)\.equalWith(Abs|Rel)Error\(", "scalar-vs-cxx:Vs-Vi64-equalWithError-rejects-own-type"),
    (r"^V2[fdsi]\.__init__\(", "scalar-vs-cxx:V2-constructor-range-check"),
]


def _through_double(a):
    """what a 64-bit component becomes when a python int is extracted as double and cast back (the recorded finding);
    casts of values >= 2^63 are undefined in C++: x86 yields INT64_MIN"""
    f = float(a)
    return int(f) if -2.0 ** 63 <= f < 2.0 ** 63 else -2 ** 63


def _f32_of_token(t):
    import struct
    return struct.unpack("<f", struct.pack("<I", int(t, 16)))[0]


def finding_shape(cause, m):
    """Does this single mismatching CASE have the SHAPE the open finding `cause` describes?  Anything else in the same table
    entry (a swapped component, a wrong value on ordinary arguments, another exception) is a fresh violation."""
    what, py, cxx, toks = m["what"], m.get("python"), m.get("cxx"), m.get("arg_tokens") or []
    try:
        if cause == "scalar-vs-cxx:Vi64-constructor-through-double":
            args = [int(t) for t in toks]
            if not any(abs(a) > 2 ** 53 for a in args):
                return False
            if what.startswith("the python binding raises (OverflowError"):
                return any(not (-2.0 ** 63 < float(a) < 2.0 ** 63) for a in args)      # numeric_cast of the rounded double (|x| >= 2^63)
            if what != "results differ bitwise" or not isinstance(py, list) or not isinstance(cxx, list):
                return False
            n = len(cxx)
            want = args if len(args) == n else args * n          # (l,l,l) component-wise; (l) broadcast
            return [int(x) for x in cxx] == want and [int(x) for x in py] == [_through_double(a) for a in want]
        if cause == "scalar-vs-cxx:Vs-Vi64-inplace-division-rejects-own-type":
            return what.startswith("the python binding raises (ValueError") and "division expects an argument" in what
        if cause == "scalar-vs-cxx:Vs-Vi64-equalWithError-rejects-own-type":
            return what.startswith("the python binding raises (ValueError: invalid parameters passed to equalWith")
        if cause == "scalar-vs-cxx:V2-constructor-range-check":
            big = any(not (abs(_f32_of_token(t)) <= 3.4028234663852886e38) for t in toks)      # inf (or nan) after conversion to float
            return what.startswith("the python binding raises (OverflowError: bad numeric conversion") and big
    except Exception:
        return False
    return False


def cause_key(cause, member):
    """the cause's key for a listed member, a key of its own for anything else"""
    return cause if member in CAUSE_MEMBERS.get(cause, ()) else "%s:new:%s" % (cause, member)


# obligation names (the same string is given to chk.oblige and to chk.fail, so that a failure recorded as an open known
# finding is tied to the obligation it explains)
OBL = {
    "partition": "bitwise partition independence (all partitions, orders, threads)",
    "nondeterministic": "identical unsplit runs agree",
    "threshold": "pool used iff length > 200 and caller not a worker",
    "scalar": "scalar:bit-identical-unless-listed: every element is BIT-IDENTICAL to the scalar binding (any NaN = any NaN); only the entry "
              "points on the named tolerance list may differ, by at most %d ulp-estimates" % ULP_TOL,
    "component-property": "every component property used as a strided argument reads back the values stored in that component",
    "array-raises": "no array operation raises on moderate arguments for which the scalar binding succeeds on every element",
    "mismatch": "mismatched lengths / dimensions raise", "mismatch-write": "no write before the length check",
    "mismatch-crash": "mismatched lengths / dimensions do not crash",
    "model": "Lean model == real module on integer ops (direct/strided/masked, scripted partitions, raise/no-raise, pool used)",
    "crash": "no crash or hang that the scalar binding does not reproduce",
    "scalar-vs-cxx": "scalar-vs-cxx: every bound scalar binding of the table returns bit for bit what the C++ library returns",
}
# scalar spellings Part 1 uses as element-wise references although they are NOT in the scalar-vs-C++ table (audit r2 N2):
# only functions DEFINED by PyImath itself (no C++ library counterpart to compare with)
REF_OUTSIDE_TABLE = {
    "imath.bias(d,d)": "bias_op is defined in PyImathFunOperators.h (pow(x, log(b)/log(0.5))): no Imath library function",
    "imath.gain(d,d)": "gain_op is defined in PyImathFunOperators.h on top of bias_op: no Imath library function",
}


# integer vector x float matrix (V3i * M44d ...): the homogeneous divide is done in INTEGER arithmetic and is a SIGFPE (C++ UB)
# whenever w truncates to 0, in the scalar binding and in the array form alike (Part 1 exercises these in guarded / safe mode);
# a table entry would crash the comparison process on generated data
REF_OUTSIDE_RULE = re.compile(r"^V[234](s|i|i64)\.__(r|i)?mul__\(V[234](s|i|i64),M(33|44)[fd]\)$")


def table_key_of_ref(r):
    """reference spelling as emitted by Part 1 -> key of the scalar-vs-C++ table"""
    m = re.match(r"^FrustumTest([fd])\.(isVisible|completelyContains)\(FrustumTest[fd],(\w+)\)$", r)
    if m:       # the table entry takes the constructor arguments; float points are converted to the object's precision
        a = m.group(3)
        a = a[:-1] + m.group(1) if a[:-1] in ("V3", "Box3") else a
        return "FrustumTest%s.%s(Frustum%s,M44%s,%s)" % (m.group(1), m.group(2), m.group(1), m.group(1), a)
    return r


# table entries of c20_scalar_ref.cpp for which the python class has no such method / overload (python falls back to
# another spelling or the operation does not exist for that type): a binding that DISAPPEARS is not on this list and fails
UNBOUND_OK = set(
    ["%s.%s(%s,%s)" % (v, m, v, v) for v in ("V2s", "V3s", "V4s", "V2i", "V3i", "V4i", "V2i64", "V3i64", "V4i64", "V2f", "V3f", "V4f", "V2d", "V3d", "V4d")
     for m in ("__rsub__",)] +
    ["%s.%s(%s,%s)" % (v, m, v, v) for v in ("V2s", "V3s", "V4s", "V2i64", "V3i64", "V4i64") for m in ("__iadd__", "__isub__", "__imul__")] +
    ["%s.__imod__(%s,%s)" % (v, v, v) for v in ("V3s", "V3i", "V3i64", "V3f", "V3d")] +
    ["V2s.__div__(V2s,V2s)", "V2i64.__div__(V2i64,V2i64)", "V3f.__imul__(V3f,M33f)", "V3d.__imul__(V3d,M33d)"] +
    ["imath.cmp(f,f)", "imath.cmpt(f,f,f)", "imath.iszero(f,f)", "imath.equal(f,f,f)"] +      # not vectorised: no float overload reachable
    ["M44%s.%s(M44%s)" % (t, m, t) for t in "fd" for m in ("extractEulerXYZ", "extractEulerZYX", "extractScaling", "extractScalingAndShear")])
TAG = os.path.basename(pyimath.BDIR)[len("pyimath"):]
WD = os.path.join(lib.BUILD, "c20" + TAG)
ULP_TOL = 8


def build_shim():
    libdir = os.path.join(pyimath.BDIR, "src", "python", "PyImath")
    cands = sorted(glob.glob(os.path.join(libdir, "libPyImath_Python*.so")))
    if not cands:
        return False, "", "libPyImath not found under " + libdir
    name = os.path.basename(cands[0])[3:-3]
    out = os.path.join(lib.ensure_dir(os.path.join(lib.BUILD, "bin")), "libpoolshim%s.so" % TAG)
    cmd = ["g++", "-std=c++17", "-O1", "-fPIC", "-shared", "-I" + os.path.join(lib.REPO, "src", "python", "PyImath"),
           os.path.join(lib.VERIF, "harness", "py", "poolshim.cpp"), "-o", out + ".new%d" % os.getpid(), "-L" + libdir, "-l" + name, "-lpthread"]
    rc, o = lib.sh(cmd, timeout=300)
    if rc != 0:
        return False, out, o
    os.replace(out + ".new%d" % os.getpid(), out)
    return True, out, o


def harness(args, timeout=1800, stdout=None, script=None, prefix=()):
    """run the harness under the python the module was built for; -> (returncode (negative = signal), stdout, stderr)"""
    try:
        p = subprocess.run(list(prefix) + [pyimath.PYTHON, script or HARNESS] + args, env=pyimath.env({"PYTHONMALLOC": "malloc"} if prefix else None), stdout=subprocess.PIPE,
                           stderr=subprocess.PIPE, timeout=timeout, text=True, errors="replace")
        return p.returncode, p.stdout, p.stderr
    except subprocess.TimeoutExpired as ex:
        return 124, "", "[timeout after %ss]" % timeout


def last_begun(progress):
    cur = None
    try:
        for l in open(progress):
            if l.startswith("BEGIN "):
                cur = l[6:].strip()
            elif l.startswith("END "):
                cur = None
    except FileNotFoundError:
        pass
    return cur


def run_shard(idx, keys, base, events, mm_keys=(), script=None):
    """one worker process per shard; a crash (signal) or hang is attributed to the entry point in progress, triaged in
    a guarded re-run (every call first in a forked child), retried in safe mode when the scalar binding crashes too,
    and the shard continues with the remaining entry points."""
    out = os.path.join(WD, "out%d.jsonl" % idx)
    round_ = 0
    keys = list(keys)
    mm = list(mm_keys)
    safe = []
    while (keys or mm) and round_ < 40:
        round_ += 1
        prog = os.path.join(WD, "prog%d_%d.txt" % (idx, round_))
        opts = dict(base, keys=keys, progress=prog, safe_keys=safe, mm_keys=mm)
        op = os.path.join(WD, "opts%d_%d.json" % (idx, round_))
        json.dump(opts, open(op, "w"))
        rc, so, se = harness(["run", op, out], timeout=base["worker_timeout"], script=script)
        if rc == 0:
            return
        bad = last_begun(prog)
        if rc == 124 and bad is not None and bad in keys:
            # The worker ran out of time.  On a loaded machine that is not evidence of a hang: re-run the entry point that
            # was in progress ALONE with the same limit (one entry point takes seconds).  Only if that does not return
            # either is it reported as a hang; otherwise the shard simply continues from that entry point in a new worker.
            top = os.path.join(WD, "hangtriage%d_%d.json" % (idx, round_))
            json.dump(dict(base, keys=[bad], progress=None, safe_keys=safe, mm_keys=[]), open(top, "w"))
            rc3, so3, se3 = harness(["run", top, os.path.join(WD, "hangtriage%d_%d.jsonl" % (idx, round_))], timeout=base["worker_timeout"], script=script)
            rest = keys[keys.index(bad) + 1:]
            if rc3 == 124:
                events.append({"hang": bad, "shard": idx, "stderr": "[entry point alone: timeout after %ss]" % base["worker_timeout"]})
                keys = rest
            else:
                events.append({"slow_shard": idx, "resumed_at": bad})
                keys = [bad] + rest
            continue
        events.append({"shard": idx, "rc": rc, "entry": bad, "stderr": se[-1500:]})
        if bad is not None and bad not in keys and bad in mm:
            # died in the length-mismatch-only part: guarded re-run of that entry point, then go on
            top = os.path.join(WD, "triage%d_%d.json" % (idx, round_))
            json.dump(dict(base, keys=[], mm_keys=[bad], guard=True, progress=None), open(top, "w"))
            harness(["run", top, out], timeout=base["worker_timeout"], script=script)
            keys, mm = [], mm[mm.index(bad) + 1:]
            continue
        if bad is None or bad not in keys:
            events.append({"shard": idx, "fatal": "worker died outside an entry point", "stderr": se[-1500:]})
            return
        rest = keys[keys.index(bad) + 1:]
        if rc == 124:
            events.append({"hang": bad})
            keys = rest
            continue
        # triage in guarded mode
        top = os.path.join(WD, "triage%d_%d.json" % (idx, round_))
        json.dump(dict(base, keys=[bad], guard=True, progress=None, safe_keys=safe, mm_keys=[]), open(top, "w"))
        if script is not None:          # the extra harness has no guarded mode: report the crash, go on
            events.append({"extra_crash": bad, "rc": rc, "stderr": se[-600:]})
            keys = rest
            continue
        rc2, so2, se2 = harness(["run", top, out], timeout=base["worker_timeout"])
        if rc2 != 0:
            events.append({"triage_failed": bad, "rc": rc2, "stderr": se2[-800:]})
        if bad not in safe:
            safe = safe + [bad]
            keys = [bad] + rest          # once more, in safe mode
        else:
            keys = rest


def run_drd(chk, shim, lst, keys, nproc):
    """thorough tier: the hand-written-Task owners and the core operators once each at L = 257 on 8 std::threads under
    `valgrind --tool=drd` (audit W8): a data race inside *::execute is reported even when the values happen to agree"""
    import shutil
    if not shutil.which("valgrind"):
        chk.extra["drd"] = "valgrind not installed: race-detector pass not run"
        return
    byk = {e["key"]: e for e in lst["entries"]}
    keys = [k for k in keys if k in byk]
    nsh = max(1, min(nproc, 12, (len(keys) + 15) // 16))
    t0 = time.time()

    def one(i):
        ks = keys[i::nsh]
        op = os.path.join(WD, "drd_opts%d.json" % i)
        logf = os.path.join(WD, "drd%d.log" % i)
        json.dump({"shim": shim, "seed": chk.seed, "keys": ks, "cxx2py": lst["cxx2py"], "entries": [byk[k] for k in ks]}, open(op, "w"))
        try:
            # --check-stack-var=yes: the Task objects live on the caller's stack; a scratch MEMBER shared by the sub-ranges is a
            # stack variable, which drd ignores by default (the positive control is exactly that)
            p = subprocess.run(["valgrind", "--tool=drd", "--check-stack-var=yes", "--num-callers=24", "--log-file=" + logf, pyimath.PYTHON, HARNESS, "drd", op],
                               env=pyimath.env({"PYTHONMALLOC": "malloc", "POOLSHIM_NO_BARRIER": "1"}), stdout=subprocess.PIPE, stderr=subprocess.PIPE,
                               timeout=3000, text=True, errors="replace")
            return p.returncode, p.stdout, p.stderr, logf
        except subprocess.TimeoutExpired:
            return 124, "", "timeout", logf
    with ThreadPoolExecutor(max_workers=nsh) as ex:
        res = list(ex.map(one, range(nsh)))
    ran, disp, blocks, aborted, ctl_runs = 0, 0, [], [], 0
    for rc, so, se, logf in res:
        ran += se.count("DRD-END")
        ctl_runs += se.count("DRD-CONTROL dispatches=1")
        m = re.search(r'"drd_dispatching_entry_points": (\d+)', so)
        disp += int(m.group(1)) if m else 0
        if rc != 0 or not m:
            aborted.append({"rc": rc, "stderr": se[-400:]})
        try:
            txt = open(logf, errors="replace").read()
        except OSError:
            txt = ""
        for b in re.split(r"\n==\d+== \n", txt):
            if "Conflicting" in b:
                blocks.append(re.sub(r"==\d+== ", "", b)[:1500])
    # the positive control (a deliberately racy Task in the shim) must be reported in every shard; every OTHER report whose
    # stack touches the module (any PyImath:: / Imath_ frame, not only frames named execute) counts
    control = [b for b in blocks if "RacyControl" in b]
    inexec = [b for b in blocks if "RacyControl" not in b and ("PyImath::" in b or "Imath_" in b or "execute" in b)]
    chk.extra["drd"] = {"entry_points_run_under_drd": ran, "of_which_dispatched_to_8_threads": disp, "conflicting_access_reports": len(blocks),
                        "in_module_code(any PyImath:: / Imath_ frame)": len(inexec), "wall_s": round(time.time() - t0, 1), "aborted_shards": aborted[:3],
                        "positive_control(racy Task of the shim)": {"shards": nsh, "control_dispatched": ctl_runs, "reports_naming_RacyControl": len(control)},
                        "reports_elsewhere(python / libc internals)": len(blocks) - len(inexec) - len(control)}
    okc = ctl_runs == nsh and len(control) >= nsh
    chk.oblige("drd: positive control — the deliberately racy Task of the shim is reported by the detector in every shard", "correspondence", okc,
               None if okc else {"control_dispatched": ctl_runs, "reports": len(control), "shards": nsh})
    if not okc:
        chk.fail("drd: positive control", "drd:control-not-reported", "valgrind --tool=drd did not report the deliberately racy control Task: the pass "
                 "cannot see races in execute()", {"shards": nsh, "control_dispatched": ctl_runs, "reports": len(control)}, False)
    okd = not inexec and not aborted and disp > 0
    chk.oblige("drd: %d entry points, 8 std::threads each, under valgrind --tool=drd: no conflicting access in module code" % ran,
               "correspondence", okd, None if okd else {"reports": len(inexec), "aborted": aborted[:2]})
    seen = set()
    for b in inexec:
        m = re.search(r"(?:by|at) 0x[0-9A-F]+: (\S*execute[^\n]*)", b)
        fn = (m.group(1) if m else "execute").split(" (")[0][:120]
        if fn in seen:
            continue
        seen.add(fn)
        chk.fail("drd", "drd:race-in:" + fn, "valgrind --tool=drd reports conflicting accesses by two worker threads inside " + fn, {"report": b}, True)
    if aborted:
        chk.fail("drd", "drd:run", "the race-detector pass did not complete", {"shards": aborted[:3]}, False)
    # keep the result of the pass with the hash of the sources it ran on: quick-tier evidence quotes it (audit r2 N6)
    try:
        json.dump({"when": time.strftime("%Y-%m-%d %H:%M:%S"), "seed": chk.seed, "pyimath_source_hash": pyimath_source_hash(), "passed": bool(okd and okc),
                   "result": chk.extra["drd"]}, open(os.path.join(lib.ensure_dir(os.path.join(lib.VERIF, "evidence_thorough")), "C20.drd.json"), "w"), indent=1)
    except OSError:
        pass


def pyimath_source_hash():
    import hashlib
    h = hashlib.sha256()
    for f in sorted(glob.glob(os.path.join(lib.REPO, "src", "python", "PyImath", "*"))) + [os.path.join(lib.VERIF, "harness", "py", "poolshim.cpp")]:
        if os.path.isfile(f):
            h.update(os.path.basename(f).encode())
            h.update(open(f, "rb").read())
    return h.hexdigest()[:16]


def run(chk):
    chk.trusted = ["Lean 4.33 kernel; axioms propext, Classical.choice, Quot.sound at most",
                   "hand model Model/Dispatch.lean of dispatchTask / accessors / execute loops / ExtendByTask, tied by the "
                   "scripted-pool harness and by drv_dispatch == real module on integer ops (binary arithmetic, comparisons, unary "
                   "minus, 3-argument clamp, Box.extendBy through the GENERATED extendBy of Gen/C13Box.lean)",
                   "translator harness/sym (Gen/C13Box.lean regenerated from ImathBox.h on every run, TV as in C13)",
                   "harness/py/poolshim.cpp (scripted WorkerPool, public API only), harness/py/c20_harness.py, c20_extra.py, ctypes",
                   "harness/py/c20_scalar_ref.cpp: the table (python class, method, argument types) -> C++ library expression (1,560 "
                   "entries) compiled against the current headers; it states which library function each scalar binding stands for",
                   "cmake/ninja/g++ building the real module from the current tree; CPython 3.11 + Boost.Python 1.83; libm (powf/pow as "
                   "the reference of the array `**` operators)"]
    chk.assumptions = [
        "real concurrency is OBSERVED, not proved: the threaded mode runs every range on its own std::thread and compares "
        "bitwise; data-race freedom is argued from NoCrossAlias (disjoint footprints of distinct iterations, theorem "
        "iterations_commute), not proved about the binary",
        "NaN sign/payload bits are not compared (x86 NaN propagation depends on operand order, which differs between the "
        "vectorised body and the scalar epilogue the compiler generates for one loop); counted in nan_bits_only_differences",
        "integer division/modulo by zero and INT_MIN/-1 (C++ undefined behaviour, SIGFPE) and shift counts >= width are "
        "excluded from the generated arguments",
        "the element-wise reference of the module functions on FloatArray is the scalar binding evaluated in double (python floats "
        "select the double overload): those entry points, and QuatArray ^ / dot / euclideanInnerProduct (another summation order than "
        "the scalar `^`), are on the NAMED tolerance list (8 ulp-estimates, non-finite results not compared); every other entry point "
        "must be bit-identical to the scalar binding",
        "scalar bindings vs the C++ library: the table covers the scalar counterparts of the vectorised operations (Vec2/3/4, "
        "Matrix22/33/44, Quat, Box2/3, Color3/4, Euler, Frustum, FrustumTest, Line3, Plane3, module functions); the -O3 module and the "
        "-O1 -ffp-contract=off reference are expected to agree bit for bit (no FMA / fast-math in either); any NaN equals any NaN",
        "reductions (Box.extendBy(array)): the ACI laws are proved over a LINEAR order; IEEE NaN coordinates are outside (extendBy is "
        "not commutative there: kernel-checked example in Props/C20Box.lean); the model tie uses integer boxes",
        "drd (thorough tier) sees the schedules it is shown: a fixed list of entry points, one 8-thread run each"]
    chk.rule = ("every overload found in the Boost.Python docstrings whose C++ signature mentions FixedArray / FixedArray2D / FixedMatrix / "
                "StringArrayT / FixedVArray (exact allow-list for the rest); arguments generated per "
                "C++ type from a PRNG seeded by VERIF_SEED and the entry-point name: lengths 0,1,7,199,200,201,257,1000; direct, "
                "masked, STRIDED (component view of a composite array) and masked-on-strided presentations of every array argument "
                "(all 2^k direct/masked combinations for k<=3, each argument in turn strided and strided-masked), the same object as self and "
                "argument; datasets `nice` (moderate non-zero values) and `edge` (zeros, negatives, extremes, inf, nan, type "
                "min/max, and at fixed positions of every edge array the whole-element failure inputs: zero vector, denormal-only, "
                "overflowing, unit axis, all-equal, -0); partitions: single range, 2-way cuts at 0,1,199,200,201,len/2,len-1,len, reversed 2-way, 3-way sets "
                "around 199..201 in two orders, random 4/9/16-way in random order, threaded 2-/3-/8-way. non-trivial = runs with "
                "a pool installed")
    t0 = time.time()
    lib.ensure_dir(WD)
    for f in glob.glob(os.path.join(WD, "*")):
        try:
            os.remove(f)
        except OSError:
            pass

    # ---- the Lean side runs in a background thread, concurrently with the module build and the python harness ------
    import troute

    def lean_side():
        # Gen/C13Box.lean (Box::extendBy as extracted from the CURRENT ImathBox.h) is what Props/C20Box.lean and the
        # driver's `boxn` command are about: regenerate it here, exactly as the C13 check does
        tt = time.time()
        bins = troute.build_extractors(chk, [dict(name="sym_c13", source="sym/sym_c13.cpp", half=True)])
        if bins.get("sym_c13"):
            troute.regenerate(chk, bins["sym_c13"], "c13")
            troute.tv(chk, bins["sym_c13"], "c13", 64)
        chk.extra["regenerate_c13_s"] = round(time.time() - tt, 1)
        tt = time.time()
        chk.check_theorems("ImathVerif.Props.C20", required=REQUIRED, extra_targets=["drv_dispatch"])
        chk.check_theorems("ImathVerif.Props.C20Box", required=REQUIRED_BOX)
        if chk.thorough:
            chk.leanchecker("ImathVerif.Props.C20")
            chk.leanchecker("ImathVerif.Props.C20Box")
        chk.extra["theorems_s"] = round(time.time() - tt, 1)
    lean_pool = ThreadPoolExecutor(max_workers=1)
    lean_fut = lean_pool.submit(lean_side)

    # ---- build the real module, the shim and the scalar reference --------------------------------------------------
    ok, log = pyimath.build()
    chk.oblige("build:pyimath(current tree)", "build", ok, None if ok else log[-1500:])
    chk.extra["pyimath_build_s"] = round(time.time() - t0, 1)
    if not ok:
        chk.fail("build:pyimath", "build:pyimath", "the imath python module does not build from the current tree",
                 {"output": log[-3000:]}, False)
    driver = os.path.join(lib.LEAN, ".lake", "build", "bin", "drv_dispatch")
    if not ok:
        lean_fut.result()
        return
    oks, shim, o = build_shim()
    chk.oblige("build:poolshim(current PyImathTask.h)", "build", oks, None if oks else o[-1500:])
    if not oks:
        chk.fail("build:poolshim", "build:poolshim", "the scripted WorkerPool does not compile/link against the current "
                 "PyImathTask.h: the public WorkerPool interface changed", {"output": o[-3000:]}, False)
        lean_fut.result()
        return

    okr, sref, orf = lib.cxx_build("c20_scalar_ref" + TAG, ["py/c20_scalar_ref.cpp"] + [os.path.join(lib.REPO, "src", "Imath", f) for f in
                                   ("ImathColorAlgo.cpp", "ImathMatrixAlgo.cpp", "ImathFun.cpp", "ImathRandom.cpp", "half.cpp")])
    chk.oblige("build:c20_scalar_ref(current headers and sources)", "build", okr, None if okr else orf[-1500:])
    if not okr:
        chk.fail("build:c20_scalar_ref", "build:c20_scalar_ref", "the C++ reference table of the scalar bindings does not compile against the "
                 "current tree", {"compiler_errors": [l for l in orf.split("\n") if "error" in l][:12]}, False)

    # ---- source-level tie of the threshold constant ---------------------------------------------------
    src = open(os.path.join(lib.REPO, "src", "python", "PyImath", "PyImathTask.cpp")).read()
    m = re.search(r"_minIterations\s*=\s*(\d+)\s*;", src)
    okc = bool(m) and int(m.group(1)) == 200 and re.search(r"length\s*>\s*_minIterations", src) is not None
    chk.oblige("source:_minIterations == 200 and `length > _minIterations`", "correspondence", okc,
               None if okc else (m.group(0) if m else "pattern not found"))
    if not okc:
        chk.fail("source:threshold", "threshold:PyImathTask.cpp", "dispatchTask's threshold differs from the model's (length > 200)",
                 {"found": m.group(0) if m else None}, True)

    # ---- enumerate ---------------------------------------------------------------------------------------
    rc, so, se = harness(["list"], timeout=300)
    rcx, sox, sex = harness(["list"], timeout=300, script=EXTRA)
    if rc != 0 or rcx != 0:
        chk.oblige("enumerate entry points", "correspondence", False, (se + sex)[-800:])
        chk.fail("enumerate", "enumerate", "cannot import/introspect the built module", {"stderr": (se + sex)[-2000:], "rc": [rc, rcx]}, False)
        lean_fut.result()
        return
    lst = json.loads(so)
    xlst = json.loads(sox)
    entries = lst["entries"]
    xentries = xlst["entries"]
    todo = [e for e in entries if not e["skip"]]
    xtodo = [e for e in xentries if not e["skip"]]
    skipped = collections.Counter(e["skip"] for e in entries + xentries if e["skip"])
    # every overload whose C++ signature mentions an array-like type must be: exercised, a C19 protocol method (rule),
    # or NAMED in ALLOW_UNREACHED
    known = set(e["key"] for e in entries) | set(e["key"] for e in xentries)
    handled = set(e["key"] for e in todo + xtodo)
    frombuf = [k for k in lst.get("arraylike_keys", []) if k not in known and re.match(r"^imath\.\w+ArrayFromBuffer#\d+$", k)]
    skipped["buffer protocol (property C19)"] = len(frombuf)
    unseen = sorted(k for k in lst.get("arraylike_keys", []) if k not in known and k not in frombuf)
    unlisted = sorted(e["key"] + ": " + e["skip"] for e in entries + xentries
                      if e["skip"] and e["skip"] not in RULE_SKIPS and e["key"] not in ALLOW_UNREACHED and e["key"] not in handled)
    stale = sorted(k for k in ALLOW_UNREACHED if k not in set(e["key"] for e in entries + xentries if e["skip"]))
    chk.extra["entry_points"] = {"overloads_in_module": lst["overloads_total"], "overloads_mentioning_an_array_type": len(lst.get("arraylike_keys", [])),
                                 "1-D FixedArray overloads": len(entries), "2-D / matrix / string / variable-array / sampler overloads": len(xentries),
                                 "exercisable": len(todo) + len(xtodo), "skipped_by_rule(C19 protocol etc.)": {k: v for k, v in skipped.items() if k in RULE_SKIPS},
                                 "unreachable_from_python(named allow-list)": {k: ALLOW_UNREACHED[k] for k in sorted(ALLOW_UNREACHED) if k not in stale}}
    okl = not unseen and not unlisted and not stale and len(todo) >= 1500
    chk.oblige("enumerate: every exported overload that mentions an array type is exercised, a C19 protocol method, or on the named "
               "allow-list of %d exports python cannot reach" % len(ALLOW_UNREACHED), "correspondence", okl,
               None if okl else {"not_classified": unseen[:10], "skipped_but_not_on_the_allow_list": unlisted[:10], "allow_list_entries_no_longer_skipped": stale[:10],
                                 "exercisable": len(todo)})
    if unseen or unlisted:
        chk.fail("enumerate", "enumerate:unreached-export", "exported array operations that the harness does not reach and that are not on the "
                 "named allow-list: " + "; ".join((unseen + unlisted)[:6]), {"not_classified": unseen[:40], "skipped": unlisted[:40]}, False)
    if stale:
        chk.fail("enumerate", "enumerate:stale-allow-list", "allow-list names exports that are no longer skipped (remove them): " + ", ".join(stale[:8]), {"stale": stale}, False)
    props, carriers = set(lst.get("component_properties", [])), set(lst.get("strided_carriers", []))
    notc = sorted(props - carriers - PROPS_NOT_CARRIERS)
    okp = not notc and len(carriers) >= 80
    chk.oblige("enumerate: every component add_property of an array class (%d) is a carrier of the strided presentation, or one of %d named "
               "properties whose array type has no python class" % (len(props), len(PROPS_NOT_CARRIERS)), "correspondence", okp, notc[:10] or None)
    if not okp:
        chk.fail("enumerate: every component add_property", "enumerate:component-property-not-a-strided-source", "component array properties never used as strided "
                 "argument sources: " + ", ".join(notc[:10]), {"properties": notc}, False)
    if len(todo) < 1500:
        chk.fail("enumerate", "enumerate:too-few", "introspection found only %d exercisable vectorised overloads" % len(todo), {}, False)

    # ---- select ------------------------------------------------------------------------------------------
    core = [e["key"] for e in todo if e["core"]]
    always = sorted(e["key"] for e in todo if e.get("always") and not e["core"])
    others = sorted(e["key"] for e in todo if not e["core"] and not e.get("always"))
    if chk.thorough:
        sel = core + always + others
        Q = 1
    else:
        Q = 4
        sel = core + always + [k for i, k in enumerate(others) if i % Q == chk.seed % Q]
    chk.extra["selection"] = {"core_entry_points(all partitions, every tier)": len(core),
                              "owners_of_hand_written_Task_structs(every run, reduced partitions in quick)": len(always),
                              "other_entry_points_this_run": len(sel) - len(core) - len(always), "of": len(others),
                              "round_robin": "index %% %d == seed %% %d" % (Q, Q) if Q > 1 else "all"}
    base = {"shim": shim, "seed": chk.seed, "full": bool(chk.thorough), "core_full": True,
            "threaded_reps": 3 if chk.thorough else 1, "ulp_tol": ULP_TOL, "driver": driver,
            "model_lengths": [0, 1, 7, 199, 200, 201, 257, 1000] if chk.thorough else [0, 1, 7, 200, 201, 257],
            "worker_timeout": 3000 if chk.thorough else 1500}
    nproc = max(2, min(lib.NCPU, 16))
    rng = chk.rng
    rng.shuffle(sel)
    shards = [sel[i::nproc] for i in range(nproc)]
    selset = set(sel)
    mm_all = [e["key"] for e in todo if e.get("n_arrays", 0) >= 2 and e["key"] not in selset]
    mm_shards = [mm_all[i::nproc] for i in range(nproc)]
    chk.extra["selection"]["length_mismatch_only(entry points with >= 2 array arguments not selected above)"] = len(mm_all)
    events = []
    t1 = time.time()
    with ThreadPoolExecutor(max_workers=nproc) as ex:
        futs = [ex.submit(run_shard, i, sh, base, events, mm_shards[i]) for i, sh in enumerate(shards) if sh or mm_shards[i]]
        for f in futs:
            f.result()
    chk.extra["harness_wall_s"] = round(time.time() - t1, 1)

    if chk.thorough:
        run_drd(chk, shim, lst, core + always, nproc)
    else:
        try:
            last = json.load(open(os.path.join(lib.ensure_dir(os.path.join(lib.VERIF, "evidence_thorough")), "C20.drd.json")))
            last["same_PyImath_sources_and_shim_as_this_run"] = last.get("pyimath_source_hash") == pyimath_source_hash()
            chk.extra["drd(last thorough run; not re-run in the quick tier)"] = last
        except (OSError, ValueError):
            chk.extra["drd(last thorough run; not re-run in the quick tier)"] = "no stored result (evidence_thorough/C20.drd.json)"

    # ---- part 2: 2-D arrays, matrices, string arrays, variable-array constructors, samplers (all of them, every tier) ----
    t2 = time.time()
    xkeys = [e["key"] for e in xtodo]
    nx = max(1, min(6, nproc))
    with ThreadPoolExecutor(max_workers=nx) as ex:
        futs = [ex.submit(run_shard, 100 + i, xkeys[i::nx], base, events, (), EXTRA) for i in range(nx) if xkeys[i::nx]]
        for f in futs:
            f.result()
    chk.extra["extra_harness_wall_s"] = round(time.time() - t2, 1)
    sel = sel + xkeys

    # ---- part 3: scalar bindings against the C++ library ---------------------------------------------------
    t3 = time.time()
    scal = None
    if okr:
        sout = os.path.join(WD, "scalar.json")
        rcs, sos, ses = harness([sref, str(chk.seed), str(200 if chk.thorough else 24), sout], timeout=1200, script=SCALAR)
        try:
            scal = json.load(open(sout))
        except Exception:
            scal = None
        if scal is None:
            chk.oblige("scalar bindings == C++ library: harness ran", "correspondence", False, {"rc": rcs, "stderr": ses[-800:]})
            chk.fail("scalar-vs-cxx", "scalar-vs-cxx:run", "the scalar-binding comparison did not run (rc %s)" % rcs, {"stderr": ses[-2000:]}, False)
    chk.extra["scalar_vs_cxx_wall_s"] = round(time.time() - t3, 1)

    # ---- model tie -----------------------------------------------------------------------------------------
    mop = os.path.join(WD, "model_opts.json")
    json.dump(base, open(mop, "w"))
    mout = os.path.join(WD, "model.jsonl")
    lean_fut.result()          # theorems checked, drv_dispatch built
    chk.oblige("build:drv_dispatch", "build", os.path.exists(driver))
    tt = time.time()
    rcm, som, sem = harness(["model", mop, mout], timeout=600)
    chk.extra["model_tie_s"] = round(time.time() - tt, 1)

    # ---- aggregate -------------------------------------------------------------------------------------------
    eps, viols, crashes, herr, stats, safe_keys, model, mms = {}, [], [], [], [], set(), None, []
    for f in glob.glob(os.path.join(WD, "out*.jsonl")) + [mout]:
        if not os.path.exists(f):
            continue
        for l in open(f):
            try:
                d = json.loads(l)
            except ValueError:
                continue
            t = d.get("t")
            if t == "ep":
                if d["key"] not in eps or not d.get("crashed_signal"):
                    eps[d["key"]] = d
            elif t == "mm":
                mms.append(d)
            elif t == "viol":
                viols.append(d)
            elif t == "crash":
                crashes.append(d)
            elif t == "harness-error":
                herr.append(d)
            elif t == "stats":
                stats.append(d)
            elif t == "safe-mode":
                safe_keys.add(d["key"])
            elif t == "model":
                model = d

    done = [e for e in eps.values()]
    nrun = sum(e["runs"] for e in done)
    npart = sum(e["partitions"] for e in done)
    ndisp = sum(s["dispatches"] for s in stats)
    nranges = sum(s["ranges"] for s in stats)
    chk.count(nrun, npart)
    kinds = collections.Counter()
    for e in done:
        for k, v in e["kinds"].items():
            for part in k.split("|")[0].split(","):
                kinds[part] += v
    sref = collections.Counter((e.get("scalar_ref") or "none: not array-valued / no result to compare").split(":")[0].split(" (")[0]
                               for e in done)
    noref = collections.Counter(e.get("scalar_ref") for e in done if (e.get("scalar_ref") or "none").startswith("none"))
    parts = sorted(e["partitions"] for e in done) or [0]
    serial = sorted(e["key"] for e in done if e.get("serial") is True)
    dispatching = [e for e in done if e.get("serial") is False]
    chk.extra["harness"] = {
        "entry_points_exercised": len(done), "calls": nrun, "calls_with_pool_installed": npart,
        "dispatches_intercepted_by_the_scripted_pool": ndisp, "ranges_executed": nranges,
        "fallbacks(script did not fit the dispatched length)": sum(s["fallbacks"] for s in stats),
        "exceptions_caught_in_worker_threads": sum(s["thread_exceptions"] for s in stats),
        "threaded_calls": sum(e.get("threaded_runs", 0) for e in done),
        "partitions_per_entry_point": {"min": parts[0], "median": parts[len(parts) // 2], "max": parts[-1]},
        "hits_per_argument_kind": dict(kinds),
        "entry_points_that_dispatch_to_the_pool": len(dispatching),
        "entry_points_that_never_dispatch(serial loops; partition independence is trivial)": len(serial),
        "calls_that_raised(identically under every partition)": sum(e["raises"] for e in done),
        "nan_bits_only_differences": sum(s.get("nan_bits_only_differences", 0) for s in stats),
        "scalar_reference_kind": dict(sref), "no_scalar_reference_reasons": dict(noref.most_common(12)),
        "elements_compared_with_scalar_binding": sum(e["scalar_checked"] for e in done),
        "elements_bit_identical_to_scalar_binding": sum(e["scalar_exact"] for e in done),
        "elements_differing_only_in_zero_sign_or_nan_bits": sum(e.get("scalar_zero_sign_or_nan_bits", 0) for e in done),
        "elements_skipped_nonfinite_single_vs_double": sum(e.get("scalar_nonfinite_skipped", 0) for e in done),
        "max_accepted_deviation_vs_scalar(ulps of the element's largest component; beyond the tolerance: units of the first-order sum-of-absolute-terms estimate)": max([e["scalar_ulp_max"] for e in done if e["scalar_ulp_max"] < 10 ** 9] + [0]),
        "ulp_tolerance": ULP_TOL,
        "length_mismatch_cases(entry point, array argument position, shorter/longer)": sum((e.get("mismatch_len") or {}).get("cases", 0) for e in done + mms),
        "length_mismatch_entry_points(>= 2 array arguments; ALL of them in every tier)": sum(1 for e in done + mms if e.get("mismatch_len")),
        "length_mismatch_calls": sum((e.get("mismatch_len") or {}).get("calls", 0) for e in done + mms),
        "length_mismatch_calls_raised": sum((e.get("mismatch_len") or {}).get("raised", 0) for e in done + mms),
        "partitions_with_reused_worker_ids": sum(e.get("tid_reuse_partitions", 0) for e in done),
        "entry_points_rerun_in_safe_mode_after_a_crash_the_scalar_binding_reproduces": sorted(safe_keys),
    }
    used_src = set(x for s_ in stats for x in s_.get("strided_sources", []))
    miss_src = sorted(carriers - used_src)
    chk.extra["strided_sources"] = {"carriers(component properties usable as argument sources)": len(carriers), "used_in_this_run": len(used_src & carriers),
                                    "not_used_in_this_run": miss_src[:40]}
    oks = (not miss_src) if chk.thorough else (len(used_src & carriers) * 10 >= len(carriers) * 6)
    chk.oblige("strided sources: %s" % ("every carrier component property was used as a strided argument at least once" if chk.thorough else
                                       "at least 60 % of the carrier component properties were used as strided arguments (all of them in thorough)"),
               "correspondence", oks, miss_src[:20] if not oks else None)
    if not oks:
        chk.fail("strided sources", "strided-sources:not-reached", "component properties not used as strided argument sources: " + ", ".join(miss_src[:12]), {"missing": miss_src}, False)
    chk.extra["serial_entry_points_sample"] = serial[:25]
    for e in sorted(done, key=lambda e: -e["partitions"])[:4]:
        chk.sample({"entry": e["key"], "signature": e["sig"][:140], "partitions": e["partitions"], "dispatches": e["dispatches"],
                    "kinds": e["kinds"], "scalar_elements": e["scalar_checked"], "scalar_ref": e.get("scalar_ref")})

    # violations found by the harness: one per (entry point, argument kinds); the kinds of failure are listed
    byk = collections.Counter()
    grouped = collections.OrderedDict()
    def no_class_cause(v):
        """array-raises: 'No to_python (by-value) converter found for C++ type: X' -> one key per missing python class"""
        m = re.search(r"converter found for C\+\+ type: ([^'\"\]]+)", json.dumps(v.get("replay", {}).get("exception", "")) + v.get("what", ""))
        if not m:
            return None
        t = m.group(1).strip().rstrip(")").strip()
        if "unsigned char" in t:
            return "array-raises:no-python-class:FixedArray<Vec3/Vec4<unsigned char>>"
        return "array-raises:no-python-class:" + t.replace("PyImath::", "").replace(" ", "")
    noclass = collections.OrderedDict()
    rest_viols = []
    for v in viols:
        ck = no_class_cause(v) if v["kind"] == "array-raises" else None
        if ck:
            byk[v["kind"]] += 1
            noclass.setdefault(cause_key(ck, v["replay"].get("entry", "?")), []).append(v)
        else:
            rest_viols.append(v)
    for ck, vs in noclass.items():
        names = sorted(set(v["replay"].get("entry", "?") for v in vs))
        chk.fail(OBL["array-raises"], ck, "%d exported array operations can never succeed from python: their result type has no registered "
                 "python class (%s); the scalar bindings succeed on every element. Affected: %s" % (len(names), vs[0]["what"][:160], ", ".join(names)),
                 {"affected": names, "first": vs[0]["replay"]}, True)
    for v in rest_viols:
        byk[v["kind"]] += 1
        k = v["key"] if (v["kind"] == "model" or v["key"].startswith(("length-mismatch-not-raised:", "array-raises:", "mismatch-crash:", "component-property:"))) else v["key"].split(":", 1)[1]
        grouped.setdefault(k, []).append(v)
    for k, vs in grouped.items():
        kinds_ = sorted(set(v["kind"] for v in vs))
        chk.fail([OBL.get(x, "harness:" + x) for x in kinds_], k, "; ".join("%s: %s" % (v["kind"], v["what"]) for v in vs[:4]),
                 {v["kind"]: v["replay"] for v in vs}, True)
    # crashes
    consistent, inconsistent = [], []
    for c in crashes:
        (consistent if c.get("scalar_signal") == c.get("signal") else inconsistent).append(c)
    for c in inconsistent:
        chk.fail(OBL["crash"], "crash:%s|%s" % (c["key"], c.get("kinds")),
                 "the array operation kills the interpreter (signal %s); the scalar binding does not" % c.get("signal"), c, True)
    crashed_keys = set(c["key"] for c in crashes)
    for ev in events:
        if "hang" in ev:
            chk.fail(OBL["crash"], "hang:" + ev["hang"], "the call does not return (worker timed out)", ev, True)
        elif "fatal" in ev or "triage_failed" in ev:
            chk.fail("harness:worker", "worker:%s" % ev.get("triage_failed", ev.get("shard")), "harness worker failed", ev, False)
        elif "extra_crash" in ev:
            chk.fail(OBL["crash"], "crash:" + ev["extra_crash"], "the interpreter dies (rc %s) while this 2-D / matrix / string entry point is "
                     "exercised" % ev.get("rc"), ev, True)
        elif ev.get("entry") and ev["entry"] not in crashed_keys and ev.get("rc") not in (0, None):
            chk.fail(OBL["crash"], "crash:" + ev["entry"], "worker died (rc %s) while exercising this entry point; the guarded "
                     "re-run did not reproduce it" % ev.get("rc"), ev, True)
    for h in herr:
        chk.fail("harness:internal", "harness-error:" + h["key"], "the harness raised while exercising this entry point", h, False)
    chk.extra["crashes_reproduced_by_the_scalar_binding(not C20 violations; reported)"] = [
        {"entry": c["key"], "signal": c["signal"], "scalar_args": c.get("scalar_args")} for c in consistent][:20]
    missing = [k for k in sel if k not in eps]
    chk.oblige("every selected entry point exercised", "correspondence", not missing, missing[:10] or None)
    if missing:
        chk.fail("every selected entry point exercised", "not-exercised", "%d selected entry points were not exercised" % len(missing), {"first": missing[:20]}, False)
    chk.oblige("the scripted pool really was used (dispatches intercepted > 0, no script fallbacks)", "correspondence",
               ndisp > 0 and sum(s["fallbacks"] for s in stats) == 0, {"dispatches": ndisp})
    if ndisp == 0:
        chk.fail("the scripted pool really was used", "pool-not-used", "no dispatch was intercepted: WorkerPool::setCurrentPool has no effect", {}, False)
    for kind in ("partition", "nondeterministic", "threshold", "scalar", "component-property", "array-raises", "mismatch", "mismatch-write", "mismatch-crash"):
        name = OBL[kind]
        chk.oblige(name, "correspondence", byk.get(kind, 0) == 0, {"violating entry-point/kind combinations": byk.get(kind, 0)} if byk.get(kind) else None)
    chk.oblige(OBL["crash"], "correspondence",
               not inconsistent and not any("hang" in ev for ev in events))

    # ---- scalar reference: exact allow-list of entry points without one; named tolerance list -----------------
    def base_name(k):
        return k.split("#")[0]
    noref_bad, noref_ok, allraise = {}, {}, []
    for e in done:
        r = e.get("scalar_ref")
        if e.get("crashed_signal") or e["key"] in crashed_keys:
            continue
        if r is None or str(r).startswith("none"):
            if e.get("runs", 0) and e.get("raises", 0) >= e.get("runs", 0) - e.get("partitions", 0) and r is None:
                continue        # every call raises: reported by `array-raises` / identical under every partition
            (noref_ok if base_name(e["key"]) in NOREF_ALLOW else noref_bad)[e["key"]] = str(r)
        elif e.get("scalar_checked", 0) == 0 and e.get("scalar_all_raise"):
            allraise.append(e["key"])
    chk.extra["no_scalar_reference(allow-listed)"] = {"entries": sorted(noref_ok), "reasons": NOREF_ALLOW}
    chk.oblige("scalar:no-reference is a subset of the named allow-list (%d names): every other exercised entry point has an element-wise "
               "scalar reference" % len(NOREF_ALLOW), "correspondence", not noref_bad and not allraise,
               None if not (noref_bad or allraise) else {"without_reference": dict(list(noref_bad.items())[:12]), "scalar_raises_for_every_element": allraise[:12]})
    for k, r in sorted(noref_bad.items())[:40]:
        chk.fail("scalar:no-reference", "no-scalar-reference:" + base_name(k), "entry point %s was exercised but nothing was compared element-wise (%s) "
                 "and it is not on the allow-list" % (k, r), {"entry": k, "scalar_ref": r, "signature": eps[k]["sig"]}, False)
    for k in allraise[:40]:
        chk.fail("scalar:no-reference", "no-scalar-reference:" + base_name(k), "the scalar binding raises for EVERY element of %s (%s): nothing was compared"
                 % (k, eps[k].get("scalar_raise_example")), {"entry": k, "signature": eps[k]["sig"]}, True)
    # audit r2 N3: elements on which the scalar BINDING raises by design (zero float divisor, singular matrix) while the array
    # returns are compared with the C++ library's non-throwing result; none may be left uncompared
    unres = {e["key"]: (e["scalar_raised_elements"], e.get("scalar_raise_example")) for e in done if e.get("scalar_raised_elements")}
    nres = sum(e.get("scalar_raise_resolved", 0) for e in done)
    chk.oblige("scalar raises / array returns: every such element is compared with the C++ library's non-throwing result (IEEE component-wise "
               "division; inverse(singExc=false)) — %d elements, none left uncompared" % nres, "correspondence", not unres,
               dict(list(unres.items())[:10]) or None)
    for k, (n_, ex_) in sorted(unres.items())[:40]:
        chk.fail("scalar raises / array returns", "scalar-raises-array-returns:" + base_name(k), "for %d elements of %s the scalar binding raises (%s), the array "
                 "call returns, and no non-throwing reference is defined: those elements were compared with nothing" % (n_, k, ex_), {"entry": k}, True)
    tol = {}
    for e in done:
        if e.get("tolerance_listed"):
            d = tol.setdefault(e["tolerance_listed"][:90], {"entry_points": 0, "elements": 0, "bit_identical": 0, "max_ulp_estimate": 0})
            d["entry_points"] += 1
            d["elements"] += e["scalar_checked"]
            d["bit_identical"] += e["scalar_exact"]
            d["max_ulp_estimate"] = max(d["max_ulp_estimate"], e["scalar_ulp_max"] if e["scalar_ulp_max"] < 10 ** 9 else 0)
    chk.extra["tolerance_list(used by)"] = tol
    chk.extra["exact_entry_points"] = {"entry_points": sum(1 for e in done if e.get("scalar_checked") and not e.get("tolerance_listed")),
                                       "elements": sum(e["scalar_checked"] for e in done if not e.get("tolerance_listed")),
                                       "bit_identical": sum(e["scalar_exact"] for e in done if not e.get("tolerance_listed")),
                                       "of_which_nan_payload_or_sign_only": sum(e.get("scalar_nan_bits_only", 0) for e in done),
                                       "elements_where_the_scalar_binding_raises_and_the_array_returns(compared with the non-throwing C++ result)": nres,
                                       "of_those_left_uncompared": sum(e.get("scalar_raised_elements", 0) for e in done),
                                       "entry_points_scalar_checked_on_the_edge_dataset": sum(1 for e in done if "edge" in (e.get("scalar_datasets") or []))}

    # ---- scalar bindings == C++ library ---------------------------------------------------------------------
    if scal is not None:
        unb = sorted(set(u.split("  [")[0] for u in scal["unbound"]))
        gone = [u for u in unb if u not in UNBOUND_OK]
        never = sorted(k for k, v in scal["per_entry"].items() if v["compared"] == 0 and v["raise_both"] == 0)
        mm = collections.OrderedDict()
        for m in scal["mismatch"]:
            mm.setdefault(m["key"], []).append(m)
        chk.extra["scalar_vs_cxx"] = {"table_entries": scal["entries_in_table"], "bound_in_python": len(scal["per_entry"]), "cases": scal["cases"],
                                      "both_raise": scal["raise_both"], "results_containing_nan": scal["nan_canonicalised"],
                                      "table_entries_without_python_overload(allow-listed)": len(unb) - len(gone), "mismatching_entries": len(mm)}
        chk.count(scal["cases"], scal["cases"])
        chk.oblige(OBL["scalar-vs-cxx"] + " (%d entries, %d cases; raise must match throw)" % (len(scal["per_entry"]), scal["cases"]), "correspondence",
                   not mm and scal["ref_lines"] == scal["cases"] and scal["cases"] > 10000, {"mismatching": list(mm)[:12]} if mm else None)
        never_un = [k for k in never if k not in mm]
        chk.oblige("scalar-vs-cxx: every bound table entry produced at least one compared case (or is a reported mismatch)", "correspondence",
                   not never_un, never_un[:12] or None)
        for k in never_un[:20]:
            chk.fail("scalar-vs-cxx: every bound table entry produced", "scalar-vs-cxx:never-compared:" + k, "table entry %s is bound but no case was compared" % k, {}, False)
        chk.oblige("scalar-vs-cxx: no scalar binding of the table has disappeared (unbound entries are a subset of the named list of %d)" % len(UNBOUND_OK),
                   "correspondence", not gone, gone[:12] or None)
        # a mismatching CASE is attributed to an open finding only if (1) its table entry is a listed member of the cause and
        # (2) the case has the recorded SHAPE (finding_shape): everything else keeps a key of its own
        bycause = collections.OrderedDict()
        shaped, unshaped = 0, 0
        for k, ms in mm.items():
            cause = next((c for rx, c in SCALAR_CAUSES if re.match(rx, k)), None)
            parts = collections.OrderedDict()
            for m in ms:
                if cause is None:
                    ck = "scalar-vs-cxx:" + k
                elif cause_key(cause, k) != cause:
                    ck = cause_key(cause, k)
                elif finding_shape(cause, m):
                    ck = cause
                    shaped += 1
                else:
                    ck = "scalar-vs-cxx:%s:not-the-recorded-deviation" % k
                    unshaped += 1
                parts.setdefault(ck, []).append(m)
            for ck, pm in parts.items():
                bycause.setdefault(ck, []).append((k, pm))
        chk.extra["scalar_vs_cxx"]["mismatching_cases_with_the_shape_of_an_open_finding"] = shaped
        chk.extra["scalar_vs_cxx"]["mismatching_cases_in_those_entries_with_ANOTHER_shape"] = unshaped
        for ck, items in bycause.items():
            k, ms = items[0]
            m = ms[0]
            chk.fail(OBL["scalar-vs-cxx"], ck, "%s: %s; python %s, C++ %s (args %s)%s" % (k, m["what"], str(m["python"])[:120], str(m["cxx"])[:120], m["args"],
                                                                                     ("; same cause: " + ", ".join(x[0] for x in items[1:])) if len(items) > 1 else ""),
                     {"first": m, "entries": [x[0] for x in items], "mismatching_cases": sum(len(x[1]) for x in items)}, True)
        for u in gone:
            chk.fail("scalar-vs-cxx", "scalar-vs-cxx:unbound:" + u, "the python class has no (longer a) binding for %s" % u, {"entry": u}, False)
        if scal["ref_lines"] != scal["cases"] or scal["cases"] <= 10000:
            chk.fail("scalar-vs-cxx", "scalar-vs-cxx:run", "the reference binary answered %d of %d cases" % (scal["ref_lines"], scal["cases"]), {}, False)
        chk.sample({"scalar_vs_cxx_entry": "V3f.cross(V3f,V3f)", **scal["per_entry"].get("V3f.cross(V3f,V3f)", {})})
        # audit r2 N2: Part 1 certifies "array == scalar spelling", Part 3 certifies "tabled scalar spelling == C++": every
        # spelling Part 1 actually used must be a table entry that was compared (or a PyImath-defined function, named)
        used = collections.Counter()
        for e in done:
            for r in e.get("refs_used") or []:
                used[table_key_of_ref(r)] += 1
        compared = set(k for k, v in scal["per_entry"].items() if v["compared"] > 0 or v["raise_both"] > 0)
        outside = sorted(k for k in used if k not in compared and k not in REF_OUTSIDE_TABLE and not REF_OUTSIDE_RULE.match(k))
        chk.extra["scalar_reference_spellings"] = {"distinct_spellings_used_by_part_1": len(used), "of_which_compared_with_C++_in_part_3": sum(1 for k in used if k in compared),
                                                   "PyImath_defined(named, no library counterpart)": {k: REF_OUTSIDE_TABLE[k] for k in used if k in REF_OUTSIDE_TABLE}}
        chk.oblige("scalar-reference ⊆ scalar-vs-cxx table: every scalar spelling Part 1 used as an element-wise reference (%d distinct) was compared "
                   "with the C++ library in Part 3, or is one of %d named PyImath-defined functions" % (len(used), len(REF_OUTSIDE_TABLE)),
                   "correspondence", not outside and len(used) > 100, outside[:15] or None)
        for k in outside[:40]:
            chk.fail("scalar-reference ⊆ scalar-vs-cxx table", "scalar-reference-outside-table:" + k, "Part 1 compares array results with the scalar spelling %s, "
                     "which the scalar-vs-C++ table does not cover: a defect shared by that scalar binding and the array form would be invisible" % k,
                     {"spelling": k, "used_by_entry_points": used[k]}, False)

    # model tie
    okm = rcm == 0 and model is not None and model["disagree"] == 0 and model["cases"] > 500
    chk.oblige(OBL["model"], "correspondence", okm, model if model else {"rc": rcm, "stderr": sem[-600:]})
    chk.extra["model_tie"] = model
    if model is None:
        chk.fail(OBL["model"], "model:run", "the model/real comparison did not run", {"rc": rcm, "stderr": sem[-1500:]}, False)
    elif model["cases"] <= 500:
        chk.fail(OBL["model"], "model:few", "too few model cases", model, False)
    if model:
        chk.count(model["cases"], model["cases"])

    # ---- hazard probes (own processes; outside the property's quantifier, recorded) --------------------
    rcp, sop, sep = harness(["probe", "int-div-zero"], timeout=120)
    chk.extra["probe_int_division_by_zero"] = {"returncode": rcp, "note": "IntArray/IntArray with a zero divisor: negative returncode = "
                                               "the interpreter is killed by that signal (C++ UB; excluded from generated arguments)"}
    rcp, sop, sep = harness(["probe", "cross-alias", shim], timeout=120)
    try:
        chk.extra["probe_cross_aliased_masked_views"] = dict(json.loads(sop.strip().split("\n")[-1]),
                                                             note="outside NoCrossAlias: result may depend on the order of ranges")
    except Exception:
        chk.extra["probe_cross_aliased_masked_views"] = {"rc": rcp, "stderr": sep[-300:]}
