"""C20 — vectorised PyImath operations equal element-wise scalar operations under any task partition.

Theorems: lean/ImathVerif/Props/C20.lean over the hand model Model/Dispatch.lean
(dispatchTask, accessors, execute loops, ExtendByTask).
Tie, on every run, against the module BUILT FROM THE CURRENT TREE:
  * a scripted WorkerPool (harness/py/poolshim.cpp, compiled against the current
    PyImathTask.h, installed through the public WorkerPool::setCurrentPool);
  * harness/py/c20_harness.py enumerates every exported overload from the
    Boost.Python docstrings, generates array / scalar / masked arguments and
    compares bitwise: unsplit (no pool) vs every scripted partition (2-way, 3-way,
    random k-way in random order, one std::thread per range), element by element
    against the scalar binding, mismatched lengths must raise;
  * the same scripts through the Lean model (drv_dispatch) for integer add/sub/
    mul/rsub/iadd/isub/imul on direct, strided and masked views.
"""
import os, re, json, glob, time, subprocess, collections, statistics
from concurrent.futures import ThreadPoolExecutor
import lib, pyimath

LEVEL = "proof"
REQUIRED = ["exec_split", "partition_independent", "partition_independent_footprint", "elementwise_spec",
            "interleaving_independent", "iterations_commute", "noCrossAlias_of",
            "reduction_partition_independent", "reduction_cover_independent", "hull_join_laws",
            "box_extendBy_partition_independent", "dispatch_threshold",
            "measureArguments_mismatch", "length_mismatch_raises", "inplace_length_mismatch_raises"]
HARNESS = os.path.join(lib.VERIF, "harness", "py", "c20_harness.py")
TAG = os.path.basename(pyimath.BDIR)[len("pyimath"):]
WD = os.path.join(lib.BUILD, "c20" + TAG)
ULP_TOL = 8


def build_shim():
    libdir = os.path.join(pyimath.BDIR, "src", "python", "PyImath")
    cands = sorted(glob.glob(os.path.join(libdir, "libPyImath_Python*.so")))
    if not cands:
        return False, "", "libPyImath not found under " + libdir
    name = os.path.basename(cands[0])[3:-3]
    out = os.path.join(lib.ensure_dir(os.path.join(lib.BUILD, "bin")), "libpoolshim%s.so" % TAG)
    cmd = ["g++", "-std=c++17", "-O1", "-fPIC", "-shared", "-I" + os.path.join(lib.REPO, "src", "python", "PyImath"),
           os.path.join(lib.VERIF, "harness", "py", "poolshim.cpp"), "-o", out + ".new", "-L" + libdir, "-l" + name, "-lpthread"]
    rc, o = lib.sh(cmd, timeout=300)
    if rc != 0:
        return False, out, o
    os.replace(out + ".new", out)
    return True, out, o


def harness(args, timeout=1800, stdout=None):
    """run the harness under the python the module was built for; -> (returncode (negative = signal), stdout, stderr)"""
    try:
        p = subprocess.run([pyimath.PYTHON, HARNESS] + args, env=pyimath.env(), stdout=subprocess.PIPE,
                           stderr=subprocess.PIPE, timeout=timeout, text=True, errors="replace")
        return p.returncode, p.stdout, p.stderr
    except subprocess.TimeoutExpired as ex:
        return 124, "", "[timeout after %ss]" % timeout


def last_begun(progress):
    cur = None
    try:
        for l in open(progress):
            if l.startswith("BEGIN "):
                cur = l[6:].strip()
            elif l.startswith("END "):
                cur = None
    except FileNotFoundError:
        pass
    return cur


def run_shard(idx, keys, base, events, mm_keys=()):
    """one worker process per shard; a crash (signal) or hang is attributed to the entry point in progress, triaged in
    a guarded re-run (every call first in a forked child), retried in safe mode when the scalar binding crashes too,
    and the shard continues with the remaining entry points."""
    out = os.path.join(WD, "out%d.jsonl" % idx)
    round_ = 0
    keys = list(keys)
    mm = list(mm_keys)
    safe = []
    while (keys or mm) and round_ < 40:
        round_ += 1
        prog = os.path.join(WD, "prog%d_%d.txt" % (idx, round_))
        opts = dict(base, keys=keys, progress=prog, safe_keys=safe, mm_keys=mm)
        op = os.path.join(WD, "opts%d_%d.json" % (idx, round_))
        json.dump(opts, open(op, "w"))
        rc, so, se = harness(["run", op, out], timeout=base["worker_timeout"])
        if rc == 0:
            return
        bad = last_begun(prog)
        events.append({"shard": idx, "rc": rc, "entry": bad, "stderr": se[-1500:]})
        if bad is not None and bad not in keys and bad in mm:
            # died in the length-mismatch-only part: guarded re-run of that entry point, then go on
            top = os.path.join(WD, "triage%d_%d.json" % (idx, round_))
            json.dump(dict(base, keys=[], mm_keys=[bad], guard=True, progress=None), open(top, "w"))
            harness(["run", top, out], timeout=base["worker_timeout"])
            keys, mm = [], mm[mm.index(bad) + 1:]
            continue
        if bad is None or bad not in keys:
            events.append({"shard": idx, "fatal": "worker died outside an entry point", "stderr": se[-1500:]})
            return
        rest = keys[keys.index(bad) + 1:]
        if rc == 124:
            events.append({"hang": bad})
            keys = rest
            continue
        # triage in guarded mode
        top = os.path.join(WD, "triage%d_%d.json" % (idx, round_))
        json.dump(dict(base, keys=[bad], guard=True, progress=None, safe_keys=safe, mm_keys=[]), open(top, "w"))
        rc2, so2, se2 = harness(["run", top, out], timeout=base["worker_timeout"])
        if rc2 != 0:
            events.append({"triage_failed": bad, "rc": rc2, "stderr": se2[-800:]})
        if bad not in safe:
            safe = safe + [bad]
            keys = [bad] + rest          # once more, in safe mode
        else:
            keys = rest


def run(chk):
    chk.trusted = ["Lean 4.33 kernel; axioms propext, Classical.choice, Quot.sound at most",
                   "hand model Model/Dispatch.lean of dispatchTask / accessors / execute loops / ExtendByTask, tied by the "
                   "scripted-pool harness and by drv_dispatch == real module on integer ops",
                   "harness/py/poolshim.cpp (scripted WorkerPool, public API only), harness/py/c20_harness.py, ctypes",
                   "cmake/ninja/g++ building the real module from the current tree; CPython 3.11 + Boost.Python 1.83"]
    chk.assumptions = [
        "real concurrency is OBSERVED, not proved: the threaded mode runs every range on its own std::thread and compares "
        "bitwise; data-race freedom is argued from NoCrossAlias (disjoint footprints of distinct iterations, theorem "
        "iterations_commute), not proved about the binary",
        "NaN sign/payload bits are not compared (x86 NaN propagation depends on operand order, which differs between the "
        "vectorised body and the scalar epilogue the compiler generates for one loop); counted in nan_bits_only_differences",
        "integer division/modulo by zero and INT_MIN/-1 (C++ undefined behaviour, SIGFPE) and shift counts >= width are "
        "excluded from the generated arguments",
        "scalar bindings are compared with the C++ library by the per-type properties (C04..C17), not here"]
    chk.rule = ("every overload found in the Boost.Python docstrings with a FixedArray argument or result; arguments generated per "
                "C++ type from a PRNG seeded by VERIF_SEED and the entry-point name: lengths 0,1,7,199,200,201,257,1000; direct and "
                "masked presentations of every array argument (all 2^k combinations for k<=3), the same object as self and "
                "argument; datasets `nice` (moderate non-zero values) and `edge` (zeros, negatives, extremes, inf, nan, type "
                "min/max); partitions: single range, 2-way cuts at 0,1,199,200,201,len/2,len-1,len, reversed 2-way, 3-way sets "
                "around 199..201 in two orders, random 4/9/16-way in random order, threaded 2-/3-/8-way. non-trivial = runs with "
                "a pool installed")
    t0 = time.time()
    lib.ensure_dir(WD)
    for f in glob.glob(os.path.join(WD, "*")):
        try:
            os.remove(f)
        except OSError:
            pass

    # ---- build the real module, the shim, the theorems and the driver ---------------------------------
    ok, log = pyimath.build()
    chk.oblige("build:pyimath(current tree)", "build", ok, None if ok else log[-1500:])
    chk.extra["pyimath_build_s"] = round(time.time() - t0, 1)
    if not ok:
        chk.fail("build:pyimath", "build:pyimath", "the imath python module does not build from the current tree",
                 {"output": log[-3000:]}, False)
    okth, out = chk.check_theorems("ImathVerif.Props.C20", required=REQUIRED, extra_targets=["drv_dispatch"])
    if chk.thorough:
        chk.leanchecker("ImathVerif.Props.C20")
    driver = os.path.join(lib.LEAN, ".lake", "build", "bin", "drv_dispatch")
    chk.oblige("build:drv_dispatch", "build", os.path.exists(driver))
    if not ok:
        return
    oks, shim, o = build_shim()
    chk.oblige("build:poolshim(current PyImathTask.h)", "build", oks, None if oks else o[-1500:])
    if not oks:
        chk.fail("build:poolshim", "build:poolshim", "the scripted WorkerPool does not compile/link against the current "
                 "PyImathTask.h: the public WorkerPool interface changed", {"output": o[-3000:]}, False)
        return

    # ---- source-level tie of the threshold constant ---------------------------------------------------
    src = open(os.path.join(lib.REPO, "src", "python", "PyImath", "PyImathTask.cpp")).read()
    m = re.search(r"_minIterations\s*=\s*(\d+)\s*;", src)
    okc = bool(m) and int(m.group(1)) == 200 and re.search(r"length\s*>\s*_minIterations", src) is not None
    chk.oblige("source:_minIterations == 200 and `length > _minIterations`", "correspondence", okc,
               None if okc else (m.group(0) if m else "pattern not found"))
    if not okc:
        chk.fail("source:threshold", "threshold:PyImathTask.cpp", "dispatchTask's threshold differs from the model's (length > 200)",
                 {"found": m.group(0) if m else None}, True)

    # ---- enumerate ---------------------------------------------------------------------------------------
    rc, so, se = harness(["list"], timeout=300)
    if rc != 0:
        chk.oblige("enumerate entry points", "correspondence", False, se[-800:])
        chk.fail("enumerate", "enumerate", "cannot import/introspect the built module", {"stderr": se[-2000:], "rc": rc}, False)
        return
    lst = json.loads(so)
    entries = lst["entries"]
    todo = [e for e in entries if not e["skip"]]
    skipped = collections.Counter(e["skip"] for e in entries if e["skip"])
    chk.extra["entry_points"] = {"overloads_in_module": lst["overloads_total"], "without_array_argument_or_result": lst["non_vectorised"],
                                 "vectorised_discovered": len(entries), "exercisable": len(todo),
                                 "skipped": dict(skipped)}
    chk.oblige("enumerate entry points (>= 1500 vectorised overloads exercisable)", "correspondence", len(todo) >= 1500,
               {"exercisable": len(todo)})
    if len(todo) < 1500:
        chk.fail("enumerate", "enumerate:too-few", "introspection found only %d exercisable vectorised overloads" % len(todo), {}, False)

    # ---- select ------------------------------------------------------------------------------------------
    core = [e["key"] for e in todo if e["core"]]
    others = sorted(e["key"] for e in todo if not e["core"])
    if chk.thorough:
        sel = core + others
        Q = 1
    else:
        Q = 4
        sel = core + [k for i, k in enumerate(others) if i % Q == chk.seed % Q]
    chk.extra["selection"] = {"core_entry_points(all partitions, every tier)": len(core),
                              "other_entry_points_this_run": len(sel) - len(core), "of": len(others),
                              "round_robin": "index %% %d == seed %% %d" % (Q, Q) if Q > 1 else "all"}
    base = {"shim": shim, "seed": chk.seed, "full": bool(chk.thorough), "core_full": True,
            "threaded_reps": 3 if chk.thorough else 1, "ulp_tol": ULP_TOL, "driver": driver,
            "model_lengths": [0, 1, 7, 199, 200, 201, 257, 1000] if chk.thorough else [0, 1, 7, 200, 201, 257],
            "worker_timeout": 1500 if chk.thorough else 600}
    nproc = max(2, min(lib.NCPU, 16))
    rng = chk.rng
    rng.shuffle(sel)
    shards = [sel[i::nproc] for i in range(nproc)]
    selset = set(sel)
    mm_all = [e["key"] for e in todo if e.get("n_arrays", 0) >= 2 and e["key"] not in selset]
    mm_shards = [mm_all[i::nproc] for i in range(nproc)]
    chk.extra["selection"]["length_mismatch_only(entry points with >= 2 array arguments not selected above)"] = len(mm_all)
    events = []
    t1 = time.time()
    with ThreadPoolExecutor(max_workers=nproc) as ex:
        futs = [ex.submit(run_shard, i, sh, base, events, mm_shards[i]) for i, sh in enumerate(shards) if sh or mm_shards[i]]
        for f in futs:
            f.result()
    chk.extra["harness_wall_s"] = round(time.time() - t1, 1)

    # ---- model tie -----------------------------------------------------------------------------------------
    mop = os.path.join(WD, "model_opts.json")
    json.dump(base, open(mop, "w"))
    mout = os.path.join(WD, "model.jsonl")
    rcm, som, sem = harness(["model", mop, mout], timeout=600)

    # ---- aggregate -------------------------------------------------------------------------------------------
    eps, viols, crashes, herr, stats, safe_keys, model, mms = {}, [], [], [], [], set(), None, []
    for f in glob.glob(os.path.join(WD, "out*.jsonl")) + [mout]:
        if not os.path.exists(f):
            continue
        for l in open(f):
            try:
                d = json.loads(l)
            except ValueError:
                continue
            t = d.get("t")
            if t == "ep":
                if d["key"] not in eps or not d.get("crashed_signal"):
                    eps[d["key"]] = d
            elif t == "mm":
                mms.append(d)
            elif t == "viol":
                viols.append(d)
            elif t == "crash":
                crashes.append(d)
            elif t == "harness-error":
                herr.append(d)
            elif t == "stats":
                stats.append(d)
            elif t == "safe-mode":
                safe_keys.add(d["key"])
            elif t == "model":
                model = d

    done = [e for e in eps.values()]
    nrun = sum(e["runs"] for e in done)
    npart = sum(e["partitions"] for e in done)
    ndisp = sum(s["dispatches"] for s in stats)
    nranges = sum(s["ranges"] for s in stats)
    chk.count(nrun, npart)
    kinds = collections.Counter()
    for e in done:
        for k, v in e["kinds"].items():
            for part in k.split("|")[0].split(","):
                kinds[part] += v
    sref = collections.Counter((e.get("scalar_ref") or "none: not array-valued / no result to compare").split(":")[0].split(" (")[0]
                               for e in done)
    noref = collections.Counter(e.get("scalar_ref") for e in done if (e.get("scalar_ref") or "none").startswith("none"))
    parts = sorted(e["partitions"] for e in done) or [0]
    serial = sorted(e["key"] for e in done if e.get("serial") is True)
    dispatching = [e for e in done if e.get("serial") is False]
    chk.extra["harness"] = {
        "entry_points_exercised": len(done), "calls": nrun, "calls_with_pool_installed": npart,
        "dispatches_intercepted_by_the_scripted_pool": ndisp, "ranges_executed": nranges,
        "fallbacks(script did not fit the dispatched length)": sum(s["fallbacks"] for s in stats),
        "exceptions_caught_in_worker_threads": sum(s["thread_exceptions"] for s in stats),
        "threaded_calls": sum(e.get("threaded_runs", 0) for e in done),
        "partitions_per_entry_point": {"min": parts[0], "median": parts[len(parts) // 2], "max": parts[-1]},
        "hits_per_argument_kind": dict(kinds),
        "entry_points_that_dispatch_to_the_pool": len(dispatching),
        "entry_points_that_never_dispatch(serial loops; partition independence is trivial)": len(serial),
        "calls_that_raised(identically under every partition)": sum(e["raises"] for e in done),
        "nan_bits_only_differences": sum(s.get("nan_bits_only_differences", 0) for s in stats),
        "scalar_reference_kind": dict(sref), "no_scalar_reference_reasons": dict(noref.most_common(12)),
        "elements_compared_with_scalar_binding": sum(e["scalar_checked"] for e in done),
        "elements_bit_identical_to_scalar_binding": sum(e["scalar_exact"] for e in done),
        "elements_differing_only_in_zero_sign_or_nan_bits": sum(e.get("scalar_zero_sign_or_nan_bits", 0) for e in done),
        "elements_skipped_nonfinite_single_vs_double": sum(e.get("scalar_nonfinite_skipped", 0) for e in done),
        "max_accepted_deviation_vs_scalar(ulps of the element's largest component; beyond the tolerance: units of the first-order sum-of-absolute-terms estimate)": max([e["scalar_ulp_max"] for e in done if e["scalar_ulp_max"] < 10 ** 9] + [0]),
        "ulp_tolerance": ULP_TOL,
        "length_mismatch_cases(entry point, array argument position, shorter/longer)": sum((e.get("mismatch_len") or {}).get("cases", 0) for e in done + mms),
        "length_mismatch_entry_points(>= 2 array arguments; ALL of them in every tier)": sum(1 for e in done + mms if e.get("mismatch_len")),
        "length_mismatch_calls": sum((e.get("mismatch_len") or {}).get("calls", 0) for e in done + mms),
        "length_mismatch_calls_raised": sum((e.get("mismatch_len") or {}).get("raised", 0) for e in done + mms),
        "partitions_with_reused_worker_ids": sum(e.get("tid_reuse_partitions", 0) for e in done),
        "entry_points_rerun_in_safe_mode_after_a_crash_the_scalar_binding_reproduces": sorted(safe_keys),
    }
    chk.extra["serial_entry_points_sample"] = serial[:25]
    for e in sorted(done, key=lambda e: -e["partitions"])[:4]:
        chk.sample({"entry": e["key"], "signature": e["sig"][:140], "partitions": e["partitions"], "dispatches": e["dispatches"],
                    "kinds": e["kinds"], "scalar_elements": e["scalar_checked"], "scalar_ref": e.get("scalar_ref")})

    # violations found by the harness: one per (entry point, argument kinds); the kinds of failure are listed
    byk = collections.Counter()
    grouped = collections.OrderedDict()
    for v in viols:
        byk[v["kind"]] += 1
        k = v["key"] if (v["kind"] == "model" or v["key"].startswith("length-mismatch-not-raised:")) else v["key"].split(":", 1)[1]
        grouped.setdefault(k, []).append(v)
    for k, vs in grouped.items():
        kinds_ = sorted(set(v["kind"] for v in vs))
        chk.fail("harness:" + "+".join(kinds_), k, "; ".join("%s: %s" % (v["kind"], v["what"]) for v in vs[:4]),
                 {v["kind"]: v["replay"] for v in vs}, True)
    # crashes
    consistent, inconsistent = [], []
    for c in crashes:
        (consistent if c.get("scalar_signal") == c.get("signal") else inconsistent).append(c)
    for c in inconsistent:
        chk.fail("harness:crash", "crash:%s|%s" % (c["key"], c.get("kinds")),
                 "the array operation kills the interpreter (signal %s); the scalar binding does not" % c.get("signal"), c, True)
    crashed_keys = set(c["key"] for c in crashes)
    for ev in events:
        if "hang" in ev:
            chk.fail("harness:hang", "hang:" + ev["hang"], "the call does not return (worker timed out)", ev, True)
        elif "fatal" in ev or "triage_failed" in ev:
            chk.fail("harness:worker", "worker:%s" % ev.get("triage_failed", ev.get("shard")), "harness worker failed", ev, False)
        elif ev.get("entry") and ev["entry"] not in crashed_keys and ev.get("rc") not in (0, None):
            chk.fail("harness:crash", "crash:" + ev["entry"], "worker died (rc %s) while exercising this entry point; the guarded "
                     "re-run did not reproduce it" % ev.get("rc"), ev, True)
    for h in herr:
        chk.fail("harness:internal", "harness-error:" + h["key"], "the harness raised while exercising this entry point", h, False)
    chk.extra["crashes_reproduced_by_the_scalar_binding(not C20 violations; reported)"] = [
        {"entry": c["key"], "signal": c["signal"], "scalar_args": c.get("scalar_args")} for c in consistent][:20]
    missing = [k for k in sel if k not in eps]
    chk.oblige("every selected entry point exercised", "correspondence", not missing, missing[:10] or None)
    if missing:
        chk.fail("harness:coverage", "not-exercised", "%d selected entry points were not exercised" % len(missing), {"first": missing[:20]}, False)
    chk.oblige("the scripted pool really was used (dispatches intercepted > 0, no script fallbacks)", "correspondence",
               ndisp > 0 and sum(s["fallbacks"] for s in stats) == 0, {"dispatches": ndisp})
    if ndisp == 0:
        chk.fail("harness:pool", "pool-not-used", "no dispatch was intercepted: WorkerPool::setCurrentPool has no effect", {}, False)
    for kind, name in (("partition", "bitwise partition independence (all partitions, orders, threads)"),
                       ("nondeterministic", "identical unsplit runs agree"),
                       ("threshold", "pool used iff length > 200 and caller not a worker"),
                       ("scalar", "every element equals the scalar binding (identical, or within %d ulp-estimates)" % ULP_TOL),
                       ("mismatch", "mismatched lengths raise"), ("mismatch-write", "no write before the length check"),
                       ("mismatch-crash", "mismatched lengths do not crash")):
        chk.oblige(name, "correspondence", byk.get(kind, 0) == 0, {"violating entry-point/kind combinations": byk.get(kind, 0)} if byk.get(kind) else None)
    chk.oblige("no crash or hang that the scalar binding does not reproduce", "correspondence",
               not inconsistent and not any("hang" in ev for ev in events))

    # model tie
    okm = rcm == 0 and model is not None and model["disagree"] == 0 and model["cases"] > 500
    chk.oblige("Lean model == real module on integer ops (direct/strided/masked, scripted partitions, raise/no-raise, pool used)",
               "correspondence", okm, model if model else {"rc": rcm, "stderr": sem[-600:]})
    chk.extra["model_tie"] = model
    if model is None:
        chk.fail("model-tie", "model:run", "the model/real comparison did not run", {"rc": rcm, "stderr": sem[-1500:]}, False)
    elif model["cases"] <= 500:
        chk.fail("model-tie", "model:few", "too few model cases", model, False)
    if model:
        chk.count(model["cases"], model["cases"])

    # ---- hazard probes (own processes; outside the property's quantifier, recorded) --------------------
    rcp, sop, sep = harness(["probe", "int-div-zero"], timeout=120)
    chk.extra["probe_int_division_by_zero"] = {"returncode": rcp, "note": "IntArray/IntArray with a zero divisor: negative returncode = "
                                               "the interpreter is killed by that signal (C++ UB; excluded from generated arguments)"}
    rcp, sop, sep = harness(["probe", "cross-alias", shim], timeout=120)
    try:
        chk.extra["probe_cross_aliased_masked_views"] = dict(json.loads(sop.strip().split("\n")[-1]),
                                                             note="outside NoCrossAlias: result may depend on the order of ranges")
    except Exception:
        chk.extra["probe_cross_aliased_masked_views"] = {"rc": rcp, "stderr": sep[-300:]}
