"""C05 — products, transposes, minors, determinants (T-route + measured rounding residue)."""
import os, re
import lib, troute

IMPORTS = ["ImathVerif.Spec.MatSpec", "ImathVerif.Gen.C05"]


def residue(chk, binary, n):
    rc, out = lib.sh([binary, str(chk.seed), str(n)], timeout=1800)
    m = re.search(r"RESIDUE evals=(\d+) lattice_exact=(\d+) failures=(\d+) worst_err_over_u_sumabs=([\d.]+) det44_zero_pattern_hits=(\S+)", out)
    ok = rc == 0 and m is not None and int(m.group(3)) == 0
    chk.oblige("residue: |impl - exact| <= (n+2)*u*sum|products|; exact on integer lattices", "residue", ok)
    if m:
        chk.count(int(m.group(1)), int(m.group(1)))
        chk.residues["C05"] = {"evaluations": int(m.group(1)), "lattice_cases_required_exact": int(m.group(2)),
                               "worst_error_in_units_of_u_times_sum_abs_products": float(m.group(4)),
                               "bound": "(number of terms + 2) * u * sum|products|",
                               "Matrix44::determinant zero-column patterns hit (bitmask of zero entries in column 3)": m.group(5)}
    for l in [l for l in out.split("\n") if l.startswith("RESIDUE-FAIL")][:10]:
        what = l.split()[1]
        chk.fail("residue:" + what, "residue:" + what, "rounding residue / lattice exactness violated: " + l[:300], {"line": l}, True)
    if not ok and "RESIDUE-FAIL" not in out:
        chk.fail("residue", "residue:run", "residue harness failed to run", {"output": out[-2000:]}, False)


def run(chk):
    chk.trusted = ["Lean 4.33 kernel; axioms propext/Classical.choice/Quot.sound at most", "Mathlib's Matrix.mul/det/transpose/trace/vecMul",
                   "translator harness/sym, validated each run by TV (bitwise at float and double)",
                   "__float128 evaluation as the oracle of the measured rounding residue"]
    chk.assumptions = ["rounding: NOT proved; measured against a 113-bit evaluation with the bound (terms+2)*u*sum|products| (partial)"]
    chk.rule = ("theorems: all operands over any commutative ring/field. residue: integer lattice [-3,3] (exact equality), well-scaled, "
                "sparse (takes the zero-skipping determinant branches; hit counts recorded), graded magnitudes; float and double")
    bins = troute.build_extractors(chk, [dict(name="sym_c05", source="sym/sym_c05.cpp"),
                                         dict(name="c05_residue", source="corr/c05_residue.cpp")])
    if bins.get("sym_c05"):
        index, changed = troute.regenerate(chk, bins["sym_c05"], "c05")
        troute.tv(chk, bins["sym_c05"], "c05", 400 if chk.thorough else 64)
        troute.lean_tv(chk, bins["sym_c05"], "c05", index, n=8 if chk.thorough else 3)

        def search(name):
            return troute.lean_search(chk, "ImathVerif.Props.C05", name, IMPORTS, ["ImathVerif", "Matrix"], binary=bins["sym_c05"])
        chk.check_theorems("ImathVerif.Props.C05", search=search)
        for d in index[:5]:
            chk.sample({"entry": d["name"], "paths": d.get("paths")})
    if bins.get("c05_residue"):
        residue(chk, bins["c05_residue"], 200000 if chk.thorough else 20000)
    if chk.thorough:
        chk.leanchecker("ImathVerif.Props.C05")
