"""C05 — products, transposes, minors, determinants (T-route + measured rounding residue).

Theorems (Props/C05.lean, all REQUIRED; every extraction entry must have its own theorem whose statement mentions the
entry) over the definitions regenerated from the current headers.  Residue (harness/corr/c05_residue.cpp): EVERY
extracted function is also run on the real code at float and double (the two-type Vec x Matrix templates additionally
at Vec<float> x Matrix<double> and Vec<double> x Matrix<float>) against a __float128 evaluation, one row per
(function, element types) with its own constant (number of roundings on the longest path of the code as written) and its
own recorded maximum, which must also stay within DRIFT x the calibrated clean-tree maximum (tools/pins/residue_c05.json;
recalibrate by hand on a clean tree:  python3 tools/props/c05.py calibrate)."""
import json, os, re, sys
sys.path.insert(0, os.path.dirname(os.path.dirname(os.path.abspath(__file__))))          # `python3 tools/props/c05.py calibrate`
import lib, troute

IMPORTS = ["ImathVerif.Spec.MatSpec", "ImathVerif.Lemmas.C05", "ImathVerif.Gen.C05"]
MODULE = "ImathVerif.Props.C05"

_MINORS33 = ["M33_minorOf_%d_%d" % (r, c) for r in range(3) for c in range(3)]
_MINORS44 = ["M44_minorOf_%d_%d" % (r, c) for r in range(4) for c in range(4)]
_FM33 = ["01_12", "12_02", "21_20", "00_11", "20_02"]
_FM44 = ["123_012", "013_123", "321_210", "002_133", "023_012", "013_012", "012_012"]
REQUIRED = (
    ["V2_dot", "V3_dot", "V4_dot", "V2_dotOp", "V3_dotOp", "V4_dotOp", "V2_length2", "V3_length2", "V4_length2",
     "V2_cross", "V2_crossOp", "V2_cross_det", "V3_cross", "V3_crossOp", "V3_crossAssign", "V3_cross_mathlib",
     "V3_cross_crossProduct", "V3_crossOp_crossProduct", "V3_crossAssign_crossProduct",
     "Quat_mul", "Quat_mulAssign", "Quat_mul_hamilton", "Quat_mulAssign_hamilton", "Quat_euclideanInnerProduct",
     "M22_mul", "M33_mul", "M44_mul", "M22_mulAssign", "M33_mulAssign", "M44_mulAssign", "M44_multiplyStatic", "M44_multiplyStatic3",
     "Quat_mulAssignSelf", "M22_mulAssignSelf", "M33_mulAssignSelf", "M44_mulAssignSelf", "V3_crossAssignSelf",
     "M44_multiplyStatic3AliasA", "M44_multiplyStatic3AliasB",
     "M22_transposed", "M33_transposed", "M44_transposed", "M22_transpose", "M33_transpose", "M44_transpose",
     "M22_trace", "M33_trace", "M44_trace", "M22_determinant", "M33_determinant", "M44_determinant",
     "M22_det_mul", "M33_det_mul", "M44_det_mul", "M22_det_transpose", "M33_det_transpose", "M44_det_transpose",
     "V2_mulM22", "V3_mulM33", "V4_mulM44", "V3_mulM44", "V2_mulM33", "M44_multDirMatrix", "M33_multDirMatrix", "M22_multDirMatrix",
     "M44_multVecMatrix", "M33_multVecMatrix", "V2_mulAssignM22", "V2_mulAssignM33", "V3_mulAssignM33", "V3_mulAssignM44", "V4_mulAssignM44",
     "M33_outerProduct", "M44_outerProduct", "fastMinor2_eq_det", "fastMinor3_eq_det", "M44_determinant_via_fastMinor"]
    + _MINORS33 + _MINORS44
    + ["M33_fastMinor_" + t for t in _FM33] + ["M33_fastMinor_%s_model" % t for t in _FM33]
    + ["M44_fastMinor_" + t for t in _FM44] + ["M44_fastMinor_%s_model" % t for t in _FM44]
    + ["M33_cofactor_%s%d" % (k, i) for k in ("row", "col") for i in range(3)]
    + ["M44_cofactor_%s%d" % (k, i) for k in ("row", "col") for i in range(4)])

# ---------------------------------------------------------------------------------------------------------------
# residue rows that must be present: function -> element-type combinations
_SAME = ["float", "double"]
_MIXED = _SAME + ["float*double", "double*float"]
_WIDE = ["float*double:vs-widened", "double*float:vs-widened"]          # mixed instantiation = wide same-type one rounded once
RESIDUE_ROWS = {}
for _v in ("V2", "V3", "V4"):
    for _f in ("dot", "dotOp", "length2"):
        RESIDUE_ROWS["%s.%s" % (_v, _f)] = _SAME
for _f in ("V2.cross", "V2.crossOp", "V3.cross", "V3.crossOp", "V3.crossAssign", "V3.crossAssignSelf",
           "Quat.mul.r", "Quat.mul.v", "Quat.mulAssign", "Quat.mulAssignSelf", "Quat.euclideanInnerProduct",
           "M33.outerProduct", "M44.outerProduct", "M33.fastMinor", "M44.fastMinor",
           "M44.multiplyStatic", "M44.multiplyStatic3", "M44.multiplyStatic3Alias"):
    RESIDUE_ROWS[_f] = _SAME
for _r in range(3):
    for _c in range(3):
        RESIDUE_ROWS["M33.minorOf_%d_%d" % (_r, _c)] = _SAME          # one row per (r, c): a generator that stops visiting one is noticed
for _r in range(4):
    for _c in range(4):
        RESIDUE_ROWS["M44.minorOf_%d_%d" % (_r, _c)] = _SAME
for _m in ("M22", "M33", "M44"):
    for _f in ("mul", "mulAssign", "mulAssignSelf", "transpose", "transposed", "trace", "determinant"):
        RESIDUE_ROWS["%s.%s" % (_m, _f)] = _SAME
for _f in ("V2.mulM22", "V3.mulM33", "V4.mulM44", "V2.mulM33", "V3.mulM44", "M22.multDirMatrix", "M33.multDirMatrix", "M44.multDirMatrix"):
    RESIDUE_ROWS[_f] = _MIXED + _WIDE
# w == 0 in the homogeneous divide: IEEE quotient on the lattice, non-finite elsewhere (the spellings are compared bitwise in their own rows)
_WZERO = [t + ":w-zero" for t in _MIXED]
RESIDUE_ROWS["V2.mulM33"] = RESIDUE_ROWS["V2.mulM33"] + _WZERO
RESIDUE_ROWS["V3.mulM44"] = RESIDUE_ROWS["V3.mulM44"] + _WZERO
for _f in ("V2.mulAssignM22", "V3.mulAssignM33", "V4.mulAssignM44", "V2.mulAssignM33", "V3.mulAssignM44", "M33.multVecMatrix", "M44.multVecMatrix"):
    RESIDUE_ROWS[_f] = _MIXED


CALIB_FILE = os.path.join(lib.VERIF, "tools", "pins", "residue_c05.json")
# Drift against the calibration (clean tree, seeds 1-5 at the thorough number of rounds).  The MEAN of err/bound of a row is stable to ~2 % from
# seed to seed and does not depend on the number of rounds: it is the sensitive statistic (an extra rounding in M44.determinant moves it by
# +40 %).  The MAXIMUM is heavy-tailed (quick-size maxima vary by 30 % between seeds), so it is only compared with the largest value ever
# seen in the calibration runs.
DRIFT = 1.25            # a bound row's maximum may exceed the calibrated maximum by this factor at most
MEAN_DRIFT = 1.10       # its mean may exceed the calibrated mean by this factor (+0.002) at most
CALIB_SEEDS, QUICK_N, CALIB_N = (1, 2, 3, 4, 5), 25000, 250000
TV_DET_LEAVES = 16      # translator validation itself must reach every zero-skipping leaf of Matrix44::determinant


def residue_family_of(entry):
    """the residue row(s) that run the real code of extraction entry `entry`"""
    if entry == "Quat.mul":
        return ["Quat.mul.r", "Quat.mul.v"]
    m = re.match(r"(M33|M44)\.(fastMinor)_", entry)
    if m:
        return ["%s.%s" % (m.group(1), m.group(2))]
    if entry.startswith("M44.multiplyStatic3Alias"):
        return ["M44.multiplyStatic3Alias"]
    return [entry]


def parse_residue(out):
    m = re.search(r"RESIDUE evals=(?P<evals>\d+) lattice_exact=(?P<lattice>\d+) failures=(?P<failures>\d+) worst_frac=(?P<worst>\S+) "
                  r"worst_frac_extreme=(?P<worstx>\S+) w_zero_cases=(?P<wzero>\d+) w_zero_lattice_checked=(?P<wzlat>\d+) "
                  r"w_illconditioned_skipped=(?P<wcond>\d+) extreme_calls_underflow=(?P<xlo>\d+) extreme_calls_overflow=(?P<xhi>\d+) "
                  r"fastminor33_tuples=(?P<fm33>\d+) fastminor44_tuples=(?P<fm44>\d+) affine_hits=(?P<af>\d+),(?P<ad>\d+) "
                  r"det44_zero_pattern_hits_float=(?P<hf>\S+) det44_zero_pattern_hits_double=(?P<hd>\S+)", out)
    fams = {}
    for fm in re.finditer(r"FAMILY (\S+) kind=(\S+) c=(\S+) evals=(\d+) lattice=(\d+) extreme=(\d+) skipped=(\d+) fails=(\d+) "
                          r"worst_frac=(\S+) worst_frac_extreme=(\S+) mean_frac=(\S+) mean_frac_extreme=(\S+)", out):
        fams[fm.group(1)] = dict(kind=fm.group(2), c=float(fm.group(3)), evals=int(fm.group(4)), lattice=int(fm.group(5)), extreme=int(fm.group(6)),
                                 skipped=int(fm.group(7)), fails=int(fm.group(8)), worst_frac=float(fm.group(9)), worst_frac_extreme=float(fm.group(10)),
                                 mean_frac=float(fm.group(11)), mean_frac_extreme=float(fm.group(12)))
    return m, fams


def residue(chk, binary, n, index):
    rc, out = lib.sh([binary, str(chk.seed), str(n)], timeout=1800)
    m, fams = parse_residue(out)
    ran = rc in (0, 1) and m is not None and bool(fams)
    chk.oblige("residue: harness ran", "residue", ran, None if ran else out[-400:])
    if not ran:
        chk.fail("residue", "residue:run", "residue harness failed to run", {"output": out[-2000:]}, False)
        return
    chk.count(int(m.group("evals")), int(m.group("evals")))
    try:
        calib = json.load(open(CALIB_FILE))
    except (OSError, ValueError):
        calib = {}
    # one obligation per function: all its element-type rows present, evaluated in every input class, inside their own bound / exact / bitwise equal
    summary = {}
    for fn, types in sorted(RESIDUE_ROWS.items()):
        rows = {t: fams.get(fn + ":" + t) for t in types}
        missing = [t for t, r in rows.items() if not r or r["evals"] == 0]
        lat_missing = [t for t, r in rows.items() if r and r["lattice"] == 0]
        # the extreme class must reach every row except the w == 0 ones (an exactly cancelling w does not occur there)
        x_missing = [t for t, r in rows.items() if r and r["extreme"] == 0 and not t.endswith(":w-zero")]
        bad = [t for t, r in rows.items() if r and (r["fails"] or (r["kind"] == "bound" and not max(r["worst_frac"], r["worst_frac_extreme"]) <= 1.0))]
        kind = next((r["kind"] for r in rows.values() if r), "?")
        c = next((r["c"] for r in rows.values() if r), 0)
        what = {"bound": "|impl - exact| <= %g*u*sum|terms| + underflow term (+ one narrowing rounding when S is narrower), lattice exact" % c,
                "exact": "equals the exactly computed result", "bitwise": "bitwise equal to the reference spelling / instantiation"}.get(kind, kind)
        ok = not missing and not bad and not lat_missing and not x_missing
        chk.oblige("residue:%s: %s [%s]" % (fn, what, ", ".join(types)), "residue", ok,
                   None if ok else {"rows missing": missing, "rows without lattice cases": lat_missing, "rows without extreme-class cases": x_missing,
                                    "rows failing": bad})
        if missing or lat_missing or x_missing:
            chk.fail("residue:" + fn, "residue:%s:row-missing" % fn,
                     "the residue harness no longer measures %s at %s in every input class" % (fn, missing or lat_missing or x_missing), {"rows": rows}, False)
        # drift: the recorded maximum and mean of a bound row against the calibrated clean-tree values (all in fractions of the row's own bound)
        bound_rows = {t: r for t, r in rows.items() if r and r["kind"] == "bound"}
        if bound_rows:
            drift = {}
            for t, r in bound_rows.items():
                cal = calib.get(fn + ":" + t)
                if not cal or cal.get("c") != r["c"]:
                    drift[t] = "row not calibrated for c=%g (run: python3 tools/props/c05.py calibrate)" % r["c"]
                    continue
                for k in ("worst_frac", "worst_frac_extreme"):
                    if r[k] > cal[k] * DRIFT + 1e-9:
                        drift[t + ":" + k] = {"measured": r[k], "calibrated": cal[k], "allowed": round(cal[k] * DRIFT, 6)}
                for k in ("mean_frac", "mean_frac_extreme"):
                    if r[k] > cal[k] * MEAN_DRIFT + 0.002:
                        drift[t + ":" + k] = {"measured": r[k], "calibrated": cal[k], "allowed": round(cal[k] * MEAN_DRIFT + 0.002, 6)}
            chk.oblige("residue:drift:%s: maxima <= %g x and means <= %g x (+0.002) the calibrated clean-tree values (seeds 1-5) [%s]"
                       % (fn, DRIFT, MEAN_DRIFT, ", ".join(bound_rows)), "residue", not drift, drift or None)
            for t, d in list(drift.items())[:4]:
                chk.fail("residue:drift:" + fn, "residue:drift:%s:%s" % (fn, t), "rounding error of %s at %s moved above its calibrated value: %s" % (fn, t, d),
                         {"row": fn + ":" + t, "detail": d, "replay_cmd": ".build/bin/c05_residue %d %d" % (chk.seed, n)}, False)
        summary[fn] = {t: ({"evals": r["evals"], "kind": r["kind"], "c": r["c"], "worst_fraction_of_own_bound": r["worst_frac"],
                            "worst_fraction_of_own_bound_extreme_class": r["worst_frac_extreme"],
                            "mean_fraction_of_own_bound": r["mean_frac"], "mean_fraction_of_own_bound_extreme_class": r["mean_frac_extreme"],
                            "calibrated": {k: v for k, v in (calib.get(fn + ":" + t) or {}).items() if k != "c"}}
                           if r and r["kind"] == "bound" else ({"evals": r["evals"], "kind": r["kind"]} if r else None)) for t, r in rows.items()}
    extra_rows = sorted(k for k in fams if k.split(":")[0] not in RESIDUE_ROWS)
    chk.oblige("residue: no unexpected rows", "residue", not extra_rows, extra_rows or None)
    # W1 must not re-open: every extracted entry is run on the real code by some row
    unmeasured = [d["name"] for d in index if any(f not in RESIDUE_ROWS for f in residue_family_of(d["name"]))]
    chk.oblige("residue: every extraction entry (%d) has a residue row on the real code" % len(index), "residue", not unmeasured, unmeasured or None)
    if unmeasured:
        chk.fail("residue:coverage", "residue:unmeasured:" + unmeasured[0], "extraction entries without a residue row: %s" % unmeasured, {}, False)
    # reach: zero-skipping branches of Matrix44::determinant, fastMinor index tuples, affine pattern, both extreme bands, w == 0
    hf = [int(x) for x in m.group("hf").strip(",").split(",")]
    hd = [int(x) for x in m.group("hd").strip(",").split(",")]
    floor = max(1, n // (5 * 16 * 2))          # each pattern is forced in n/5/16 rounds
    okp = len(hf) == 16 and len(hd) == 16 and all(x >= floor for x in hf + hd)
    chk.oblige("residue: each of the 16 zero-patterns of Matrix44::determinant's last column hit >= %d times (float and double)" % floor, "reach", okp,
               {"float": hf, "double": hd})
    if not okp:
        chk.fail("residue:reach", "residue:det44-zero-patterns", "a zero-skipping path of Matrix44::determinant was not taken often enough", {"float": hf, "double": hd}, False)
    oka = int(m.group("af")) >= floor and int(m.group("ad")) >= floor
    chk.oblige("residue: affine last column (0,0,0,1) forced >= %d times (counted separately)" % floor, "reach", oka,
               {"float": int(m.group("af")), "double": int(m.group("ad"))})
    okt = (int(m.group("fm33")), int(m.group("fm44"))) == (81, 4096)
    chk.oblige("residue: all 81 Matrix33 / 4096 Matrix44 fastMinor index tuples run (repeated and descending included)", "reach", okt,
               {"M33": int(m.group("fm33")), "M44": int(m.group("fm44"))})
    if not okt:
        chk.fail("residue:reach", "residue:fastMinor-tuples", "not every fastMinor index tuple was run", {"M33": m.group("fm33"), "M44": m.group("fm44")}, False)
    okx = int(m.group("xlo")) >= n // 5 and int(m.group("xhi")) >= n // 5
    chk.oblige("residue: extreme class: both the underflow band and the near-overflow band generated (>= %d calls each)" % (n // 5), "reach", okx,
               {"underflow": int(m.group("xlo")), "near-overflow": int(m.group("xhi"))})
    okw = int(m.group("wzlat")) >= 100
    chk.oblige("residue: w == 0 of the homogeneous divide checked on the lattice (IEEE quotient) >= 100 times", "reach", okw, int(m.group("wzlat")))
    chk.residues["C05"] = {"evaluations": int(m.group("evals")), "lattice_cases_required_exact": int(m.group("lattice")),
                           "oracle": "__float128 (113-bit) evaluation of the textbook sums in C++, NOT proved",
                           "bound": "per row: c*u*sum|terms| + (products that can underflow)*denorm_min/2, c = number of roundings on the longest path of the "
                                    "code as written: n (sums of n products: dot, length2, M*M, Vec x Matrix, multDirMatrix), n-1 (trace), 2 (cross, 2x2 "
                                    "determinant / minors), 5 (3x3 determinant / minors / fastMinor), 9 (Matrix44::determinant), 4 / 3 (Quat real / vector part); "
                                    "homogeneous divides: n*64/63 in units u*(sum|x-terms| + |x/w|*sum|w-terms|)/|w| + u|x/w|; "
                                    "+ u_S*|exact| when the result is narrowed to S (mixed rows: fraction ~1 is the half-ulp of that rounding)",
                           "drift": "each bound row's maximum also <= %g x and its mean <= %g x (+0.002) the calibrated clean-tree value (%s)"
                                    % (DRIFT, MEAN_DRIFT, os.path.relpath(CALIB_FILE, lib.VERIF)),
                           "worst_fraction_of_own_bound_over_all_rows": float(m.group("worst")),
                           "worst_fraction_of_own_bound_over_all_rows_extreme_class": float(m.group("worstx")),
                           "homogeneous divide: calls with w == 0 (spellings compared bitwise; IEEE quotient required on the lattice)": int(m.group("wzero")),
                           "homogeneous divide: cases skipped because w lost its leading digits": int(m.group("wcond")),
                           "Matrix44::determinant zero-column patterns hit (index = bitmask of zero entries in column 3)": {"float": hf, "double": hd},
                           "affine pattern forced": {"float": int(m.group("af")), "double": int(m.group("ad"))},
                           "rows": summary}
    seen = set()
    for l in [l for l in out.split("\n") if l.startswith("RESIDUE-FAIL")]:
        what = l.split()[1]
        if what in seen or len(seen) >= 60:
            continue
        seen.add(what)
        chk.fail("residue:" + what.split(":")[0], "residue:" + what, "rounding residue / lattice exactness / spelling identity violated: " + l[:400],
                 {"line": l, "replay_cmd": ".build/bin/c05_residue %d %d" % (chk.seed, n)}, True)


def pool_minors(cal):
    """the 9 / 16 minorOf (r, c) rows of one matrix type run the same body on 1/9, 1/16 of the inputs: calibrate their MAXIMA with the common maximum"""
    for pre in ("M33.minorOf_", "M44.minorOf_"):
        for ty in _SAME:
            ks = [k for k in cal if k.startswith(pre) and k.endswith(":" + ty)]
            for f in ("worst_frac", "worst_frac_extreme"):
                mx = max(cal[k][f] for k in ks)
                for k in ks:
                    cal[k][f] = mx


def calibrate():
    """by hand, on a clean tree: per bound row the maximum and the mean of err / bound over CALIB_SEEDS at the thorough number of rounds
    ->  tools/pins/residue_c05.json"""
    from concurrent.futures import ThreadPoolExecutor
    ok, binary, o = lib.cxx_build("c05_residue", ["corr/c05_residue.cpp"])
    assert ok, o
    jobs = [(sd, CALIB_N) for sd in CALIB_SEEDS]
    with ThreadPoolExecutor(len(jobs)) as ex:
        outs = list(ex.map(lambda j: lib.sh([binary, str(j[0]), str(j[1])], timeout=7200), jobs))
    cal = {}
    for (sd, nn), (rc, out) in zip(jobs, outs):
        m, fams = parse_residue(out)
        assert rc == 0 and m, out[-1000:]
        for k, r in fams.items():
            if r["kind"] != "bound":
                continue
            c = cal.setdefault(k, {"c": r["c"], "worst_frac": 0.0, "worst_frac_extreme": 0.0, "mean_frac": [], "mean_frac_extreme": []})
            for f in ("worst_frac", "worst_frac_extreme"):
                c[f] = max(c[f], r[f])
            c["mean_frac"].append(r["mean_frac"])
            c["mean_frac_extreme"].append(r["mean_frac_extreme"])
    for c in cal.values():
        for f in ("mean_frac", "mean_frac_extreme"):
            c[f] = round(sum(c[f]) / len(c[f]), 6)
    pool_minors(cal)
    json.dump(cal, open(CALIB_FILE, "w"), indent=0, sort_keys=True)
    print("calibrated", len(cal), "bound rows ->", CALIB_FILE)


def entry_theorems(chk, index):
    """S2: every extraction entry has its own theorem (entry name with '.' -> '_') whose STATEMENT mentions Gen.<entry>."""
    path = os.path.join(lib.LEAN, *MODULE.split(".")) + ".lean"
    lines = lib.strip_lean_comments(open(path).read()).split("\n")
    stmts = {}
    for (n, s, e) in lib.theorems_in(path):
        txt = "\n".join(lines[s - 1:e])
        stmts[n] = re.split(r":=\s*(?:by\b|rfl\b)", txt)[0]          # the statement may itself contain `let h := …`
    missing = []
    for d in index:
        tn = d["name"].replace(".", "_")
        if tn not in stmts or not re.search(r"Gen\." + re.escape(d["name"]) + r"(?![A-Za-z0-9_])", stmts[tn]):
            missing.append(d["name"])
    chk.oblige("theorems: every extraction entry (%d) has its own theorem stating it" % len(index), "theorem", not missing, missing or None)
    for n in missing[:10]:
        chk.fail("theorem:" + n.replace(".", "_"), "missing:" + n.replace(".", "_"),
                 "extraction entry %s has no theorem %s mentioning Gen.%s in its statement" % (n, n.replace(".", "_"), n), {}, False)
    notreq = [n for n in stmts if n not in REQUIRED]
    chk.oblige("theorems: REQUIRED lists every theorem of the file", "theorem", not notreq, notreq or None)


def run(chk):
    chk.trusted = ["Lean 4.33 kernel; axioms propext/Classical.choice/Quot.sound at most",
                   "Mathlib's Matrix.mul/det/transpose/trace/vecMul/submatrix, crossProduct, Quaternion multiplication",
                   "translator harness/sym, validated each run by TV (bitwise at float and double, S = T instantiations only)",
                   "__float128 evaluation as the oracle of the measured rounding residue; g++ -O1 -ffp-contract=off and the CPU"]
    chk.assumptions = ["rounding: NOT proved; measured for every extracted function against a 113-bit evaluation with a per-row bound "
                       "c*u*sum|products| + underflow term, c = roundings on the longest path of the code as written (partial)",
                       "drift obligations compare each row's maximum with a calibration taken by hand on a clean tree (tools/pins/residue_c05.json)",
                       "the two-type templates Vec<S> x Matrix<T> are extracted at S = T only; S != T (float x double, double x float) is covered "
                       "by measurement: bound rows + bitwise equality with the S = T instantiation at the wider type rounded once per component",
                       "homogeneous divide with w == 0: only IEEE behaviour is required (lattice: the exact +-inf / NaN; elsewhere non-finite) and the "
                       "three spellings must agree bitwise; cases where w lost its leading digits are skipped (counted)",
                       "cofactor-expansion theorems are Gen-to-Gen identities (tied to Mathlib through minorOf_r_c and determinant)"]
    chk.rule = ("theorems: all operands over any commutative ring/field. residue: integer lattice [-3,3] (exact equality; correctly rounded quotient "
                "for the dividing forms, IEEE quotient when w == 0), well-scaled (half of the 4x4 determinant inputs forced affine), sparse (every one "
                "of the 16 zero patterns of Matrix44's last column forced in turn; w == 0 forced in 1/8 of the Vec x Matrix calls), graded magnitudes "
                "2^-10..2^10, extreme (one band per call: top-degree products around the subnormal boundary, or within 2^-2deg..2^-6deg of overflow); "
                "float, double and both mixed pairs; all 81/4096 fastMinor index tuples cycled; every (r,c) of minorOf has its own row; TV reaches "
                "16/16 leaves of M44.determinant")
    bins = troute.build_extractors(chk, [dict(name="sym_c05", source="sym/sym_c05.cpp"),
                                         dict(name="c05_residue", source="corr/c05_residue.cpp")])
    index = []
    if bins.get("sym_c05"):
        index, changed = troute.regenerate(chk, bins["sym_c05"], "c05")
        troute.tv(chk, bins["sym_c05"], "c05", 400 if chk.thorough else 64)
        ph = getattr(chk, "tv_paths", {}).get("c05", {}).get("M44.determinant")
        okl = bool(ph) and ph[0] == ph[1] == TV_DET_LEAVES
        chk.oblige("tv:c05: M44.determinant reaches %d/%d leaves (small-integer lattice inputs with zeros, Opts::lattice)" % (TV_DET_LEAVES, TV_DET_LEAVES),
                   "translation-validation", okl, ph)
        if not okl:
            chk.fail("tv:c05", "tv-coverage:M44.determinant", "translator validation does not reach every zero-skipping leaf of Matrix44::determinant",
                     {"leaves_hit_total": ph}, False)
        troute.lean_tv(chk, bins["sym_c05"], "c05", index, n=8 if chk.thorough else 3)

        def search(name):
            return troute.lean_search(chk, MODULE, name, IMPORTS, ["ImathVerif", "Matrix"], binary=bins["sym_c05"])
        chk.check_theorems(MODULE, required=REQUIRED, search=search)
        entry_theorems(chk, index)
        for d in index[:5]:
            chk.sample({"entry": d["name"], "paths": d.get("paths")})
    if bins.get("c05_residue"):
        residue(chk, bins["c05_residue"], CALIB_N if chk.thorough else QUICK_N, index)
    if chk.thorough:
        chk.leanchecker(MODULE)


if __name__ == "__main__" and sys.argv[1:] == ["calibrate"]:
    calibrate()
