"""C05 — products, transposes, minors, determinants (T-route + measured rounding residue).

Theorems (Props/C05.lean, all REQUIRED; every extraction entry must have its own theorem whose statement mentions the
entry) over the definitions regenerated from the current headers.  Residue (harness/corr/c05_residue.cpp): EVERY
extracted function is also run on the real code at float and double (the two-type Vec x Matrix templates additionally
at Vec<float> x Matrix<double> and Vec<double> x Matrix<float>) against a __float128 evaluation, one row per
(function, element types) with its own constant and its own recorded maximum."""
import os, re
import lib, troute

IMPORTS = ["ImathVerif.Spec.MatSpec", "ImathVerif.Lemmas.C05", "ImathVerif.Gen.C05"]
MODULE = "ImathVerif.Props.C05"

_MINORS33 = ["M33_minorOf_%d_%d" % (r, c) for r in range(3) for c in range(3)]
_MINORS44 = ["M44_minorOf_%d_%d" % (r, c) for r in range(4) for c in range(4)]
_FM33 = ["01_12", "12_02", "21_20", "00_11", "20_02"]
_FM44 = ["123_012", "013_123", "321_210", "002_133", "023_012", "013_012", "012_012"]
REQUIRED = (
    ["V2_dot", "V3_dot", "V4_dot", "V2_dotOp", "V3_dotOp", "V4_dotOp", "V2_length2", "V3_length2", "V4_length2",
     "V2_cross", "V2_crossOp", "V2_cross_det", "V3_cross", "V3_crossOp", "V3_crossAssign", "V3_cross_mathlib",
     "V3_cross_crossProduct", "V3_crossOp_crossProduct", "V3_crossAssign_crossProduct",
     "Quat_mul", "Quat_mulAssign", "Quat_mul_hamilton", "Quat_mulAssign_hamilton", "Quat_euclideanInnerProduct",
     "M22_mul", "M33_mul", "M44_mul", "M22_mulAssign", "M33_mulAssign", "M44_mulAssign", "M44_multiplyStatic", "M44_multiplyStatic3",
     "Quat_mulAssignSelf", "M22_mulAssignSelf", "M33_mulAssignSelf", "M44_mulAssignSelf", "V3_crossAssignSelf",
     "M44_multiplyStatic3AliasA", "M44_multiplyStatic3AliasB",
     "M22_transposed", "M33_transposed", "M44_transposed", "M22_transpose", "M33_transpose", "M44_transpose",
     "M22_trace", "M33_trace", "M44_trace", "M22_determinant", "M33_determinant", "M44_determinant",
     "M22_det_mul", "M33_det_mul", "M44_det_mul", "M22_det_transpose", "M33_det_transpose", "M44_det_transpose",
     "V2_mulM22", "V3_mulM33", "V4_mulM44", "V3_mulM44", "V2_mulM33", "M44_multDirMatrix", "M33_multDirMatrix", "M22_multDirMatrix",
     "M44_multVecMatrix", "M33_multVecMatrix", "V2_mulAssignM22", "V2_mulAssignM33", "V3_mulAssignM33", "V3_mulAssignM44", "V4_mulAssignM44",
     "M33_outerProduct", "M44_outerProduct", "fastMinor2_eq_det", "fastMinor3_eq_det", "M44_determinant_via_fastMinor"]
    + _MINORS33 + _MINORS44
    + ["M33_fastMinor_" + t for t in _FM33] + ["M33_fastMinor_%s_model" % t for t in _FM33]
    + ["M44_fastMinor_" + t for t in _FM44] + ["M44_fastMinor_%s_model" % t for t in _FM44]
    + ["M33_cofactor_%s%d" % (k, i) for k in ("row", "col") for i in range(3)]
    + ["M44_cofactor_%s%d" % (k, i) for k in ("row", "col") for i in range(4)])

# ---------------------------------------------------------------------------------------------------------------
# residue rows that must be present: function -> element-type combinations
_SAME = ["float", "double"]
_MIXED = _SAME + ["float*double", "double*float"]
_WIDE = ["float*double:vs-widened", "double*float:vs-widened"]          # mixed instantiation = wide same-type one rounded once
RESIDUE_ROWS = {}
for _v in ("V2", "V3", "V4"):
    for _f in ("dot", "dotOp", "length2"):
        RESIDUE_ROWS["%s.%s" % (_v, _f)] = _SAME
for _f in ("V2.cross", "V2.crossOp", "V3.cross", "V3.crossOp", "V3.crossAssign", "V3.crossAssignSelf",
           "Quat.mul.r", "Quat.mul.v", "Quat.mulAssign", "Quat.mulAssignSelf", "Quat.euclideanInnerProduct",
           "M33.outerProduct", "M44.outerProduct", "M33.minorOf", "M44.minorOf", "M33.fastMinor", "M44.fastMinor",
           "M44.multiplyStatic", "M44.multiplyStatic3", "M44.multiplyStatic3Alias"):
    RESIDUE_ROWS[_f] = _SAME
for _m in ("M22", "M33", "M44"):
    for _f in ("mul", "mulAssign", "mulAssignSelf", "transpose", "transposed", "trace", "determinant"):
        RESIDUE_ROWS["%s.%s" % (_m, _f)] = _SAME
for _f in ("V2.mulM22", "V3.mulM33", "V4.mulM44", "V2.mulM33", "V3.mulM44", "M22.multDirMatrix", "M33.multDirMatrix", "M44.multDirMatrix"):
    RESIDUE_ROWS[_f] = _MIXED + _WIDE
for _f in ("V2.mulAssignM22", "V3.mulAssignM33", "V4.mulAssignM44", "V2.mulAssignM33", "V3.mulAssignM44", "M33.multVecMatrix", "M44.multVecMatrix"):
    RESIDUE_ROWS[_f] = _MIXED


def residue_family_of(entry):
    """the residue row(s) that run the real code of extraction entry `entry`"""
    if entry == "Quat.mul":
        return ["Quat.mul.r", "Quat.mul.v"]
    m = re.match(r"(M33|M44)\.(minorOf|fastMinor)_", entry)
    if m:
        return ["%s.%s" % (m.group(1), m.group(2))]
    if entry.startswith("M44.multiplyStatic3Alias"):
        return ["M44.multiplyStatic3Alias"]
    return [entry]


def residue(chk, binary, n, index):
    rc, out = lib.sh([binary, str(chk.seed), str(n)], timeout=1800)
    m = re.search(r"RESIDUE evals=(\d+) lattice_exact=(\d+) failures=(\d+) worst_frac=([\d.]+) w_zero_skipped=(\d+) "
                  r"w_illconditioned_skipped=(\d+) fastminor33_tuples=(\d+) fastminor44_tuples=(\d+) affine_hits=(\d+),(\d+) "
                  r"det44_zero_pattern_hits_float=(\S+) det44_zero_pattern_hits_double=(\S+)", out)
    fams = {}
    for fm in re.finditer(r"FAMILY (\S+) kind=(\S+) c=(\S+) evals=(\d+) lattice=(\d+) skipped=(\d+) fails=(\d+) worst_frac=(\S+)", out):
        fams[fm.group(1)] = dict(kind=fm.group(2), c=float(fm.group(3)), evals=int(fm.group(4)), lattice=int(fm.group(5)),
                                 skipped=int(fm.group(6)), fails=int(fm.group(7)), worst_frac=float(fm.group(8)))
    ran = rc in (0, 1) and m is not None and bool(fams)
    chk.oblige("residue: harness ran", "residue", ran, None if ran else out[-400:])
    if not ran:
        chk.fail("residue", "residue:run", "residue harness failed to run", {"output": out[-2000:]}, False)
        return
    chk.count(int(m.group(1)), int(m.group(1)))
    # one obligation per function: all its element-type rows present, evaluated, inside their own bound / exact / bitwise equal
    summary = {}
    for fn, types in sorted(RESIDUE_ROWS.items()):
        rows = {t: fams.get(fn + ":" + t) for t in types}
        missing = [t for t, r in rows.items() if not r or r["evals"] == 0]
        lat_missing = [t for t, r in rows.items() if r and r["lattice"] == 0]
        bad = [t for t, r in rows.items() if r and (r["fails"] or (r["kind"] == "bound" and not r["worst_frac"] <= 1.0))]
        kind = next((r["kind"] for r in rows.values() if r), "?")
        c = next((r["c"] for r in rows.values() if r), 0)
        what = {"bound": "|impl - exact| <= %g*u*sum|terms| (+ one narrowing rounding when S is narrower), lattice exact" % c,
                "exact": "equals the exactly computed result", "bitwise": "bitwise equal to the reference spelling / instantiation"}.get(kind, kind)
        ok = not missing and not bad and not lat_missing
        chk.oblige("residue:%s: %s [%s]" % (fn, what, ", ".join(types)), "residue", ok,
                   None if ok else {"rows missing": missing, "rows without lattice cases": lat_missing, "rows failing": bad})
        if missing or lat_missing:
            chk.fail("residue:" + fn, "residue:%s:row-missing" % fn, "the residue harness no longer measures %s at %s" % (fn, missing or lat_missing),
                     {"rows": rows}, False)
        summary[fn] = {t: ({"evals": r["evals"], "kind": r["kind"], "c": r["c"], "worst_fraction_of_own_bound": r["worst_frac"],
                            "worst_in_units_of_u_sum_abs_terms(same-type rows)": round(r["worst_frac"] * r["c"], 3)}
                           if r and r["kind"] == "bound" else ({"evals": r["evals"], "kind": r["kind"]} if r else None)) for t, r in rows.items()}
    extra_rows = sorted(k for k in fams if k.split(":")[0] not in RESIDUE_ROWS)
    chk.oblige("residue: no unexpected rows", "residue", not extra_rows, extra_rows or None)
    # W1 must not re-open: every extracted entry is run on the real code by some row
    unmeasured = [d["name"] for d in index if any(f not in RESIDUE_ROWS for f in residue_family_of(d["name"]))]
    chk.oblige("residue: every extraction entry (%d) has a residue row on the real code" % len(index), "residue", not unmeasured, unmeasured or None)
    if unmeasured:
        chk.fail("residue:coverage", "residue:unmeasured:" + unmeasured[0], "extraction entries without a residue row: %s" % unmeasured, {}, False)
    # reach: zero-skipping branches of Matrix44::determinant, fastMinor index tuples, affine pattern
    hf = [int(x) for x in m.group(11).strip(",").split(",")]
    hd = [int(x) for x in m.group(12).strip(",").split(",")]
    okp = len(hf) == 16 and len(hd) == 16 and all(x > 0 for x in hf + hd)
    chk.oblige("residue: all 16 zero-patterns of Matrix44::determinant's last column hit (float and double)", "reach", okp,
               {"float": hf, "double": hd})
    if not okp:
        chk.fail("residue:reach", "residue:det44-zero-patterns", "a zero-skipping path of Matrix44::determinant was never taken", {"float": hf, "double": hd}, False)
    oka = int(m.group(9)) > 0 and int(m.group(10)) > 0
    chk.oblige("residue: affine last column (0,0,0,1) forced (counted separately)", "reach", oka, {"float": int(m.group(9)), "double": int(m.group(10))})
    okt = (int(m.group(7)), int(m.group(8))) == (81, 4096)
    chk.oblige("residue: all 81 Matrix33 / 4096 Matrix44 fastMinor index tuples run (repeated and descending included)", "reach", okt,
               {"M33": int(m.group(7)), "M44": int(m.group(8))})
    if not okt:
        chk.fail("residue:reach", "residue:fastMinor-tuples", "not every fastMinor index tuple was run", {"M33": m.group(7), "M44": m.group(8)}, False)
    chk.residues["C05"] = {"evaluations": int(m.group(1)), "lattice_cases_required_exact": int(m.group(2)),
                           "oracle": "__float128 (113-bit) evaluation of the textbook sums in C++, NOT proved",
                           "bound": "per row: c*u*sum|terms| with c = terms+2 (sums), 4 (2x2 minors, cross), 3N+2 (NxN determinants, 3x3 minors), "
                                    "(terms+2)*4/3 in units u*(sum|x-terms| + |x/w|*sum|w-terms|)/|w| + u|x/w| for the homogeneous divides; "
                                    "+ u_S*|exact| when the result is narrowed to S (mixed rows: fraction ~1 is the half-ulp of that rounding)",
                           "worst_fraction_of_own_bound_over_all_rows": float(m.group(4)),
                           "homogeneous divide: cases skipped because w == 0 (outside the clause)": int(m.group(5)),
                           "homogeneous divide: cases skipped because w lost its leading digits": int(m.group(6)),
                           "Matrix44::determinant zero-column patterns hit (index = bitmask of zero entries in column 3)": {"float": hf, "double": hd},
                           "affine pattern forced": {"float": int(m.group(9)), "double": int(m.group(10))},
                           "rows": summary}
    seen = set()
    for l in [l for l in out.split("\n") if l.startswith("RESIDUE-FAIL")]:
        what = l.split()[1]
        if what in seen or len(seen) >= 60:
            continue
        seen.add(what)
        chk.fail("residue:" + what.split(":")[0], "residue:" + what, "rounding residue / lattice exactness / spelling identity violated: " + l[:400],
                 {"line": l, "replay_cmd": ".build/bin/c05_residue %d %d" % (chk.seed, n)}, True)


def entry_theorems(chk, index):
    """S2: every extraction entry has its own theorem (entry name with '.' -> '_') whose STATEMENT mentions Gen.<entry>."""
    path = os.path.join(lib.LEAN, *MODULE.split(".")) + ".lean"
    lines = lib.strip_lean_comments(open(path).read()).split("\n")
    stmts = {}
    for (n, s, e) in lib.theorems_in(path):
        txt = "\n".join(lines[s - 1:e])
        stmts[n] = re.split(r":=\s*(?:by\b|rfl\b)", txt)[0]          # the statement may itself contain `let h := …`
    missing = []
    for d in index:
        tn = d["name"].replace(".", "_")
        if tn not in stmts or not re.search(r"Gen\." + re.escape(d["name"]) + r"(?![A-Za-z0-9_])", stmts[tn]):
            missing.append(d["name"])
    chk.oblige("theorems: every extraction entry (%d) has its own theorem stating it" % len(index), "theorem", not missing, missing or None)
    for n in missing[:10]:
        chk.fail("theorem:" + n.replace(".", "_"), "missing:" + n.replace(".", "_"),
                 "extraction entry %s has no theorem %s mentioning Gen.%s in its statement" % (n, n.replace(".", "_"), n), {}, False)
    notreq = [n for n in stmts if n not in REQUIRED]
    chk.oblige("theorems: REQUIRED lists every theorem of the file", "theorem", not notreq, notreq or None)


def run(chk):
    chk.trusted = ["Lean 4.33 kernel; axioms propext/Classical.choice/Quot.sound at most",
                   "Mathlib's Matrix.mul/det/transpose/trace/vecMul/submatrix, crossProduct, Quaternion multiplication",
                   "translator harness/sym, validated each run by TV (bitwise at float and double, S = T instantiations only)",
                   "__float128 evaluation as the oracle of the measured rounding residue; g++ -O1 -ffp-contract=off and the CPU"]
    chk.assumptions = ["rounding: NOT proved; measured for every extracted function against a 113-bit evaluation with a per-row bound "
                       "proportional to u*sum|products| (partial)",
                       "the two-type templates Vec<S> x Matrix<T> are extracted at S = T only; S != T (float x double, double x float) is covered "
                       "by measurement: bound rows + bitwise equality with the S = T instantiation at the wider type rounded once per component",
                       "homogeneous divide: inputs with w == 0 are outside the clause and are skipped (counted)"]
    chk.rule = ("theorems: all operands over any commutative ring/field. residue: integer lattice [-3,3] (exact equality; correctly rounded quotient "
                "for the dividing forms), well-scaled (half of the 4x4 forced affine), sparse (every one of the 16 zero patterns of Matrix44's last "
                "column forced in turn: hit counts are an obligation), graded magnitudes 2^-10..2^10; float, double and both mixed pairs; all 81/4096 "
                "fastMinor index tuples cycled; every (r,c) of minorOf")
    bins = troute.build_extractors(chk, [dict(name="sym_c05", source="sym/sym_c05.cpp"),
                                         dict(name="c05_residue", source="corr/c05_residue.cpp")])
    index = []
    if bins.get("sym_c05"):
        index, changed = troute.regenerate(chk, bins["sym_c05"], "c05")
        troute.tv(chk, bins["sym_c05"], "c05", 400 if chk.thorough else 64)
        troute.lean_tv(chk, bins["sym_c05"], "c05", index, n=8 if chk.thorough else 3)

        def search(name):
            return troute.lean_search(chk, MODULE, name, IMPORTS, ["ImathVerif", "Matrix"], binary=bins["sym_c05"])
        chk.check_theorems(MODULE, required=REQUIRED, search=search)
        entry_theorems(chk, index)
        for d in index[:5]:
            chk.sample({"entry": d["name"], "paths": d.get("paths")})
    if bins.get("c05_residue"):
        residue(chk, bins["c05_residue"], 200000 if chk.thorough else 20000, index)
    if chk.thorough:
        chk.leanchecker(MODULE)
