"""C07 — throwing and non-throwing variants of every operation agree (T-route for both members of every
extractable pair + correspondence of the real code for the others and for the float decisions at the guards)."""
import os, re
import lib, troute

MODULES = ["ImathVerif.Props.C07", "ImathVerif.Props.C07GJ", "ImathVerif.Props.C07Algo", "ImathVerif.Props.C07Link"]
LEAF_IDX = os.path.join(troute.GEN, "index_leaf.txt")

# theorems that must exist (a deleted pair theorem is a broken obligation); the files contain more
REQUIRED = {
    "ImathVerif.Props.C07": [
        "V2_normalizedExc_ok", "V2_normalizedExc_error", "V2_normalized_failure", "V2_normalizeExc_ok", "V2_normalizeExc_error",
        "V3_normalizedExc_ok", "V3_normalizedExc_error", "V3_normalized_failure", "V3_normalizeExc_ok", "V3_normalizeExc_error",
        "V4_normalizedExc_ok", "V4_normalizedExc_error", "V4_normalized_failure", "V4_normalizeExc_ok", "V4_normalizeExc_error",
        "V3_ofV4Exc_ok", "V3_ofV4Exc_error", "V3_ofV4Exc_tight", "V3_ofV4Exc_never",
        "M22_inverseT_ok", "M22_inverseT_error", "M22_inverse_copies", "M22_inverse_failure", "M22_inverseT_tight", "M22_inverseT_never",
        "M33_inverseT_ok", "M33_inverseT_error", "M33_inverse_copies", "M33_inverse_failure", "M33_inverseT_tight", "M33_inverseT_never",
        "M44_inverseT_ok", "M44_inverseT_error", "M44_inverse_copies", "M44_inverse_failure_partial", "M44_inverseT_tight", "M44_inverseT_never",
        "Frustum_aspectExc_ok", "Frustum_aspectExc_error", "Frustum_localToScreenExc_ok", "Frustum_localToScreenExc_error",
        "Frustum_projectPointToScreenExc_ok", "Frustum_projectPointToScreenExc_error", "Frustum_projectionMatrixExc_ok",
        "Frustum_projectionMatrixExc_persp_error", "Frustum_projectionMatrixExc_ortho_error", "Frustum_projectionMatrixExc_never",
        "Frustum_normalizedZToDepthExc_ok", "Frustum_normalizedZToDepthExc_error", "Frustum_ZToDepth_concrete", "Frustum_ZToDepthExc_ok",
        "Frustum_screenRadiusExc_ok", "Frustum_screenRadiusExc_error", "Frustum_worldRadiusExc_ok", "Frustum_worldRadiusExc_error",
        "Frustum_setFovExc_ok", "Frustum_setFovExc_error"],
    "ImathVerif.Props.C07GJ": ["M33_gjInverseT_ok", "M33_gjInverseT_error", "M33_gjInverseF_eq", "M33_gjInvert_eq"],
    "ImathVerif.Props.C07Algo": [
        "Algo_checkForZeroScaleInRow2", "Algo_checkForZeroScaleInRow3", "Algo_checkForZeroScaleInRow3F_false_iff",
        "Algo_extractScaling2_pair", "Algo_extractScalingAndShear2_pair", "Algo_extractAndRemoveScalingAndShear2_pair",
        "Algo_removeScalingAndShear2_pair", "Algo_sansScalingAndShear2_pair", "Algo_extractSHRT2_pair"],
    # C07's Gauss-Jordan parameters instantiated with C06's proved model (Model/GaussJordan.lean, n = 4): the two hypotheses
    # of the M44 pair theorems are lemmas there, and the failure equivalence holds in BOTH directions
    "ImathVerif.Props.C07Link": [
        "gj_hok", "gj_herr", "gjF_eq", "gjTs_eq_zero_iff", "gj_eq_one_iff", "M44_inverseT_ok", "M44_inverseT_error", "M44_inverse_copies",
        "M44_inverseT_error_iff", "M44_inverseT_ok_one", "M44_inverse_failure", "M44_inverse_failure_copies", "M44_inverseT_never"],
}

# the one class of input on which the real code is known (by this harness) to break the property; it is reported,
# never hidden: see run_pairs
OVERFLOW_CLASS = "finite,length"


def run_pairs(chk, binary, n):
    """Run the pair harness on the real code.  Returns {pair: [fail dicts]}."""
    rc, out = lib.sh([binary, str(chk.seed), str(n)], timeout=3000)
    m = re.search(r"C07PAIRS pairs=(\d+) evals=(\d+) failures=(\d+)", out)
    fails = {}
    for l in out.split("\n"):
        mm = re.match(r"PAIRFAIL (.*?) \| (\S+) \| (.*?) \| (\S+) :: (.*?) :: in=(.*)", l)
        if mm:
            pair, code, cls, ty, what, inp = mm.groups()
            fails.setdefault(pair, []).append({"pair": pair, "code": code, "input_class": cls, "element_type": ty, "what": what,
                                               "input_bits(value)": inp.split()})
    pairs = {}
    for l in out.split("\n"):
        mm = re.match(r"PAIR (\S+) evals=(\d+) returned=(\d+) threw=(\d+) fails=(\d+)(.*)", l)
        if mm:
            d = {"evals": int(mm.group(2)), "returned": int(mm.group(3)), "threw": int(mm.group(4)), "fails": int(mm.group(5))}
            cls = dict((k, int(v)) for k, v in re.findall(r"\[(.*?)\]=(\d+)", mm.group(6)))
            if cls:
                d["by input class and outcome"] = cls
            pairs[mm.group(1)] = d
    return rc, out, m, fails, pairs


def pair_candidates(theorem):
    """pair-name fragments of the harness that exercise the pair a theorem is about"""
    t = theorem
    m = re.match(r"(V[234])_(normalized|normalize|inplace|length)", t)
    if m:
        return [m.group(1) + (".normalized" if m.group(2) == "normalized" else ".normaliz")]
    if t.startswith("V3_ofV4"):
        return ["V3.ofV4"]
    m = re.match(r"(M22|M33|M44)_(inverse|invert)", t)
    if m:
        return [m.group(1) + ".inverse", m.group(1) + ".invert"]
    if t.startswith("M33_gj"):
        return ["M33.gjInver"]
    if t.startswith("gj"):   # Props/C07Link.lean: lemmas about the instantiated 4x4 Gauss-Jordan pair
        return ["M44.gjInver"]
    m = re.match(r"Frustum_([A-Za-z]+?)(Exc)?(_|$)", t)
    if m:
        f = m.group(1)
        f = {"setFov": "setExc", "radius": "Radius", "ZToDepth": "ZToDepth", "projectPointToScreen": "projectPointToScreen"}.get(f, f)
        return ["Frustum." + f]
    m = re.match(r"Algo_([A-Za-z]+?)([23])?(F)?(_|$)", t)
    if m:
        return ["Algo." + m.group(1)]
    return []


def run(chk):
    chk.trusted = ["Lean 4.33 kernel; axioms propext/Classical.choice/Quot.sound at most",
                   "translator harness/sym (T = Sym path extraction), validated each run: C++ tree vs real instantiation bitwise at float/double, "
                   "emitted Lean text vs tree at exact rationals",
                   "the opaque stand-in for Matrix44::gjInverse (parameter functions; validated against the real members by TV)",
                   "g++ 12 -O1 -ffp-contract=off for the correspondence harness"]
    chk.assumptions = ["Matrix44 Gauss-Jordan pair, 3-D decomposition functions, 2-D removeScaling/sansScaling, DepthToZ and ZToDepth with "
                       "non-literal integers: decided by CORRESPONDENCE of the real members on structured inputs, not by theorem",
                       "float decisions at the guards (rounding of max*|d|): probed one ulp either side, not proved",
                       "Props/C07Link: the M44 pair theorems with the Gauss-Jordan parameters instantiated by the C06 hand model "
                       "(Model/GaussJordan.lean, proved correct in Props/C06); that model is tied to the real gjInverse members by the C06 "
                       "check's harness (c06_inv), which is not re-run here"]
    chk.rule = ("theorems: all inputs over an ordered field, tmin/tmax/sqrt/tan/atan2 parameters. correspondence (float and double, real "
                "code, both members of 67 pairs): zero/denormal/tiny/huge/non-finite vectors; w in {0, denormal, <1, >=1}; numerator one ulp "
                "below/at/above max*|d| for power-of-two d; |det| around 1 and around min*|cofactor|; singular, near-singular, unimodular, "
                "dyadic, zero-pivot matrices, affine and general; frusta with right-left/top-bottom/far-near from 0 through denormal, <1, "
                "around 1 to large; p.z and depth near 0; S*H*R*T matrices with zero/tiny/huge scales, parallel rows")
    bins = troute.build_extractors(chk, [dict(name="sym_leaf", source="sym/sym_leaf.cpp"),
                                         dict(name="sym_c07", source="sym/sym_c07.cpp"),
                                         dict(name="c07_pairs", source="corr/c07_pairs.cpp")])
    cache = {}

    def pairs_once():
        if "r" not in cache and bins.get("c07_pairs"):
            cache["r"] = run_pairs(chk, bins["c07_pairs"], 6000 if chk.thorough else 1500)
        return cache.get("r")

    if bins.get("sym_leaf") and bins.get("sym_c07"):
        troute.regenerate(chk, bins["sym_leaf"], "leaf")
        index, changed = troute.regenerate(chk, bins["sym_c07"], "c07", idx_deps=[LEAF_IDX])
        troute.tv(chk, bins["sym_c07"], "c07", 300 if chk.thorough else 48, idx_deps=[LEAF_IDX])
        if hasattr(troute, "lean_tv"):
            troute.lean_tv(chk, bins["sym_c07"], "c07", index, n=6 if chk.thorough else 3, idx_deps=[LEAF_IDX])

        def search(name):
            """a pair theorem stopped elaborating: look for a concrete input on which the REAL members of that pair disagree"""
            r = pairs_once()
            if not r:
                return None
            _, _, _, fails, _ = r
            pref = "(true)" if re.search(r"T_|Exc", name) else "(false)"
            for frag in pair_candidates(name):
                for pair, fl in sorted(fails.items(), key=lambda kv: (pref not in kv[0], kv[0])):
                    if frag.lower() in pair.lower():
                        for f in fl:
                            if f["input_class"].startswith(OVERFLOW_CLASS) and f["code"] == "failure-without-throw":
                                continue
                            return dict(f, key="theorem:" + name, found_by="harness/corr/c07_pairs.cpp on the real members of the pair")
            return None

        # build the three theorem files in one (parallel) lake invocation, then audit each on its own so that a failure
        # in one file is attributed to that file's theorems only
        lib.lake_build(MODULES)
        for mod in MODULES:
            chk.check_theorems(mod, required=REQUIRED[mod], search=search)
        for d in [d for d in index if d["name"].endswith("T") or "Exc" in d["name"]][:6]:
            chk.sample({"entry": d["name"], "paths": d.get("paths")})

    r = pairs_once()
    if r:
        rc, out, m, fails, pairs = r
        ran = m is not None and len(pairs) >= 60
        chk.oblige("correspondence: c07_pairs ran over all pairs", "correspondence", ran, None if ran else out[-600:])
        if not ran:
            chk.fail("correspondence", "pairs:run", "pair harness did not run to completion", {"output": out[-2000:]}, False)
        if m:
            chk.count(int(m.group(2)), sum(p["threw"] for p in pairs.values()))
        for pair, d in sorted(pairs.items()):
            ok = d["fails"] == 0
            chk.oblige("pair:%s: returns => bit-identical; throws (documented kind) <=> unchecked form reports failure" % pair,
                       "correspondence", ok, None if ok else fails.get(pair, [])[:3])
        # one violation per (pair, kind of disagreement); the vector classes "finite,..." are semantic (what the input IS) and
        # keep their own key, the generator classes of the other pairs are merged (smallest name carries the key, all are listed)
        for pair, fl in sorted(fails.items()):
            groups = {}
            for f in fl:
                sem = f["input_class"] if f["input_class"].startswith("finite,") else ""
                groups.setdefault((f["code"], sem), []).append(f)
            for (code, sem), group in sorted(groups.items()):
                group.sort(key=lambda f: (f["input_class"], f["element_type"] != "float"))
                f = group[0]
                key = "pairs:%s:%s:%s" % (pair, code, f["input_class"])
                chk.fail("pair:" + pair, key, "real code: %s — %s (input class: %s)" % (pair, f["what"], f["input_class"]),
                         dict(f, all_failing_input_classes=sorted(set(g["input_class"] for g in group))), True)
        chk.extra["pairs"] = pairs
        chk.extra["pairs_decided_by_correspondence_only"] = sorted(
            p for p in pairs if re.search(r"M44\.gj|\(M44|Algo\.(removeScaling|sansScaling)\(M33\)|Frustum\.ZToDepthExc|DepthToZ", p))
        for p in ["V3.ofV4Exc/ofV4", "Frustum.aspectExc/aspect", "M44.gjInverse(true)/gjInverse()", "Algo.extractSHRT(M44,Vec3)"]:
            if p in pairs:
                chk.sample({"pair": p, **{k: v for k, v in pairs[p].items() if k != "by input class and outcome"}})
    if chk.thorough:
        for mod in MODULES:
            chk.leanchecker(mod)
