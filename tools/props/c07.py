"""C07 — throwing and non-throwing variants of every operation agree.

T-route for both members of every extractable pair (94 entries; pair theorems compare the two regenerated trees leaf by leaf; the
3x3 Gauss-Jordan tree is proved equal to C06's hand model in Lemmas/C07GJLink.lean) + correspondence of the real code for the
others and for the float decisions at the guards (harness/corr/c07_pairs.cpp), with obligations on what the generators REACHED
(both outcomes per pair, the three straddle classes, every checkForZeroScaleInRow call site), a token-level source tie and
exhaustive small-integer lattices for the duplicated Gauss-Jordan / inverse bodies, and an independent long-double predicate for
inverse (true) of Matrix22 / Matrix33."""
import os, re
import lib, troute

MODULES = ["ImathVerif.Props.C07", "ImathVerif.Props.C07GJ", "ImathVerif.Props.C07Algo", "ImathVerif.Props.C07Link"]
LEAF_IDX = os.path.join(troute.GEN, "index_leaf.txt")

# theorems that must exist (a deleted theorem is a broken obligation): EVERY theorem of the four property files (audit W10).
# Not here: `gj_hok`, `gj_herr`, `gjF_eq` — true by construction of the instantiation (both members read off the same model
# function), moved to Lemmas/C07LinkInst.lean as helper lemmas (audit W2).
REQUIRED = {
    "ImathVerif.Props.C07": """
        V2_length_zero V2_normalizedExc_ok V2_normalizedExc_error V2_normalized_failure V2_normalizeExc_ok V2_normalizeExc_error
        V2_normalize_failure V2_inplace_eq_value V2_normalizedExc_never
        V3_length_zero V3_normalizedExc_ok V3_normalizedExc_error V3_normalized_failure V3_normalizeExc_ok V3_normalizeExc_error
        V3_normalize_failure V3_inplace_eq_value V3_normalizedExc_never
        V4_length_zero V4_normalizedExc_ok V4_normalizedExc_error V4_normalized_failure V4_normalizeExc_ok V4_normalizeExc_error
        V4_normalize_failure V4_inplace_eq_value V4_normalizedExc_never
        V3_ofV4Exc_ok V3_ofV4Exc_error V3_ofV4Exc_tight V3_ofV4Exc_zero_w V3_ofV4Exc_never
        M22_inverseT_unexc M22_inverseT_ok M22_inverseT_error M22_inverse_copies M22_inverseT_error_iff M22_inverseT_value
        M22_inverse_failure M22_inverseT_tight M22_inverseT_tight_quarter M22_inverseT_never
        M33_inverseT_unexc M33_inverseT_ok M33_inverseT_error M33_inverse_copies M33_inverseT_normal_form M33_inverseT_error_iff
        M33_inverseT_ok_iff M33_inverseT_ok_one M33_inverse_failure M33_inverseT_tight M33_inverseT_tight_quarter M33_inverseT_never
        M44_inverseT_unexc M44_inverseT_ok M44_inverseT_error M44_inverse_copies M44_inverseT_normal_form M44_inverseT_error_iff
        M44_inverse_failure_partial M44_inverseT_tight M44_inverseT_tight_quarter M44_inverseT_never
        Frustum_aspectExc_ok Frustum_aspectExc_error Frustum_aspectExc_tight Frustum_aspectExc_never Frustum_aspectExc_zero_over_zero
        Frustum_localToScreenExc_ok Frustum_localToScreenExc_error Frustum_localToScreenExc_never
        Frustum_projectPointToScreen_persp Frustum_projectPointToScreen_ortho Frustum_projectPointToScreenExc_ok
        Frustum_projectPointToScreenExc_error Frustum_projectionMatrixExc_ok Frustum_projectionMatrixExc_persp_error
        Frustum_projectionMatrixExc_ortho_error Frustum_projectionMatrixExc_never
        Frustum_normalizedZToDepthExc_ok Frustum_normalizedZToDepthExc_error Frustum_ZToDepth_concrete Frustum_ZToDepthExc_ok
        Frustum_ZToDepth_more Frustum_ZToDepthExc_more_ok
        Frustum_screenRadiusExc_ok Frustum_screenRadiusExc_error Frustum_worldRadiusExc_ok Frustum_worldRadiusExc_error
        Frustum_radiusExc_tight Frustum_screenRadiusExc_never Frustum_worldRadiusExc_never
        Frustum_setFovExc_ok Frustum_setFovExc_error Frustum_setFovExcFromOrtho_ok Frustum_setFovFromOrtho_eq Frustum_setFovExcFromOrtho_eq
        M22.det_ne_zero_of_guards M33.det_of_affine M33.det_ne_zero_of_guards M33.det2_ne_zero_of_guards M44_eta""".split(),
    "ImathVerif.Props.C07GJ": ["M33_gjInverseT_unexc", "M33_gjInverseT_kind", "M33_gjInverseT_ok", "M33_gjInverseT_error", "M33_gjInverseF_eq",
                               "M33_gjInvert_eq",
                               # the extracted trees ARE the C06 hand model at n = 3 (Lemmas/C07GJLink.lean, 1,312 leaves): both directions
                               "M33_gjInverseT_eq_model", "M33_gjInverse0_eq_model", "M33_gjInverseT_error_iff", "M33_gjInverseT_ok_mul",
                               "M33_gjInverse_failure", "M33_gjInverse_failure_copies", "M33_gjInverseT_never", "M33_id_toMat", "M33_eq_id_of_toMat"],
    "ImathVerif.Props.C07Algo": """
        Algo_checkForZeroScaleInRow2_pair Algo_checkForZeroScaleInRow3_pair Algo_checkForZeroScaleInRow2 Algo_checkForZeroScaleInRow3
        Algo_checkForZeroScaleInRow2F_false_iff Algo_checkForZeroScaleInRow3F_false_iff Algo_checkForZeroScaleInRow3_never
        Algo_extractScaling2_pair Algo_extractScalingAndShear2_pair Algo_extractAndRemoveScalingAndShear2_pair
        Algo_removeScalingAndShear2_pair Algo_extractSHRT2_pair Algo_sansScalingAndShear2_pair Algo_removeScaling2_pair
        Algo_sansScaling2_pair Algo_removeScaling2_fails_iff_extractSHRT2 Algo_pair_reading M33_eta""".split(),
    # C07's Gauss-Jordan parameters instantiated with C06's proved model (Model/GaussJordan.lean, n = 4): the failure equivalence
    # in BOTH directions through C06's determinant characterisation
    "ImathVerif.Props.C07Link": [
        "gjTs_eq_zero_iff", "gj_eq_one_imp", "gj_eq_one_iff", "M33_adjOverDet_one", "M44_affineInverse_one", "M44_inverseT_ok",
        "M44_inverseT_error", "M44_inverse_copies", "M44_inverseT_ok_iff", "M44_inverseT_error_iff", "M44_inverseT_ok_one",
        "M44_inverse_failure", "M44_inverse_failure_copies", "M44_inverseT_never", "M44_inverse0_nonaffine_mul", "M44_eq_one_of_toMat"],
}

# the one class of input on which the real code is known (by this harness) to break the property; it is reported,
# never hidden: see run_pairs
OVERFLOW_CLASS = "finite,length"


def _m44_fields():
    return ["x%d%d" % (i, j) for i in range(4) for j in range(4)]


def gj_stubs():
    """Fixed rational stubs for the four Gauss-Jordan PARAMETER functions of the M44 inverse / invert entries, for the Lean-side
    validation of the emitted text; the same functions as gj44Stub in harness/sym/sym_c07.cpp (different from one another, not
    symmetric in the slots, so that a wrong parameter or a wrong argument at a call site changes the result)."""
    f = _m44_fields()
    def mat(sel, mul, add, cst):
        es = ["m.%s * ((%d : Rat) / %d) %s + ((%d : Rat) / %d)" % (f[sel(i)], mul(i)[0], mul(i)[1], add(i), cst(i)[0], cst(i)[1]) for i in range(16)]
        return "(fun (m : M44 Rat) => (⟨" + ", ".join(es) + "⟩ : M44 Rat))"
    return {
        "gj44": mat(lambda i: (5 * i + 3) % 16, lambda i: (i + 2, 3), lambda i: "+ m.%s" % f[i], lambda i: (i + 1, 7)),
        "gj44F": mat(lambda i: (3 * i + 1) % 16, lambda i: (i + 1, 5), lambda i: "- m.%s" % f[i], lambda i: (i + 2, 3)),
        "gj44Tvalue": mat(lambda i: (7 * i + 2) % 16, lambda i: (i + 3, 2), lambda i: "+ m.%s" % f[15 - i], lambda i: (i + 1, 11)),
        "gj44Tstatus": "(fun (m : M44 Rat) => if m.x00 + 2 * m.x11 - m.x22 + m.x33 > (1 : Rat) / 2 then (1 : Rat) else 0)",
    }


# ---------------------------------------------------------------------------
# source tie for the duplicated bodies that cannot be extracted (audit S2): token-level comparison of the two textual copies
# after deleting `if (singExc) throw ...;`

def _tokens(src):
    src = re.sub(r"/\*.*?\*/", " ", src, flags=re.S)
    src = re.sub(r"//[^\n]*", " ", src)
    src = re.sub(r'"(?:[^"\\]|\\.)*"', '""', src)
    return re.findall(r"[A-Za-z_][A-Za-z_0-9]*|\d+(?:\.\d+)?|::|->|\+\+|--|[-+*/%<>=!&|^]=|&&|\|\||<<|>>|[^\sA-Za-z_0-9]", src)


def _body(text, signature_regex):
    m = re.search(signature_regex, text)
    if not m:
        return None
    i = text.index("{", m.end())
    depth, j = 0, i
    while True:
        if text[j] == "{":
            depth += 1
        elif text[j] == "}":
            depth -= 1
            if depth == 0:
                return text[i:j + 1]
        j += 1


def _normalise(tokens, renames=None, keep_markers=False):
    t = list(tokens)
    out, i = [], 0
    while i < len(t):
        # if ( singExc ) throw ... ;   ->  the marker <THROW> (its POSITION is checked by _throw_sites, then it is dropped)
        if t[i:i + 5] == ["if", "(", "singExc", ")", "throw"]:
            j = i + 5
            depth = 0
            while not (t[j] == ";" and depth == 0):
                depth += t[j] == "("
                depth -= t[j] == ")"
                j += 1
            i = j + 1
            if keep_markers:
                out.append("<THROW>")
            continue
        out.append(t[i]); i += 1
    t = out
    # ( singExc )  ->  ( )      (the forwarded flag of invert / Matrix44::inverse)
    out, i = [], 0
    while i < len(t):
        if t[i:i + 3] == ["(", "singExc", ")"]:
            out += ["(", ")"]; i += 3
        else:
            out.append(t[i]); i += 1
    t = out
    # m . x [ i ] [ j ]  ->  m [ i ] [ j ]     (member array against operator[]: the copies mix the two spellings)
    out, i = [], 0
    while i < len(t):
        if t[i:i + 3] == [".", "x", "["]:
            out.append("["); i += 3
        else:
            out.append(t[i]); i += 1
    t = out
    # { return X ; }  ->  return X ;     (a block that consists of one return statement)
    changed = True
    while changed:
        changed = False
        for i in range(len(t)):
            if t[i] == "{" and i + 1 < len(t) and t[i + 1] == "return":
                j = i + 1
                while j < len(t) and t[j] not in ("{", "}", ";"):
                    j += 1
                if j + 1 < len(t) and t[j] == ";" and t[j + 1] == "}":
                    t = t[:i] + t[i + 1:j + 1] + t[j + 2:]
                    changed = True
                    break
    if renames:
        t = [renames.get(x, x) for x in t]
    return t


SIG = {
    "M33.gjInverse(bool)": r"Matrix33<T>::gjInverse \(bool singExc\) const", "M33.gjInverse()": r"Matrix33<T>::gjInverse \(\) const IMATH_NOEXCEPT",
    "M44.gjInverse(bool)": r"Matrix44<T>::gjInverse \(bool singExc\) const", "M44.gjInverse()": r"Matrix44<T>::gjInverse \(\) const IMATH_NOEXCEPT",
    "M33.gjInvert(bool)": r"Matrix33<T>::gjInvert \(bool singExc\)", "M33.gjInvert()": r"Matrix33<T>::gjInvert \(\) IMATH_NOEXCEPT",
    "M44.gjInvert(bool)": r"Matrix44<T>::gjInvert \(bool singExc\)", "M44.gjInvert()": r"Matrix44<T>::gjInvert \(\) IMATH_NOEXCEPT",
    "M22.inverse(bool)": r"Matrix22<T>::inverse \(bool singExc\) const", "M22.inverse()": r"Matrix22<T>::inverse \(\) const IMATH_NOEXCEPT",
    "M33.inverse(bool)": r"Matrix33<T>::inverse \(bool singExc\) const", "M33.inverse()": r"Matrix33<T>::inverse \(\) const IMATH_NOEXCEPT",
    "M44.inverse(bool)": r"Matrix44<T>::inverse \(bool singExc\) const", "M44.inverse()": r"Matrix44<T>::inverse \(\) const IMATH_NOEXCEPT",
    "M22.invert(bool)": r"Matrix22<T>::invert \(bool singExc\)", "M22.invert()": r"Matrix22<T>::invert \(\) IMATH_NOEXCEPT",
    "M33.invert(bool)": r"Matrix33<T>::invert \(bool singExc\)", "M33.invert()": r"Matrix33<T>::invert \(\) IMATH_NOEXCEPT",
    "M44.invert(bool)": r"Matrix44<T>::invert \(bool singExc\)", "M44.invert()": r"Matrix44<T>::invert \(\) IMATH_NOEXCEPT",
}
R33 = {"Matrix33": "MatrixNN", "2": "N-1", "3": "N"}
R44 = {"Matrix44": "MatrixNN", "3": "N-1", "4": "N"}
TIES = [(a + "(bool)", a + "()", None, None) for a in
        ["M33.gjInverse", "M44.gjInverse", "M33.gjInvert", "M44.gjInvert", "M22.inverse", "M33.inverse", "M44.inverse", "M22.invert", "M33.invert", "M44.invert"]]
TIES += [("M33.gjInverse(bool)", "M44.gjInverse(bool)", R33, R44), ("M33.gjInverse()", "M44.gjInverse()", R33, R44)]


def _throw_sites(tokens):
    """Position tie for the throws of a `(bool singExc)` body (audit r2 N1a): every `if (singExc) throw ...;` must stand IMMEDIATELY
    before a failure return `return MatrixNN ();`, and every failure return must have one — so deleting the throws (the token tie)
    loses nothing: a throw that was moved, duplicated or dropped at one exit is reported.  Returns (#throws, list of problems)."""
    t = _normalise(tokens, keep_markers=True)
    probs, n = [], 0
    def is_fail_return(k):
        return t[k:k + 1] == ["return"] and re.fullmatch(r"Matrix\d\d", t[k + 1] if k + 1 < len(t) else "") and t[k + 2:k + 5] == ["(", ")", ";"]
    for k, x in enumerate(t):
        if x == "<THROW>":
            n += 1
            if not is_fail_return(k + 1):
                probs.append("throw #%d is not followed by the failure return: ... %s" % (n, " ".join(t[max(0, k - 8):k + 8])))
        elif is_fail_return(k) and (k == 0 or t[k - 1] != "<THROW>"):
            probs.append("failure return without `if (singExc) throw`: ... %s" % " ".join(t[max(0, k - 10):k + 6]))
    if any(x in ("throw", "singExc") for x in t):
        probs.append("a use of singExc / throw that is not of the form `if (singExc) throw ...;` or a forwarded `(singExc)`")
    return n, probs


# expected number of exits (zero pivot in the forward loop, zero diagonal in the backward loop; cofactor guard per arm)
THROW_SITES = {"M33.gjInverse(bool)": 2, "M44.gjInverse(bool)": 2, "M22.inverse(bool)": 1, "M33.inverse(bool)": 2, "M44.inverse(bool)": 1,
               "M33.gjInvert(bool)": 0, "M44.gjInvert(bool)": 0, "M22.invert(bool)": 0, "M33.invert(bool)": 0, "M44.invert(bool)": 0}


def source_ties(chk):
    """ImathMatrix.h: the checked and the unchecked copy of every inverse / gjInverse body are the same token sequence once
    `if (singExc) throw ...;` is deleted, and the 3x3 and 4x4 Gauss-Jordan bodies are the same modulo the dimension literals."""
    text = open(os.path.join(lib.REPO, "src/Imath/ImathMatrix.h")).read()
    res = {}
    for a, b, ra, rb in TIES:
        name = "source-tie: %s = %s %s(ImathMatrix.h, tokens, `if (singExc) throw` deleted)" % (a, b, "modulo the dimension literals " if ra else "")
        ba, bb = _body(text, SIG[a]), _body(text, SIG[b])
        if ba is None or bb is None:
            chk.oblige(name, "source-tie", False, "definition not found")
            chk.fail(name, "source-tie:%s=%s" % (a, b), "the definition of %s was not found in ImathMatrix.h (signature changed): the tie cannot be checked"
                     % (a if ba is None else b), {"regex": SIG[a if ba is None else b]}, False)
            continue
        ta, tb = _normalise(_tokens(ba), ra), _normalise(_tokens(bb), rb)
        ok = ta == tb
        res["%s = %s" % (a, b)] = {"tokens": len(ta), "equal": ok}
        detail = None
        if not ok:
            k = next((i for i in range(min(len(ta), len(tb))) if ta[i] != tb[i]), min(len(ta), len(tb)))
            detail = {"first_difference_at_token": k, a: " ".join(ta[max(0, k - 12):k + 12]), b: " ".join(tb[max(0, k - 12):k + 12])}
        chk.oblige(name, "source-tie", ok, detail)
        if not ok:
            chk.fail(name, "source-tie:%s=%s" % (a, b),
                     "the two textual copies differ beyond the `if (singExc) throw`: %s vs %s (an edit to one copy); the pair harness "
                     "(sampled + exhaustive lattices) says whether they still behave the same" % (a, b), detail, False)
    # position of the throws in the checked copies, and no throw / singExc at all in the unchecked ones
    for a, want in sorted(THROW_SITES.items()):
        name = "source-tie: %s: every `if (singExc) throw` stands immediately before a failure return, every failure return has one (%d sites)" % (a, want)
        ba = _body(text, SIG[a])
        if ba is None:
            continue        # reported above
        n, probs = _throw_sites(_tokens(ba))
        bu = _body(text, SIG[a.replace("(bool)", "()")])
        if bu is not None and any(x in ("throw", "singExc") for x in _tokens(bu)):
            probs.append("the unchecked copy mentions throw / singExc")
        ok = not probs and n == want
        chk.oblige(name, "source-tie", ok, None if ok else {"throws": n, "expected": want, "problems": probs[:4]})
        if not ok:
            chk.fail(name, "source-tie:throw-sites:" + a, "the throws of %s are not exactly at its failure returns (moved, duplicated or dropped throw): %d found, %d expected"
                     % (a, n, want), {"problems": probs[:6]}, False)
        res["throw sites " + a] = {"throws": n, "expected": want, "ok": ok}
    chk.extra["source_ties"] = res


def run_pairs(chk, binary, n):
    """Run the pair harness on the real code.  Returns {pair: [fail dicts]}."""
    rc, out = lib.sh([binary, str(chk.seed), str(n), "lattice"], timeout=3000)
    m = re.search(r"C07PAIRS pairs=(\d+) evals=(\d+) failures=(\d+)", out)
    fails = {}
    for l in out.split("\n"):
        mm = re.match(r"PAIRFAIL (.*?) \| (\S+) \| (.*?) \| (\S+) :: (.*?) :: in=(.*)", l)
        if mm:
            pair, code, cls, ty, what, inp = mm.groups()
            fails.setdefault(pair, []).append({"pair": pair, "code": code, "input_class": cls, "element_type": ty, "what": what,
                                               "input_bits(value)": inp.split()})
    pairs = {}
    for l in out.split("\n"):
        mm = re.match(r"PAIR (\S+) evals=(\d+) returned=(\d+) threw=(\d+) fails=(\d+)(.*)", l)
        if mm:
            d = {"evals": int(mm.group(2)), "returned": int(mm.group(3)), "threw": int(mm.group(4)), "fails": int(mm.group(5))}
            cls = dict((k, int(v)) for k, v in re.findall(r"\[(.*?)\]=(\d+)", mm.group(6)))
            if cls:
                d["by input class and outcome"] = cls
            pairs[mm.group(1)] = d
    return rc, out, m, fails, pairs


def pair_candidates(theorem):
    """pair-name fragments of the harness that exercise the pair a theorem is about"""
    t = theorem
    m = re.match(r"(V[234])_(normalized|normalize|inplace|length)", t)
    if m:
        return [m.group(1) + (".normalized" if m.group(2) == "normalized" else ".normaliz")]
    if t.startswith("V3_ofV4"):
        return ["V3.ofV4"]
    m = re.match(r"(M22|M33|M44)_(inverse|invert)", t)
    if m:
        return [m.group(1) + ".inverse", m.group(1) + ".invert"]
    if t.startswith("M33_gj"):
        return ["M33.gjInver"]
    if t.startswith("gj"):   # Props/C07Link.lean: lemmas about the instantiated 4x4 Gauss-Jordan pair
        return ["M44.gjInver"]
    m = re.match(r"Frustum_([A-Za-z]+?)(Exc)?(_|$)", t)
    if m:
        f = m.group(1)
        f = {"setFov": "setExc", "radius": "Radius", "ZToDepth": "ZToDepth", "projectPointToScreen": "projectPointToScreen"}.get(f, f)
        return ["Frustum." + f]
    m = re.match(r"Algo_([A-Za-z]+?)([23])?(F)?(_|$)", t)
    if m:
        return ["Algo." + m.group(1)]
    return []


# ---------------------------------------------------------------------------
# generator reach (audit W3, W4): what the pair harness must have reached, per pair

NEVER_THROWS = lambda p: "(false)/" in p or p == "Frustum.normalizedZToDepthExc/normalizedZToDepth(ortho)"
ORACLE = lambda p: "/oracle(" in p
REPLAY = lambda p: "/replay(" in p          # pseudo-pair: which pivot-search decisions the Gauss-Jordan lattices reached
# pairs with a generator that puts the numerator one ulp below / exactly at / one ulp above max * |divisor|
STRADDLE = ["V3.ofV4Exc/ofV4", "Frustum.projectionMatrixExc/projectionMatrix(persp)", "Frustum.aspectExc/aspect",
            "Frustum.localToScreenExc/localToScreen", "Frustum.screenRadiusExc/screenRadius", "Frustum.worldRadiusExc/worldRadius",
            "Algo.checkForZeroScaleInRow(Vec2)", "Algo.checkForZeroScaleInRow(Vec3)", "Frustum.DepthToZExc/DepthToZ(ortho)",
            "Frustum.DepthToZExc/DepthToZ(persp)"]
# classes (substring of the class name, required outcome) that must be non-empty, per pair
CLASSES = {
    # |2fn| > max |D|: in binary floating point only D = 0, or D = -n with 2 f n = inf, make it fire (see c07_pairs.cpp)
    "Frustum.normalizedZToDepthExc/normalizedZToDepth(persp)": [("denominator=0", "threw"), ("denominator-one-ulp-of-z-from-0", "returned"),
                                                                ("one-ulp-below-guard", "returned"), ("exactly-at-guard", "returned"),
                                                                ("above-guard(2*far=inf)", "threw"), ("spans", "returned")],
    "Frustum.ZToDepthExc/ZToDepth": [("zmax=zmin", "threw"), ("inner-guard-fires,denominator=0", "threw"), ("inner-guard-fires,above-guard", "threw"),
                                     ("inner-guard-passes,exactly-at-guard", "returned"), ("inner-guard-passes,one-ulp-below-guard", "returned"),
                                     ("inner-guard-passes:", "returned")],
    "Frustum.aspectExc/aspect": [("0/0", "returned"), ("spans", "threw"), ("spans", "returned")],
    "Frustum.projectPointToScreenExc/projectPointToScreen": [("p.z=0", "returned"), ("p.z!=0", "returned"), ("p.z!=0", "threw")],
    "Frustum.DepthToZExc/DepthToZ(persp)": [("depth-guard:", "threw"), ("far-near-guard(persp):far=near", "threw"),
                                            ("far-near-guard(persp):within-a-few-ulps", "returned"), ("spans", "returned")],
    "Frustum.DepthToZExc/DepthToZ(ortho)": [("far-near-guard:", "threw"), ("spans", "returned")],
    "M33.gjInverse(true)/gjInverse()": [("lattice{-1,0,1,2}^9(exhaustive)", "threw"), ("lattice{-1,0,1,2}^9(exhaustive)", "returned")],
    "M44.gjInverse(true)/gjInverse()": [("lattice{0,1}^16(exhaustive)", "threw"), ("lattice{0,1}^16(exhaustive)", "returned"),
                                        ("lattice{-1,0,1}^16,<=6-non-zeros(exhaustive)", "threw"), ("lattice{-1,0,1}^16,<=6-non-zeros(exhaustive)", "returned")],
}
# exhaustive lattices: the number of matrices is known in advance (float + double)
LATTICE_TOTALS = {"lattice{-1,0,1,2}^9(exhaustive)": 2 * 4 ** 9, "lattice{0,1}^16(exhaustive)": 2 * 2 ** 16,
                  "lattice{-1,0,1}^16,<=6-non-zeros(exhaustive)": 2 * 686401}
# magnitude family (3 generic integer bases x all non-zero patterns over {0,+-1,+-2,+-3} in the stage-c column), float + double
MAGNITUDE_TOTALS = {"M33": {0: 2 * 3 * (7 ** 3 - 1), 1: 2 * 3 * (7 ** 2 - 1)},
                    "M44": {0: 2 * 3 * (7 ** 4 - 1), 1: 2 * 3 * (7 ** 3 - 1), 2: 2 * 3 * (7 ** 2 - 1)}}
MAGNITUDE_CLASS = "lattice:pivot-magnitudes{0,+-1,+-2,+-3}(all-patterns-in-the-stage-%d-column)"
ORACLE_UNDECIDED_CEILING = 0.20      # clean tree, seeds 1-3: 0.097 - 0.105
# {0,1} 4x4 matrices that are non-singular over the rationals: 22,560 (OEIS A055165); Gauss-Jordan with partial pivoting is exact on them
NONSINGULAR_01_4x4 = 22560
ALGO44 = ["extractScaling", "extractScalingAndShear", "extractAndRemoveScalingAndShear", "removeScalingAndShear", "removeScaling",
          "extractSHRT(M44,Vec3)", "extractSHRT(M44,order)", "extractSHRT(M44,Euler)", "sansScaling", "sansScalingAndShear",
          "sansScalingAndShear(result,M44)"]
ALGO33 = ["extractScaling", "extractScalingAndShear", "extractAndRemoveScalingAndShear", "removeScalingAndShear", "removeScaling", "extractSHRT",
          "sansScaling", "sansScalingAndShear"]


def _cls_count(d, frag, outcome):
    return sum(v for k, v in d.get("by input class and outcome", {}).items() if frag in k and k.endswith(":" + outcome))


def reach_obligations(chk, pairs):
    def ob(name, ok, detail=None):
        chk.oblige("reach:" + name, "generator-reach", ok, detail)
        if not ok:
            chk.fail("reach:" + name, "reach:" + name, "the pair harness did not reach what it must reach: %s (%s); a regression on that side of the guard / at that "
                     "call site would be invisible" % (name, detail), {"counts": detail}, False)
    for p, d in sorted(pairs.items()):
        if REPLAY(p):
            continue
        if ORACLE(p):
            und = d["evals"] - d["threw"] - d["returned"]
            ob("%s: the independent predicate decides both outcomes and leaves at most %d %% undecided" % (p, round(100 * ORACLE_UNDECIDED_CEILING)),
               d["threw"] > 0 and d["returned"] > 0 and und <= ORACLE_UNDECIDED_CEILING * d["evals"],
               {"must-throw": d["threw"], "must-return": d["returned"], "undecided(inside the rounding band)": und})
        elif NEVER_THROWS(p):
            ob("%s: the checked member never throws here" % p, d["threw"] == 0 and d["returned"] > 0, {"threw": d["threw"], "returned": d["returned"]})
        else:
            ob("%s: both outcomes reached (threw > 0 and returned > 0)" % p, d["threw"] > 0 and d["returned"] > 0, {"threw": d["threw"], "returned": d["returned"]})
    for p in STRADDLE:
        d = pairs.get(p, {})
        c = {k: _cls_count(d, k, "threw") + _cls_count(d, k, "returned") for k in ["one-ulp-below-guard", "exactly-at-guard", "one-ulp-above-guard"]}
        ok = all(v > 0 for v in c.values()) and _cls_count(d, "one-ulp-below-guard", "returned") > 0 and _cls_count(d, "one-ulp-above-guard", "threw") > 0
        ob("%s: numerator one ulp below (returns) / exactly at / one ulp above (throws) max*|divisor|" % p, ok, c)
    for p, req in sorted(CLASSES.items()):
        d = pairs.get(p, {})
        c = {"%s:%s" % (k, o): _cls_count(d, k, o) for k, o in req}
        ob("%s: input classes %s" % (p, ", ".join(sorted(set(k for k, _ in req)))), all(v > 0 for v in c.values()), c)
    for p in ["M33.gjInverse(true)/gjInverse()", "M44.gjInverse(true)/gjInverse()"]:
        d = pairs.get(p, {})
        for k, total in sorted(LATTICE_TOTALS.items()):
            if any(k == kk for kk, _ in CLASSES[p]):
                got = _cls_count(d, k, "threw") + _cls_count(d, k, "returned")
                ob("%s: %s enumerated completely (%d matrices, float + double)" % (p, k, total), got == total, {"evaluated": got, "expected": total})
    # magnitude family: complete, and the pivot search of the lattices reached every (stage, candidate row, outcome) incl. the sign cases
    for mn, N in (("M33", 3), ("M44", 4)):
        d = pairs.get("%s.gjInverse(true)/gjInverse()" % mn, {})
        for c, total in sorted(MAGNITUDE_TOTALS[mn].items()):
            k = MAGNITUDE_CLASS % c
            got = _cls_count(d, k, "threw") + _cls_count(d, k, "returned")
            ob("%s.gjInverse(true)/gjInverse(): %s enumerated completely (%d matrices, float + double), both outcomes" % (mn, k, total),
               got == total and _cls_count(d, k, "threw") > 0 and _cls_count(d, k, "returned") > 0, {"evaluated": got, "expected": total})
        r = pairs.get("%s.gjInverse()/replay(pivot-search-reach-of-the-lattices)" % mn, {})
        rc_ = r.get("by input class and outcome", {})
        want = ["returned", "backward%d:zero-diagonal-exit" % (N - 1)]
        for i in range(N - 1):
            want += ["stage%d:diagonal-negative" % i, "stage%d:zero-pivot-exit" % i]
            for j in range(i + 1, N):
                want += ["stage%d:row%d:%s" % (i, j, o) for o in ["less", "less,candidate-negative", "equal,non-zero", "equal,opposite-signs", "greater",
                                                                 "greater,candidate-negative", "greater,current-negative"]]
                want.append("stage%d:swap-with-row%d" % (i, j))
        miss = [k for k in want if rc_.get(k, 0) == 0]
        ob("%s Gauss-Jordan lattices: the pivot search reached every (stage, candidate row) x {less, equal (non-zero, opposite signs), greater} x signs, every "
           "swap and every exit (%d decision classes; replay cross-checked bit for bit against gjInverse ())" % (mn, len(want)),
           bool(r) and not miss and r.get("fails", 1) == 0, {"not reached": miss[:10], "replay evaluations": r.get("evals")})
    # matrix classes say what the matrix IS: exact integer determinant (harness self-check `throw-vs-exact-integer-determinant`)
    for p in ["M22.inverse(true)/inverse()", "M33.inverse(true)/inverse()", "M44.inverse(true)/inverse()", "M33.gjInverse(true)/gjInverse()",
              "M44.gjInverse(true)/gjInverse()"]:
        d = pairs.get(p, {})
        c = {"int:det=0:threw": _cls_count(d, "int:det=0", "threw"), "int:det!=0:returned": _cls_count(d, "int:det!=0", "returned"),
             "int:det!=0:threw": _cls_count(d, "int:det!=0", "threw")}
        ob("%s: small-integer matrices with exact determinant 0 (throw) and != 0 (return, never throw) both occur" % p,
           c["int:det=0:threw"] > 0 and c["int:det!=0:returned"] > 0 and c["int:det!=0:threw"] == 0, c)
    for p in ["M33.inverse(true)/inverse()", "M44.inverse(true)/inverse()"]:
        d = pairs.get(p, {})
        c = {"affine:threw": _cls_count(d, ",affine", "threw"), "affine:returned": _cls_count(d, ",affine", "returned")}
        ob("%s: the affine fast path and the general path each throw and return" % p,
           all(v > 0 for v in c.values()) and d["threw"] > c["affine:threw"] and d["returned"] > c["affine:returned"], c)
    d = pairs.get("M44.gjInverse(true)/gjInverse()", {})
    got = _cls_count(d, "lattice{0,1}^16(exhaustive)", "returned")
    ob("M44.gjInverse(true): returns on exactly the %d non-singular {0,1} matrices (x2 element types)" % NONSINGULAR_01_4x4, got == 2 * NONSINGULAR_01_4x4,
       {"returned": got, "expected": 2 * NONSINGULAR_01_4x4})
    # every checkForZeroScaleInRow call site of every decomposition function fails FIRST on some input, and none fails on others
    sites = {}
    for fn in ALGO44:
        name = "Algo.%s(M44)" % fn if "(" not in fn else "Algo." + fn
        d = pairs.get(name, {})
        c = {s_: _cls_count(d, "site=" + s_, "threw") for s_ in ["scl.x", "scl.y", "scl.z"]}
        c["none"] = _cls_count(d, "site=none", "returned")
        sites[name] = dict(c, **{"maxVal": _cls_count(d, "site=maxVal", "threw")})
        ob("%s: each call site scl.x / scl.y / scl.z is the first to fail on some input, and no site fails on others" % name, all(v > 0 for v in c.values()), c)
    for fn in ALGO33:
        name = "Algo.%s(M33)" % fn
        d = pairs.get(name, {})
        c = {s_: _cls_count(d, "site=" + s_, "threw") for s_ in ["scl.x", "scl.y"]}
        c["none"] = _cls_count(d, "site=none", "returned")
        sites[name] = dict(c, **{"maxVal": _cls_count(d, "site=maxVal", "threw")})
        ob("%s: each call site scl.x / scl.y is the first to fail on some input, and no site fails on others" % name, all(v > 0 for v in c.values()), c)
    chk.extra["algo_first_failing_call_site"] = sites
    chk.extra["algo_site_maxVal_note"] = ("the normalisation calls checkForZeroScaleInRow (maxVal, row[i]) cannot fail for finite input "
                                          "(|row[i][j]| <= maxVal < max * maxVal): 0 hits expected and observed")
    a = pairs.get("Frustum.aspectExc/aspect", {}).get("by input class and outcome", {})
    chk.extra["observation_aspectExc_zero_over_zero"] = {
        "inputs with right == left and top == bottom": a.get("0/0:returned", 0) + a.get("0/0:threw", 0),
        "checked form returned NaN": a.get("0/0:checked-form-returned-NaN", 0),
        "reading": "header: 'Throw an exception if the aspect ratio is undefined'; 0/0 does not throw, both forms return NaN bit for bit. "
                   "Not a disagreement of the pair and aspect () has no failure report, so not a C07 violation (theorem Frustum_aspectExc_zero_over_zero "
                   "states the behaviour); reported to the coordinator as a documentation-level observation"}


# coverage floors for the translator validation of the big trees (leaves reached by the TV inputs incl. the small-integer lattice;
# a part of each enumerated tree is infeasible over an ordered field, so hit = total is not attainable): clean tree, seeds 1-3,
# quick tier: M33 Gauss-Jordan 345-367 of 1,312, 2-D decomposition 49-58 of 648 / 1,656
TV_FLOORS = [(r"C07\.M33\.gjInver", 300), (r"C07\.Algo\.(extract|remove|sans)", 40)]


def run(chk):
    chk.trusted = ["Lean 4.33 kernel; axioms propext/Classical.choice/Quot.sound at most",
                   "translator harness/sym (T = Sym path extraction), validated each run: C++ tree vs real instantiation bitwise at float/double "
                   "(leaves reached are counted), emitted Lean text vs tree at exact rationals for ALL 114 entries incl. those with opaque calls",
                   "the opaque stand-in for Matrix44::gjInverse (parameter functions; validated against the real members by TV)",
                   "g++ 12 -O1 -ffp-contract=off for the correspondence harness"]
    chk.assumptions = ["Matrix44 Gauss-Jordan pair, 3-D decomposition functions, ZToDepth with non-literal integers: decided by CORRESPONDENCE of the "
                       "real members (structured inputs; for Gauss-Jordan also exhaustive small-integer and pivot-magnitude lattices with the reached "
                       "pivot-search decisions obliged, and a token-level tie of the source copies incl. the position of every throw), not by theorem here",
                       "DepthToZExc / DepthToZ: sampled here; the pair THEOREMS are in Props/C16Z.lean (property C16: DepthToZExc_{persp,ortho}_ok/_error, "
                       "extracted with the recording `operator long` at the literal range (3, 10)); ZToDepthExc: 8 literal triples here, the general "
                       "integer plumbing of the unchecked member in Props/C16Z.lean",
                       "float decisions at the guards (rounding of max*|d|): probed one ulp either side, not proved",
                       "Props/C07Link: the M44 pair theorems with the Gauss-Jordan parameters instantiated by the C06 hand model "
                       "(Model/GaussJordan.lean, proved correct in Props/C06); the instantiation lemmas gj_hok / gj_herr / gjF_eq are true BY CONSTRUCTION "
                       "(helper lemmas in Lemmas/C07LinkInst.lean, not obligations); that model is tied to the real gjInverse members by the C06 "
                       "check's harness (c06_inv), which is not re-run here",
                       "translator validation reaches only part of the leaves of the big trees (floors are calibrations; the number of FEASIBLE leaves is "
                       "not known): 2-D decomposition trees ~3 % of the enumerated leaves; for 3x3 Gauss-Jordan the tree is proved equal to the hand model instead"]
    chk.rule = ("theorems: all inputs over an ordered field, tmin/tmax/sqrt/sin/cos/tan/atan2 parameters. correspondence (float and double, real "
                "code, both members of 67 pairs + 2 independent failure predicates + 2 Gauss-Jordan replays): zero/denormal/tiny/huge/non-finite vectors; w in {0, denormal, <1, >=1}; "
                "numerator one ulp below/at/above max*|d| for power-of-two d at every guard where such an input exists (normalizedZToDepth / ZToDepth: "
                "denominator 0 and one ulp of z either side, 2*far*near at max*near and overflowing); |det| around 1, around and well below min*|cofactor|; "
                "matrix families dup-or-zero-row, near-singular, unimodular, dyadic, zero-pivot, scaled (a matrix class = family + `affine` when the fast "
                "path is taken + the EXACT integer determinant being 0 / not 0 for small-integer matrices, cross-checked against the outcome); ALL 3x3 "
                "matrices over {-1,0,1,2}, ALL 4x4 over {0,1} and over {-1,0,1} with <= 6 non-zeros, and a pivot-magnitude family (all patterns over "
                "{0,+-1,+-2,+-3} in each stage's pivot column of three generic integer bases) through the Gauss-Jordan pairs, with the reached "
                "(stage, row, less/equal/greater, signs) decisions obliged; frusta with right-left/top-bottom/far-near from 0 through "
                "denormal, <1, around 1 to large; p.z and depth near 0; S*H*R*T matrices with zero/tiny/huge scales, parallel / zero / in-span rows "
                "(every checkForZeroScaleInRow call site is the first to fail on some input: obligation per function and site)")
    bins = troute.build_extractors(chk, [dict(name="sym_leaf", source="sym/sym_leaf.cpp"),
                                         dict(name="sym_c07", source="sym/sym_c07.cpp"),
                                         dict(name="c07_pairs", source="corr/c07_pairs.cpp")])
    cache = {}

    def pairs_once():
        if "r" not in cache and bins.get("c07_pairs"):
            cache["r"] = run_pairs(chk, bins["c07_pairs"], 6000 if chk.thorough else 1500)
        return cache.get("r")

    source_ties(chk)
    if bins.get("sym_leaf") and bins.get("sym_c07"):
        troute.regenerate(chk, bins["sym_leaf"], "leaf")
        index, changed = troute.regenerate(chk, bins["sym_c07"], "c07", idx_deps=[LEAF_IDX])
        troute.tv(chk, bins["sym_c07"], "c07", 300 if chk.thorough else 48, idx_deps=[LEAF_IDX])
        ph = getattr(chk, "tv_paths", {}).get("c07", {})
        for rx, floor in TV_FLOORS:
            sel = {k: v for k, v in ph.items() if re.match(rx, k)}
            low = {k: v for k, v in sel.items() if v[0] < floor}
            ok = bool(sel) and not low
            chk.oblige("tv:c07: every tree %s reaches >= %d leaves (%d trees; small-integer lattice inputs)" % (rx, floor, len(sel)), "translation-validation",
                       ok, low or None)
            if not ok:
                chk.fail("tv:c07", "tv-coverage:" + rx, "translator validation reaches too few leaves of the big trees", {"below_floor": low, "trees": len(sel)}, False)
        if hasattr(troute, "lean_tv"):
            troute.lean_tv(chk, bins["sym_c07"], "c07", index, n=6 if chk.thorough else 3, idx_deps=[LEAF_IDX], param_stubs=gj_stubs())
            sk = chk.extra.get("lean_tv", {}).get("c07", {}).get("skipped_external_calls")
            chk.oblige("lean-tv:c07: no entry skipped (entries with opaque calls are validated with exact callees / parameter stubs)", "translation-validation",
                       sk == 0, {"skipped": sk})
            if sk:
                chk.fail("lean-tv:c07", "lean-tv:c07:skipped", "entries with opaque calls were skipped by the Lean-side validation", {"skipped": sk}, False)

        def search(name):
            """a pair theorem stopped elaborating: look for a concrete input on which the REAL members of that pair disagree"""
            r = pairs_once()
            if not r:
                return None
            _, _, _, fails, _ = r
            pref = "(true)" if re.search(r"T_|Exc", name) else "(false)"
            for frag in pair_candidates(name):
                for pair, fl in sorted(fails.items(), key=lambda kv: (pref not in kv[0], kv[0])):
                    if frag.lower() in pair.lower():
                        for f in fl:
                            if f["input_class"].startswith(OVERFLOW_CLASS) and f["code"] == "failure-without-throw":
                                continue
                            return dict(f, key="theorem:" + name, found_by="harness/corr/c07_pairs.cpp on the real members of the pair")
            return None

        # build the theorem files in one (parallel) lake invocation, then audit each on its own so that a failure
        # in one file is attributed to that file's theorems only
        lib.lake_build(MODULES)
        for mod in MODULES:
            chk.check_theorems(mod, required=REQUIRED[mod], search=search)
        chk.extra["helper_lemmas_true_by_construction(not obligations)"] = {"Lemmas/C07LinkInst.lean": ["gj_hok", "gj_herr", "gjF_eq"]}
        for d in [d for d in index if d["name"].endswith("T") or "Exc" in d["name"]][:6]:
            chk.sample({"entry": d["name"], "paths": d.get("paths")})

    r = pairs_once()
    if r:
        rc, out, m, fails, pairs = r
        ran = m is not None and len(pairs) >= 71
        chk.oblige("correspondence: c07_pairs ran over all pairs", "correspondence", ran, None if ran else out[-600:])
        if not ran:
            chk.fail("correspondence", "pairs:run", "pair harness did not run to completion", {"output": out[-2000:]}, False)
        if m:
            chk.count(int(m.group(2)), sum(p["threw"] for p in pairs.values()))
        for pair, d in sorted(pairs.items()):
            ok = d["fails"] == 0
            what = ("throws <=> |det| < 1 and a cofactor >= |det| / min () computed independently in long double" if ORACLE(pair) else
                    "the harness's replay of the Gauss-Jordan statements reproduces gjInverse () bit for bit on every lattice input" if REPLAY(pair) else
                    "returns => bit-identical; throws (documented kind) <=> unchecked form reports failure")
            chk.oblige("pair:%s: %s" % (pair, what), "correspondence", ok, None if ok else fails.get(pair, [])[:3])
        if ran:
            reach_obligations(chk, pairs)
        # one violation per (pair, kind of disagreement); the vector classes "finite,..." are semantic (what the input IS) and
        # keep their own key, the generator classes of the other pairs are merged (smallest name carries the key, all are listed)
        for pair, fl in sorted(fails.items()):
            groups = {}
            for f in fl:
                sem = f["input_class"] if f["input_class"].startswith("finite,") else ""
                groups.setdefault((f["code"], sem), []).append(f)
            for (code, sem), group in sorted(groups.items()):
                group.sort(key=lambda f: (f["input_class"], f["element_type"] != "float"))
                f = group[0]
                icls = re.sub(r",site=[A-Za-z.]+$", "", f["input_class"])      # the call-site label is an annotation, not part of the key
                key = "pairs:%s:%s:%s" % (pair, code, icls)
                chk.fail("pair:" + pair, key, "real code: %s — %s (input class: %s)" % (pair, f["what"], f["input_class"]),
                         dict(f, all_failing_input_classes=sorted(set(g["input_class"] for g in group))), True)
        chk.extra["pairs"] = pairs
        chk.extra["pairs_decided_by_correspondence_only"] = sorted(
            p for p in pairs if re.search(r"M44\.gj|\(M44|Frustum\.ZToDepthExc", p) and not REPLAY(p))
        chk.extra["pairs_sampled_here_and_proved_elsewhere"] = {
            "Frustum.DepthToZExc/DepthToZ(persp), (ortho)": "Props/C16Z.lean (check C16): DepthToZExc_persp_ok / _ortho_ok (returns => same operand of the cast and same "
            "integer tail as DepthToZ), DepthToZExc_persp_error / _ortho_error (throws domain_error <=> the exact guard disjunction); extracted with the recording "
            "`operator long` of harness/sym/sym.h at the literal range (3, 10)"}
        for p in ["V3.ofV4Exc/ofV4", "Frustum.aspectExc/aspect", "M44.gjInverse(true)/gjInverse()", "Algo.extractSHRT(M44,Vec3)"]:
            if p in pairs:
                chk.sample({"pair": p, **{k: v for k, v in pairs[p].items() if k != "by input class and outcome"}})
    if chk.thorough:
        for mod in MODULES + ["ImathVerif.Lemmas.C07GJLink", "ImathVerif.Lemmas.C07LinkInst"]:
            chk.leanchecker(mod)
